"""Translator for C08: the straight-line arithmetic and the threshold constants of the closed-form eigenvalue code in
dune/common/fmatrixev.hh are re-read from the source on every run and emitted as lean/DuneVerif/Gen/C08.lean,
generic over core arithmetic classes (Add/Sub/Mul/Div/Neg/NatCast).  Translated pieces:

  eigenValues2dImpl        p, p2, q, the clamp constant of `q < 0 && q > -c`, eigenvalues[0], eigenvalues[1]
  2x2 eigenValuesVectorsImpl   which eigenvalue is subtracted for the identity test, the identity threshold expression,
                           the four candidate columns; the selection statement is matched literally
  crossProduct             the three components
  eigenValues3dImpl        p1, its threshold, q (the trace/3 loop), p2, p, the B scaling factor, r, phi, the three
                           eigenvalue formulas
  3x3 eigenValuesVectorsImpl   the threshold of the diagonal special case
  DenseMatrix::determinant (densematrix.hh)   the rows()==3 block (used for B.determinant()): temporaries and the
                           return expression in source order

Anything outside the small expression grammar ( + - * / unary minus, parentheses, literals, the named variables,
sqrt/acos/cos calls, numeric_limits<..>::epsilon(), matrix.infinity_norm(), real_type(c)/K(c) casts ) raises
TranslateError, which check.py reports as a broken obligation and answers with a search for a failing input."""
import os
import re
from fractions import Fraction


class TranslateError(Exception):
    pass


# ------------------------------------------------------------------------------------------------
# C++ expression -> Lean term
# ------------------------------------------------------------------------------------------------
TOKEN = re.compile(r"""
    \s*(?:
      (?P<eps>std::numeric_limits<\s*(?:K|real_type)\s*>::epsilon\(\))   # only the epsilon of the scalar type itself
    | (?P<norm>(?:matrix|scaledMatrix)\s*\.\s*infinity_norm\(\))
    | (?P<cast>(?:real_type|K)\s*\(\s*(?P<castnum>[0-9.]+(?:[eE][-+]?[0-9]+)?)\s*\))
    | (?P<num>(?:[0-9]+\.?[0-9]*|\.[0-9]+)(?:[eE][-+]?[0-9]+)?)
    | (?P<idx>(?P<base>[A-Za-z_][A-Za-z_0-9]*)\s*\[\s*(?P<i>[0-9])\s*\](?:\s*\[\s*(?P<j>[0-9])\s*\])?)
    | (?P<id>[A-Za-z_][A-Za-z_0-9]*)
    | (?P<op>[-+*/(),])
    )""", re.X)


def tokenize(src):
    pos, out = 0, []
    src = src.strip()
    while pos < len(src):
        m = TOKEN.match(src, pos)
        if not m or m.end() == pos:
            raise TranslateError("cannot tokenise %r at %r" % (src, src[pos:pos + 20]))
        pos = m.end()
        if m.group("eps"):
            out.append(("var", "eps"))
        elif m.group("norm"):
            out.append(("var", "normA"))
        elif m.group("cast"):
            out.append(("num", m.group("castnum")))
        elif m.group("num"):
            out.append(("num", m.group("num")))
        elif m.group("idx"):
            base, i, j = m.group("base"), m.group("i"), m.group("j")
            out.append(("var", {"matrix": "m", "scaledMatrix": "m", "eigenValues": "l", "eigenvalues": "l", "vec0": "a", "vec1": "b"}.get(base, base)
                        + i + (j if j is not None else "")))
        elif m.group("id"):
            out.append(("id", m.group("id")))
        else:
            out.append(("op", m.group("op")))
    return out


def lit(text):
    """decimal literal -> Lean term over NatCast/Div (exact rational value of the decimal string)"""
    try:
        f = Fraction(text)
    except Exception:
        raise TranslateError("bad literal %r" % text)
    if f.denominator == 1:
        return "(Nat.cast %d : K)" % f.numerator
    return "((Nat.cast %d : K) / (Nat.cast %d : K))" % (f.numerator, f.denominator)


class Parser:
    FUNCS = {"sqrt", "acos", "cos"}

    def __init__(self, toks, allowed):
        self.t, self.i, self.allowed = toks, 0, allowed

    def peek(self):
        return self.t[self.i] if self.i < len(self.t) else (None, None)

    def eat(self, kind=None, val=None):
        k, v = self.peek()
        if k is None or (kind and k != kind) or (val and v != val):
            raise TranslateError("unexpected token %r (wanted %r %r)" % ((k, v), kind, val))
        self.i += 1
        return v

    def expr(self):
        e = self.term()
        while self.peek() in (("op", "+"), ("op", "-")):
            o = self.eat()
            e = "(%s %s %s)" % (e, o, self.term())
        return e

    def term(self):
        e = self.unary()
        while self.peek() in (("op", "*"), ("op", "/")):
            o = self.eat()
            e = "(%s %s %s)" % (e, o, self.unary())
        return e

    def unary(self):
        if self.peek() == ("op", "-"):
            self.eat()
            return "(-%s)" % self.unary()
        return self.primary()

    def primary(self):
        k, v = self.peek()
        if k == "num":
            self.eat()
            return lit(v)
        if k == "var":
            self.eat()
            if v not in self.allowed:
                raise TranslateError("variable %r not expected here" % v)
            return v
        if k == "id":
            self.eat()
            if v in self.FUNCS:
                self.eat("op", "(")
                e = self.expr()
                self.eat("op", ")")
                if v not in self.allowed:
                    raise TranslateError("function %r not expected here" % v)
                return "(%s %s)" % (v, e)
            if v not in self.allowed:
                raise TranslateError("identifier %r not expected here" % v)
            return v
        if (k, v) == ("op", "("):
            self.eat()
            e = self.expr()
            self.eat("op", ")")
            return e
        raise TranslateError("unexpected token %r" % ((k, v),))


def tr(expr, allowed):
    p = Parser(tokenize(expr), set(allowed))
    e = p.expr()
    if p.i != len(p.t):
        raise TranslateError("trailing tokens in %r" % expr)
    return e


def tr_list(text, allowed):
    """`a, b, c` at top level -> list of Lean terms"""
    parts, depth, cur = [], 0, ""
    for ch in text:
        if ch in "([":
            depth += 1
        if ch in ")]":
            depth -= 1
        if ch == "," and depth == 0:
            parts.append(cur)
            cur = ""
        else:
            cur += ch
    parts.append(cur)
    return [tr(p, allowed) for p in parts]


# ------------------------------------------------------------------------------------------------
# locating the pieces
# ------------------------------------------------------------------------------------------------
def strip_comments(src):
    src = re.sub(r"/\*.*?\*/", lambda m: "\n" * m.group(0).count("\n"), src, flags=re.S)
    return re.sub(r"//[^\n]*", "", src)


def body_after(src, header_rx, what):
    m = re.search(header_rx, src, re.S)
    if not m:
        raise TranslateError("%s not found" % what)
    i = src.index("{", m.end() - 1) if src[m.end() - 1] != "{" else m.end() - 1
    depth, j = 0, i
    while j < len(src):
        if src[j] == "{":
            depth += 1
        elif src[j] == "}":
            depth -= 1
            if depth == 0:
                return src[i + 1:j]
        j += 1
    raise TranslateError("unbalanced braces in %s" % what)


def one(rx, text, what, flags=re.S):
    ms = re.findall(rx, text, flags)
    if len(ms) != 1:
        raise TranslateError("%s: expected exactly one match, found %d" % (what, len(ms)))
    return ms[0]


def norm_ws(s):
    return re.sub(r"\s+", "", s)



# ------------------------------------------------------------------------------------------------
# round 4: control tables (which index goes where) and the LAPACK call sites
# ------------------------------------------------------------------------------------------------
def nat_expr(text, env):
    """integer size expression (`3*N -1`, `dim * dim`, `lwork`, `c ? 4*N : 3*N`) -> Lean term over Nat; `env` maps the
    C++ names that may occur to Lean terms"""
    text = text.strip()
    m = re.match(r"^(\w+)\s*\?\s*([^:?]+):([^:?]+)$", text)
    if m:
        if m.group(1) not in env.get("__bools__", ()):
            raise TranslateError("condition %r of a size expression is not the eigenvector request" % m.group(1))
        return "(if vec then %s else %s)" % (nat_expr(m.group(2), env), nat_expr(m.group(3), env))
    toks = re.findall(r"\s*([A-Za-z_]\w*|[0-9]+|[-+*()])", text)
    if "".join(toks) != norm_ws(text):
        raise TranslateError("size expression %r outside the grammar" % text)
    out = []
    for t in toks:
        if t.isdigit() or t in "+-*()":
            out.append(t)
        elif t in env:
            out.append(env[t])
        else:
            raise TranslateError("name %r not expected in size expression %r" % (t, text))
    return "(" + " ".join(out) + ")"


def call_args(body, fname, what):
    m = one(r"\b%s\s*\(([^;]*)\)\s*;" % fname, body, what + ": call of " + fname)
    return [norm_ws(a) for a in m.split(",")]


def ptr_name(arg, what):
    """`&x[0]`, `x`, `x.get()`, `&x` -> x"""
    m = re.match(r"^&?(\w+)(?:\[0\]|\.get\(\)|\.data\(\))?$", arg)
    if not m:
        raise TranslateError("%s: argument %r is not a plain buffer/variable" % (what, arg))
    return m.group(1)


def char_decl(body, name, what, bools=()):
    """`const char name = 'c';` or `= flag ? 'a' : 'b';` or `= "ab"[Tag];` -> ('lit', c) | ('cond', a, b) | ('tab', s)"""
    e = one(r"const\s+char\s+%s\s*=\s*([^;]+);" % name, body, what + ": declaration of " + name).strip()
    m = re.match(r"^'(\w)'$", e)
    if m:
        return ("lit", m.group(1))
    m = re.match(r"^(\w+)\s*\?\s*'(\w)'\s*:\s*'(\w)'$", e)
    if m and m.group(1) in bools:
        return ("cond", m.group(2), m.group(3))
    m = re.match(r'^"(\w+)"\s*\[\s*Tag\s*\]$', e)
    if m:
        return ("tab", m.group(1))
    raise TranslateError("%s: job character %s = %r outside the grammar" % (what, name, e))


def int_decl(body, name, what):
    return one(r"const\s+long\s+int\s+%s\s*=\s*([^;]+);" % name, body, what + ": declaration of " + name)


def pack_orientation(body, dimname, what):
    """the copy loop into the flat LAPACK array: False = `matrix[i][j]` (row-major), True = `matrix[j][i]`"""
    rx = (r"int\s+row\s*=\s*0\s*;\s*for\s*\(\s*int\s+i\s*=\s*0\s*;\s*i\s*<\s*%s\s*;\s*\+\+i\s*\)\s*\{\s*"
          r"for\s*\(\s*int\s+j\s*=\s*0\s*;\s*j\s*<\s*%s\s*;\s*\+\+j\s*,\s*\+\+row\s*\)\s*\{\s*"
          r"(\w+)\s*\[\s*row\s*\]\s*=\s*matrix\s*\[\s*([ij])\s*\]\s*\[\s*([ij])\s*\]\s*;\s*\}\s*\}") % (dimname, dimname)
    buf, a, b = one(rx, body, what + ": copy loop into the LAPACK array")
    if a == b:
        raise TranslateError("%s: copy loop reads matrix[%s][%s]" % (what, a, b))
    return buf, a == "j"


def translate_tables(repo, src):
    out = ["-- GENERATED by tools/translators/tr_c08.py from dune/common/fmatrixev.hh and dynmatrixev.hh -- do not edit",
           "set_option linter.unusedVariables false",
           "namespace DV.C08.Gen",
           ""]

    # ---- eig0: rows of A - ev I, the three cross products, their norms, the running maximum, the result ----------
    e0 = body_after(src, r"void\s+eig0\s*\([^)]*\)\s*\{", "eig0")
    hdr = one(r"void\s+eig0\s*\(\s*const\s+FieldMatrix\s*<\s*K\s*,\s*3\s*,\s*3\s*>\s*&\s*(\w+)\s*,\s*K\s+(\w+)\s*,\s*FieldVector\s*<\s*K\s*,\s*3\s*>\s*&\s*(\w+)\s*\)",
              src, "eig0 signature")
    mat, evn, outv = hdr
    rows = re.findall(r"Vector\s+(\w+)\s*=\s*\{([^}]*)\}\s*;", e0)
    if len(rows) != 3:
        raise TranslateError("eig0: expected three row definitions")
    rown = [r[0] for r in rows]
    out.append("section\nvariable {K : Type} [Add K] [Sub K] [Mul K] [Div K] [Neg K] [NatCast K]\n")
    for k, (nm, txt) in enumerate(rows):
        comps = tr_list(txt.replace(mat + "[", "matrix[").replace(evn, "eval0"), M3 + ["eval0"])
        if len(comps) != 3:
            raise TranslateError("eig0: row is not a triple")
        out.append("/-- `Vector %s = {%s};` -/\ndef eig0_row%d (m00 m01 m02 m10 m11 m12 m20 m21 m22 eval0 : K) : K × K × K :=\n  (%s, %s, %s)\n"
                   % (nm, txt.strip(), k, comps[0], comps[1], comps[2]))
    out.append("end\n")
    crs = re.findall(r"Vector\s+(\w+)\s*=\s*crossProduct\s*\(\s*(\w+)\s*,\s*(\w+)\s*\)\s*;", e0)
    if len(crs) != 3 or any(a not in rown or b not in rown for _, a, b in crs):
        raise TranslateError("eig0: expected three cross products of rows")
    crn = [c[0] for c in crs]
    out.append("/-- `%s` : cross product k is taken of rows (a, b) -/\ndef eig0_crossPairs : List (Nat × Nat) := [%s]\n"
               % ("; ".join("%s = crossProduct(%s, %s)" % c for c in crs),
                  ", ".join("(%d, %d)" % (rown.index(a), rown.index(b)) for _, a, b in crs)))
    nrm = re.findall(r"auto\s+(\w+)\s*=\s*(\w+)\s*\.\s*two_norm\s*\(\s*\)\s*;", e0)
    if len(nrm) != 3 or any(c not in crn for _, c in nrm):
        raise TranslateError("eig0: expected three norms of the cross products")
    dn = [d[0] for d in nrm]
    out.append("/-- `%s` : length k belongs to cross product .. -/\ndef eig0_normOf : List Nat := [%s]\n"
               % ("; ".join("%s = %s.two_norm()" % d for d in nrm), ", ".join(str(crn.index(c)) for _, c in nrm)))
    ini = one(r"auto\s+dmax\s*=\s*(\w+)\s*;\s*int\s+imax\s*=\s*([0-9])\s*;", e0, "eig0 initial maximum")
    if ini[0] not in dn:
        raise TranslateError("eig0: dmax starts from %r" % ini[0])
    out.append("/-- `auto dmax = %s; int imax = %s;` -/\ndef eig0_init : Nat × Nat := (%d, %s)\n" % (ini[0], ini[1], dn.index(ini[0]), ini[1]))
    after = e0[re.search(r"int\s+imax\s*=\s*[0-9]\s*;", e0).end():]
    m_res = re.search(r"if\s*\(\s*imax\s*==", after)
    if not m_res:
        raise TranslateError("eig0: result selection not found")
    upd, res = after[:m_res.start()], after[m_res.start():]
    steps, pos = [], 0
    for m in re.finditer(r"if\s*\(\s*(\w+)\s*>\s*dmax\s*\)\s*(\{[^{}]*\}|[^;{}]*;)", upd):
        if upd[pos:m.start()].strip():
            raise TranslateError("eig0: unexpected statements %r in the maximum search" % upd[pos:m.start()].strip()[:60])
        pos = m.end()
        d, blk = m.group(1), m.group(2).strip("{}")
        stm = [x.strip() for x in blk.split(";") if x.strip()]
        newd, newi = None, None
        for st in stm:
            ma = re.match(r"^dmax\s*=\s*(\w+)$", st)
            mb = re.match(r"^imax\s*=\s*([0-9])$", st)
            if ma and newd is None:
                newd = ma.group(1)
            elif mb and newi is None:
                newi = mb.group(1)
            else:
                raise TranslateError("eig0: statement %r outside the grammar" % st)
        if d not in dn or newi is None or (newd is not None and newd not in dn):
            raise TranslateError("eig0: maximum update %r outside the grammar" % m.group(0)[:60])
        steps.append((dn.index(d), -1 if newd is None else dn.index(newd), int(newi)))
    if upd[pos:].strip() or len(steps) != 2:
        raise TranslateError("eig0: the maximum search is not two conditional updates")
    out.append("/-- the updates `if (d_c > dmax) { dmax = d_u; imax = i; }` as (c, u, i); u = 3 means dmax is not updated -/\n"
               "def eig0_steps : List (Nat × Nat × Nat) := [%s]\n" % ", ".join("(%d, %d, %d)" % (c, 3 if u < 0 else u, i) for c, u, i in steps))
    rr = re.match(r"^if\s*\(\s*imax\s*==\s*0\s*\)\s*%s\s*=\s*(\w+)\s*/\s*(\w+)\s*;\s*else\s+if\s*\(\s*imax\s*==\s*1\s*\)\s*%s\s*=\s*(\w+)\s*/\s*(\w+)\s*;\s*"
                  r"else\s+%s\s*=\s*(\w+)\s*/\s*(\w+)\s*;\s*$" % (outv, outv, outv), res.strip())
    if not rr or any(rr.group(k) not in crn for k in (1, 3, 5)) or any(rr.group(k) not in dn for k in (2, 4, 6)):
        raise TranslateError("eig0: result selection outside the grammar")
    out.append("/-- `imax == 0 / 1 / else`: evec0 = cross product .. divided by length .. -/\n"
               "def eig0_result : List (Nat × Nat) := [%s]\n" % ", ".join("(%d, %d)" % (crn.index(rr.group(k)), dn.index(rr.group(k + 1))) for k in (1, 3, 5)))

    # ---- 3x3 eigenvector assembly: which eigenvalue goes to eig0 / eig1, where the vectors are stored ---------------
    v3 = body_after(src, r"static\s+void\s+eigenValuesVectorsImpl\s*\(\s*const\s+FieldMatrix\s*<\s*K\s*,\s*3\s*,\s*3\s*>[^)]*\)\s*\{",
                    "3x3 eigenValuesVectorsImpl")
    if not re.search(r"Matrix\s+evec\s*\(\s*0(?:\.0*)?\s*\)\s*;\s*Vector\s+eval\s*\(\s*eigenValues\s*\)\s*;", v3):
        raise TranslateError("3x3: `Matrix evec(0.0); Vector eval(eigenValues);` not found")
    blk = (r"\{\s*Impl::eig0\(\s*scaledMatrix\s*,\s*eval\[([0-2])\]\s*,\s*evec\[([0-2])\]\s*\)\s*;\s*"
           r"Impl::eig1\(\s*scaledMatrix\s*,\s*evec\[([0-2])\]\s*,\s*evec\[([0-2])\]\s*,\s*eval\[([0-2])\]\s*\)\s*;\s*"
           r"evec\[([0-2])\]\s*=\s*Impl::crossProduct\(\s*evec\[([0-2])\]\s*,\s*evec\[([0-2])\]\s*\)\s*;\s*\}")
    asm = one(r"if\s*\(\s*r\s*>=\s*0(?:\.0*)?\s*\)\s*" + blk + r"\s*else\s*" + blk, v3, "3x3 eigenvector assembly")
    names = "(eig0: eigenvalue, target; eig1: first vector, target, eigenvalue; cross product: target, left, right)"
    out.append("/-- branch `r >= 0` %s -/\ndef ev3_asmPos : Nat × Nat × Nat × Nat × Nat × Nat × Nat × Nat := (%s)\n" % (names, ", ".join(asm[:8])))
    out.append("/-- branch `r < 0` -/\ndef ev3_asmNeg : Nat × Nat × Nat × Nat × Nat × Nat × Nat × Nat := (%s)\n" % ", ".join(asm[8:]))

    # ---- 3x3 diagonal special case: initial values / vectors and the compare-and-swap network ----------------------
    dg = body_after(v3, r"if\s*\(\s*offDiagNorm\s*<=[^)]*\)\s*\)\s*\{", "3x3 diagonal special case")
    iv = one(r"^\s*eigenValues\s*=\s*\{([^}]*)\}\s*;", dg, "3x3 diagonal values")
    ivm = [re.match(r"^scaledMatrix\[([0-2])\]\[([0-2])\]$", norm_ws(x)) for x in iv.split(",")]
    if len(ivm) != 3 or not all(ivm):
        raise TranslateError("3x3 diagonal special case: initial values outside the grammar")
    out.append("/-- `eigenValues = {%s};` -/\ndef ev3_diagInit : List (Nat × Nat) := [%s]\n"
               % (iv.strip(), ", ".join("(%s, %s)" % (m.group(1), m.group(2)) for m in ivm)))
    vv = one(r"eigenVectors\s*=\s*\{\s*(\{[^;]*\})\s*\}\s*;", dg, "3x3 diagonal vectors")
    vrows = re.findall(r"\{([^{}]*)\}", vv)
    ent = [[norm_ws(x) for x in r.split(",")] for r in vrows]
    if len(ent) != 3 or any(len(r) != 3 for r in ent) or any(not re.match(r"^[01](?:\.0*)?$", x) for r in ent for x in r):
        raise TranslateError("3x3 diagonal special case: initial vectors outside the grammar")
    out.append("/-- `eigenVectors = {%s};` -/\ndef ev3_diagVecs : List (List Nat) := [%s]\n"
               % (norm_ws(vv), ", ".join("[%s]" % ", ".join(x[0] for x in r) for r in ent)))
    rest = dg[re.search(r"eigenVectors\s*=\s*\{\s*\{[^;]*\}\s*\}\s*;", dg).end():]
    sw_rx = (r"if\s*\(\s*eigenValues\[([0-2])\]\s*>\s*eigenValues\[([0-2])\]\s*\)\s*\{\s*"
             r"std::swap\(\s*eigenValues\[([0-2])\]\s*,\s*eigenValues\[([0-2])\]\s*\)\s*;\s*"
             r"std::swap\(\s*eigenVectors\[([0-2])\]\s*,\s*eigenVectors\[([0-2])\]\s*\)\s*;\s*\}")
    sws = re.findall(sw_rx, rest)
    if re.sub(sw_rx, "", rest).strip() or not sws:
        raise TranslateError("3x3 diagonal special case: sort network outside the grammar")
    out.append("/-- `if (eigenValues[a] > eigenValues[b]) { swap(eigenValues[c], eigenValues[d]); swap(eigenVectors[e], eigenVectors[f]); }` -/\n"
               "def ev3_diagSwaps : List (Nat × Nat × Nat × Nat × Nat × Nat) := [%s]\n" % ", ".join("(%s)" % ", ".join(s) for s in sws))

    # ---- LAPACK call sites -------------------------------------------------------------------------------------------
    jobs = one(r"enum\s+Jobs\s*\{([^}]*)\}", src, "enum Jobs")
    jv = dict((k.strip(), int(v)) for k, v in (x.split("=") for x in jobs.split(",")))
    if sorted(jv) != ["EigenvaluesEigenvectors", "OnlyEigenvalues"]:
        raise TranslateError("enum Jobs changed")
    lb = body_after(src, r"static\s+void\s+eigenValuesVectorsLapackImpl\s*\([^)]*\)\s*\{", "eigenValuesVectorsLapackImpl")
    if not re.search(r"const\s+long\s+int\s+N\s*=\s*dim\s*;", lb):
        raise TranslateError("LAPACK (symmetric): N = dim not found")
    a = call_args(lb, "eigenValuesLapackCall", "LAPACK (symmetric)")
    if len(a) != 9 or a[2] != "&N" or a[4] != "&N" or a[8] != "&info":
        raise TranslateError("LAPACK (symmetric): call arguments changed: %r" % (a,))
    jz = char_decl(lb, ptr_name(a[0], "jobz"), "LAPACK (symmetric)")
    ul = char_decl(lb, ptr_name(a[1], "uplo"), "LAPACK (symmetric)")
    if jz[0] != "tab" or ul[0] != "lit":
        raise TranslateError("LAPACK (symmetric): jobz/uplo outside the grammar")
    env = {"N": "n", "dim": "n"}
    lw = nat_expr(int_decl(lb, ptr_name(a[7], "lwork"), "LAPACK (symmetric)"), env)
    env2 = dict(env)
    env2[ptr_name(a[7], "lwork")] = lw
    ws = one(r"LapackNumType\s+%s\s*\[([^\]]+)\]\s*;" % ptr_name(a[6], "work"), lb, "LAPACK (symmetric): work array")
    buf, transposed = pack_orientation(lb, "dim", "LAPACK (symmetric)")
    if buf != ptr_name(a[3], "a"):
        raise TranslateError("LAPACK (symmetric): the packed array is not the one handed over")
    ms = one(r"LapackNumType\s+%s\s*\[([^\]]+)\]\s*;" % buf, lb, "LAPACK (symmetric): matrix array")
    cb = one(r"if\s*\(\s*Tag\s*==\s*(?:Jobs::)?EigenvaluesEigenvectors\s*\)\s*\{\s*row\s*=\s*0\s*;\s*for\s*\(\s*int\s+i\s*=\s*0\s*;\s*i\s*<\s*dim\s*;\s*\+\+i\s*\)\s*\{\s*"
             r"for\s*\(\s*int\s+j\s*=\s*0\s*;\s*j\s*<\s*dim\s*;\s*\+\+j\s*,\s*\+\+row\s*\)\s*\{\s*eigenVectors\s*\[\s*([ij])\s*\]\s*\[\s*([ij])\s*\]\s*=\s*%s\s*\[\s*row\s*\]\s*;" % buf,
             lb, "LAPACK (symmetric): copy-back loop")
    if cb[0] == cb[1]:
        raise TranslateError("LAPACK (symmetric): copy-back writes eigenVectors[%s][%s]" % cb)
    out.append("/-- `enum Jobs`; `const char jobz = \"%s\"[Tag];`: the job character for eigenvalues only / with eigenvectors -/\n"
               "def lapSym_jobz : Char × Char := ('%s', '%s')\n" % (jz[1], jz[1][jv["OnlyEigenvalues"]], jz[1][jv["EigenvaluesEigenvectors"]]))
    out.append("/-- `const char uplo = '%s';` -/\ndef lapSym_uplo : Char := '%s'\n" % (ul[1], ul[1]))
    out.append("/-- `lwork` of ?syev for order n -/\ndef lapSym_lwork (n : Nat) : Nat := %s\n" % lw)
    out.append("/-- number of entries of the work array handed to ?syev -/\ndef lapSym_workSize (n : Nat) : Nat := %s\n" % nat_expr(ws, env2))
    out.append("/-- number of entries of the flat matrix array -/\ndef lapSym_matSize (n : Nat) : Nat := %s\n" % nat_expr(ms, env2))
    out.append("/-- copy loop reads `matrix[j][i]` (true) or `matrix[i][j]` (false) -/\ndef lapSym_packTransposed : Bool := %s\n" % ("true" if transposed else "false"))
    out.append("/-- copy-back writes `eigenVectors[j][i]` (true) or `eigenVectors[i][j]` (false) -/\ndef lapSym_copyBackTransposed : Bool := %s\n" % ("true" if cb[0] == "j" else "false"))

    nb = body_after(src, r"static\s+void\s+eigenValuesNonSym\s*\([^)]*\)\s*\{", "FMatrixHelp::eigenValuesNonSym")
    a = call_args(nb, "eigenValuesNonsymLapackCall", "LAPACK (non-symmetric, fixed size)")
    if len(a) != 14 or a[2] != "&N" or a[4] != "&N" or a[7] != "nullptr" or a[9] != "nullptr" or a[13] != "&info":
        raise TranslateError("LAPACK (non-symmetric, fixed size): call arguments changed: %r" % (a,))
    jl = char_decl(nb, ptr_name(a[0], "jobvl"), "LAPACK (non-symmetric, fixed size)")
    jr = char_decl(nb, ptr_name(a[1], "jobvr"), "LAPACK (non-symmetric, fixed size)")
    if jl[0] != "lit" or jr[0] != "lit":
        raise TranslateError("LAPACK (non-symmetric, fixed size): job characters outside the grammar")
    lw = nat_expr(int_decl(nb, ptr_name(a[12], "lwork"), "LAPACK (non-symmetric, fixed size)"), env)
    env2 = dict(env)
    env2[ptr_name(a[12], "lwork")] = lw
    ws = one(r"LapackNumType\s+%s\s*\[([^\]]+)\]\s*;" % ptr_name(a[11], "work"), nb, "LAPACK (non-symmetric, fixed size): work array")
    wrs = one(r"LapackNumType\s+%s\s*\[([^\]]+)\]\s*;" % ptr_name(a[5], "wr"), nb, "LAPACK (non-symmetric, fixed size): wr array")
    wis = one(r"LapackNumType\s+%s\s*\[([^\]]+)\]\s*;" % ptr_name(a[6], "wi"), nb, "LAPACK (non-symmetric, fixed size): wi array")
    buf, transposed = pack_orientation(nb, "dim", "LAPACK (non-symmetric, fixed size)")
    if buf != ptr_name(a[3], "a"):
        raise TranslateError("LAPACK (non-symmetric, fixed size): the packed array is not the one handed over")
    out.append("/-- `jobvl`, `jobvr` of FMatrixHelp::eigenValuesNonSym -/\ndef lapNsF_jobs : Char × Char := ('%s', '%s')\n" % (jl[1], jr[1]))
    out.append("def lapNsF_lwork (n : Nat) : Nat := %s\n" % lw)
    out.append("def lapNsF_workSize (n : Nat) : Nat := %s\n" % nat_expr(ws, env2))
    out.append("/-- entries of the arrays for the real / imaginary parts -/\ndef lapNsF_wSize (n : Nat) : Nat × Nat := (%s, %s)\n" % (nat_expr(wrs, env2), nat_expr(wis, env2)))
    out.append("def lapNsF_packTransposed : Bool := %s\n" % ("true" if transposed else "false"))

    dsrc = strip_comments(open(os.path.join(repo, "dune/common/dynmatrixev.hh")).read())
    db = body_after(dsrc, r"static\s+void\s+eigenValuesNonSym\s*\([^)]*\)\s*\{", "DynamicMatrixHelp::eigenValuesNonSym")
    if not re.search(r"const\s+long\s+int\s+N\s*=\s*matrix\s*\.\s*rows\(\)\s*;", db):
        raise TranslateError("LAPACK (dynamic): N = matrix.rows() not found")
    a = call_args(db, "eigenValuesNonsymLapackCall", "LAPACK (dynamic)")
    if len(a) != 14 or a[2] != "&N" or a[4] != "&N" or a[7] != "nullptr" or a[10] != "&N" or a[13] != "&info":
        raise TranslateError("LAPACK (dynamic): call arguments changed: %r" % (a,))
    bools = ("eigenVectors",)
    jl = char_decl(db, ptr_name(a[0], "jobvl"), "LAPACK (dynamic)", bools)
    jr = char_decl(db, ptr_name(a[1], "jobvr"), "LAPACK (dynamic)", bools)

    def jc(j):
        return "('%s', '%s')" % ((j[1], j[1]) if j[0] == "lit" else (j[1], j[2]))
    if jl[0] == "tab" or jr[0] == "tab":
        raise TranslateError("LAPACK (dynamic): job characters outside the grammar")
    envd = {"N": "n", "__bools__": bools}
    lw = nat_expr(int_decl(db, ptr_name(a[12], "lwork"), "LAPACK (dynamic)"), envd)
    envd2 = dict(envd)
    envd2[ptr_name(a[12], "lwork")] = lw

    def heap(name, what):
        """`auto name = std::make_unique<double[]>(EXPR);` (a fresh buffer for every call) or
        `auto name = eigenVectors ? std::make_unique<double[]>(EXPR) : std::unique_ptr<double[]>{};`"""
        e = one(r"auto\s+%s\s*=\s*([^;]+);" % name, db, "LAPACK (dynamic): buffer " + what).strip()
        m = re.match(r"^std::make_unique\s*<\s*double\s*\[\]\s*>\s*\((.+)\)$", e)
        if m:
            return nat_expr(m.group(1), envd2)
        m = re.match(r"^(\w+)\s*\?\s*std::make_unique\s*<\s*double\s*\[\]\s*>\s*\((.+)\)\s*:\s*std::unique_ptr\s*<\s*double\s*\[\]\s*>\s*\{\s*\}$", e)
        if m and m.group(1) in bools:
            return "(if vec then %s else 0)" % nat_expr(m.group(2), envd2)
        raise TranslateError("LAPACK (dynamic): buffer %s = %r outside the grammar" % (name, e))
    buf, transposed = pack_orientation(db, "N", "LAPACK (dynamic)")
    if buf != ptr_name(a[3], "a"):
        raise TranslateError("LAPACK (dynamic): the packed array is not the one handed over")
    out.append("/-- `jobvl`, `jobvr` of DynamicMatrixHelp::eigenValuesNonSym as (with eigenvectors, without) -/\n"
               "def lapNsD_jobvl : Char × Char := %s\ndef lapNsD_jobvr : Char × Char := %s\n" % (jc(jl), jc(jr)))
    out.append("def lapNsD_lwork (n : Nat) (vec : Bool) : Nat := %s\n" % lw)
    out.append("def lapNsD_workSize (n : Nat) (vec : Bool) : Nat := %s\n" % heap(ptr_name(a[11], "work"), "work"))
    out.append("def lapNsD_matSize (n : Nat) (vec : Bool) : Nat := %s\n" % heap(buf, "matrix"))
    out.append("def lapNsD_wSize (n : Nat) (vec : Bool) : Nat × Nat := (%s, %s)\n" % (heap(ptr_name(a[5], "wr"), "wr"), heap(ptr_name(a[6], "wi"), "wi")))
    out.append("def lapNsD_vrSize (n : Nat) (vec : Bool) : Nat := %s\n" % heap(ptr_name(a[9], "vr"), "vr"))
    out.append("def lapNsD_packTransposed : Bool := %s\n" % ("true" if transposed else "false"))
    # copy-back of vector i: `std::copy(vr + N*i, vr + N*(i+1), &v[0])`
    vrn = ptr_name(a[9], "vr")
    cp = one(r"std::copy\s*\(([^;]*)\)\s*;", db, "LAPACK (dynamic): copy-back")
    cpa = [norm_ws(x) for x in cp.split(",")]
    if cpa != ["%s.get()+N*i" % vrn, "%s.get()+N*(i+1)" % vrn, "&v[0]"]:
        raise TranslateError("LAPACK (dynamic): copy-back %r outside the grammar" % (cpa,))
    out.append("/-- vector i is copied from `vr[N*i .. N*(i+1))` -/\ndef lapNsD_copyBackStride : Bool := true\n")
    # ---- orthoComp: the branch condition, the 2-vector whose length normalises u, and u in both branches ------------
    oc = body_after(src, r"void\s+orthoComp\s*\([^)]*\)\s*\{", "orthoComp")
    ohdr = one(r"void\s+orthoComp\s*\(\s*const\s+FieldVector\s*<\s*K\s*,\s*3\s*>\s*&\s*(\w+)\s*,\s*FieldVector\s*<\s*K\s*,\s*3\s*>\s*&\s*(\w+)\s*,\s*FieldVector\s*<\s*K\s*,\s*3\s*>\s*&\s*(\w+)\s*\)",
               src, "orthoComp signature")
    en, un, vn = ohdr
    br = (r"\{\s*FieldVector\s*<\s*K\s*,\s*2\s*>\s+(\w+)\s*=\s*\{([^}]*)\}\s*;\s*auto\s+(\w+)\s*=\s*1(?:\.0*)?\s*/\s*(\w+)\s*\.\s*two_norm\(\)\s*;\s*"
          r"%s\s*=\s*(\w+)\s*\*\s*FieldVector\s*<\s*K\s*,\s*3\s*>\s*\(\s*\{([^}]*)\}\s*\)\s*;\s*\}" % un)
    om = one(r"if\s*\(\s*abs\s*\(\s*%s\[([0-2])\]\s*\)\s*>\s*abs\s*\(\s*%s\[([0-2])\]\s*\)\s*\)\s*%s\s*else\s*%s\s*%s\s*=\s*crossProduct\s*\(\s*(\w+)\s*,\s*(\w+)\s*\)\s*;"
             % (en, en, br, br, vn), oc, "orthoComp body")
    ci, cj = om[0], om[1]
    bra, brb, tail = om[2:8], om[8:14], om[14:16]
    if list(tail) != [en, un]:
        raise TranslateError("orthoComp: v is not crossProduct(%s, %s)" % (en, un))
    out.append("section\nvariable {K : Type} [Add K] [Sub K] [Mul K] [Div K] [Neg K] [NatCast K]\n")
    out.append("/-- `if(abs(evec0[%s]) > abs(evec0[%s]))`: the components compared -/\ndef orthoComp_cond : Nat × Nat := (%s, %s)\n" % (ci, cj, ci, cj))
    E3 = ["e0", "e1", "e2"]
    for tag, b in (("A", bra), ("B", brb)):
        tname, ttxt, lname, tn2, lname2, utxt = b
        if tname != tn2 or lname != lname2:
            raise TranslateError("orthoComp: branch %s does not normalise by the length of its own 2-vector" % tag)
        tc = tr_list(re.sub(r"\b%s\s*\[" % en, "e[", ttxt).replace("e[0]", "e0").replace("e[1]", "e1").replace("e[2]", "e2"), E3)
        uc = tr_list(re.sub(r"\b%s\s*\[" % en, "e[", utxt).replace("e[0]", "e0").replace("e[1]", "e1").replace("e[2]", "e2"), E3)
        if len(tc) != 2 or len(uc) != 3:
            raise TranslateError("orthoComp: branch %s has the wrong number of components" % tag)
        out.append("/-- `temp = {%s};` (u is divided by its length) -/\ndef orthoComp_temp%s (e0 e1 e2 : K) : K × K :=\n  (%s, %s)\n" % (ttxt.strip(), tag, tc[0], tc[1]))
        out.append("/-- `u = L * {%s};` -/\ndef orthoComp_u%s (e0 e1 e2 : K) : K × K × K :=\n  (%s, %s, %s)\n" % (utxt.strip(), tag, uc[0], uc[1], uc[2]))

    # ---- eig1: the reduced 2x2 matrix and the four normalisation sequences with their result coefficients ----------
    e1 = body_after(src, r"void\s+eig1\s*\([^)]*\)\s*\{", "eig1")
    if not re.search(r"Vector\s+u\s*,\s*v\s*;\s*orthoComp\s*\(\s*evec0\s*,\s*u\s*,\s*v\s*\)\s*;\s*Vector\s+Au\s*,\s*Av\s*;\s*matrix\.mv\(\s*u\s*,\s*Au\s*\)\s*;\s*matrix\.mv\(\s*v\s*,\s*Av\s*\)\s*;", e1):
        raise TranslateError("eig1: u, v, Au, Av not set up as expected")
    mdefs = re.findall(r"auto\s+(m00|m01|m11)\s*=\s*([^;]+);", e1)
    if [m[0] for m in mdefs] != ["m00", "m01", "m11"]:
        raise TranslateError("eig1: reduced matrix entries changed")
    dots = {"u.dot(Au)": "uAu", "u.dot(Av)": "uAv", "v.dot(Av)": "vAv", "v.dot(Au)": "vAu"}
    for nm, ex in mdefs:
        e = norm_ws(ex)
        for k, v in dots.items():
            e = e.replace(k, v)
        out.append("/-- `auto %s = %s;` -/\ndef eig1_%s (uAu uAv vAv eval1 : K) : K :=\n  %s\n" % (nm, ex.strip(), nm, tr(e, ["uAu", "uAv", "vAv", "eval1"])))
    if not re.search(r"auto\s+absM00\s*=\s*abs\(m00\)\s*;\s*auto\s+absM01\s*=\s*abs\(m01\)\s*;\s*auto\s+absM11\s*=\s*abs\(m11\)\s*;", e1):
        raise TranslateError("eig1: absolute values changed")
    seq = r"\{\s*((?:m(?:00|01|11)\s*[*/]?=\s*[^;]+;\s*){3})\}"
    half = (r"\{\s*auto\s+maxAbsComp\s*=\s*max\s*\(\s*absM(00|11)\s*,\s*absM01\s*\)\s*;\s*if\s*\(\s*maxAbsComp\s*>\s*0(?:\.0*)?\s*\)\s*\{\s*"
            r"if\s*\(\s*absM(00|11)\s*>=\s*absM01\s*\)\s*" + seq + r"\s*else\s*" + seq + r"\s*evec1\s*=\s*(m\d\d)\s*\*\s*u\s*-\s*(m\d\d)\s*\*\s*v\s*;\s*\}\s*else\s+evec1\s*=\s*u\s*;\s*\}")
    em = one(r"if\s*\(\s*absM00\s*>=\s*absM11\s*\)\s*" + half + r"\s*else\s*" + half, e1, "eig1 branch structure")
    h1, h2 = em[:6], em[6:]
    if (h1[0], h1[1]) != ("00", "00") or (h2[0], h2[1]) != ("11", "11"):
        raise TranslateError("eig1: the branches do not compare their own diagonal entry")

    def chain(stmts, res):
        lets = []
        for st in [x.strip() for x in stmts.split(";") if x.strip()]:
            m = re.match(r"^(m00|m01|m11)\s*([*/]?)=\s*(.+)$", st)
            if not m:
                raise TranslateError("eig1: statement %r outside the grammar" % st)
            rhs = tr(m.group(3), ["m00", "m01", "m11", "sqrt"])
            if m.group(2):
                rhs = "(%s %s %s)" % (m.group(1), m.group(2), rhs)
            lets.append("let %s : K := %s" % (m.group(1), rhs))
        return "\n  ".join(lets) + "\n  (%s, %s)" % res
    for tag, h in (("0", h1), ("1", h2)):
        for sub_, stm in (("a", h[2]), ("b", h[3])):
            out.append("/-- eig1, outer branch %s, inner branch %s: `%s evec1 = %s*u - %s*v` as (coefficient of u, coefficient of v) -/\n"
                       "def eig1_leaf%s%s (sqrt : K → K) (m00 m01 m11 : K) : K × K :=\n  %s\n"
                       % (tag, sub_, " ".join(stm.split()), h[4], h[5], tag, sub_, chain(stm, (h[4], h[5]))))
    out.append("end\n")

    # ---- the four public symmetric entry points: which job they run ------------------------------------------------
    ej = []
    for fn, impl in (("eigenValues", "eigenValuesVectorsImpl"), ("eigenValuesVectors", "eigenValuesVectorsImpl"),
                     ("eigenValuesLapack", "eigenValuesVectorsLapackImpl"), ("eigenValuesVectorsLapack", "eigenValuesVectorsLapackImpl")):
        fb = body_after(src, r"static\s+void\s+%s\s*\(\s*const\s+FieldMatrix\s*<\s*K\s*,\s*dim\s*,\s*dim\s*>[^)]*\)\s*\{" % fn, "FMatrixHelp::" + fn)
        job = one(r"Impl::%s\s*<\s*Impl::Jobs::(\w+)\s*>\s*\(\s*matrix\s*,\s*eigenValues\s*,\s*(\w+)\s*\)\s*;" % impl, fb, "FMatrixHelp::" + fn + ": call of Impl::" + impl)
        if job[0] not in jv:
            raise TranslateError("FMatrixHelp::%s: unknown job %r" % (fn, job[0]))
        if (job[1] == "eigenVectors") != (fn in ("eigenValuesVectors", "eigenValuesVectorsLapack")):
            raise TranslateError("FMatrixHelp::%s: eigenvector argument is %r" % (fn, job[1]))
        ej.append("true" if job[0] == "EigenvaluesEigenvectors" else "false")
    out.append("/-- does the entry point run the eigenvector job: eigenValues, eigenValuesVectors, eigenValuesLapack (into a dummy), eigenValuesVectorsLapack -/\n"
               "def entryJobs : Bool × Bool × Bool × Bool := (%s)\n" % ", ".join(ej))
    out.append("end DV.C08.Gen")
    return ("DuneVerif/Gen/C08T.lean", "\n".join(out) + "\n")


M2 = ["m00", "m01", "m10", "m11"]
M3 = ["m00", "m01", "m02", "m10", "m11", "m12", "m20", "m21", "m22"]


def translate(repo):
    raw = open(os.path.join(repo, "dune/common/fmatrixev.hh")).read()
    src = strip_comments(raw)
    out = ["-- GENERATED by tools/translators/tr_c08.py from dune/common/fmatrixev.hh -- do not edit",
           "set_option linter.unusedVariables false",
           "namespace DV.C08.Gen",
           "section",
           "variable {K : Type} [Add K] [Sub K] [Mul K] [Div K] [Neg K] [NatCast K]",
           ""]

    def emit(name, params, ty, body, comment):
        out.append("/-- `%s` -/" % comment.replace("`", "'"))
        out.append("def %s %s: %s :=\n  %s" % (name, ("(%s : K) " % " ".join(params)) if params else "", ty, body))
        out.append("")

    # ---- eigenValues2dImpl -----------------------------------------------------------------------
    b2 = body_after(src, r"static\s+void\s+eigenValues2dImpl\s*\([^)]*\)\s*\{", "eigenValues2dImpl")
    e_p = one(r"const\s+K\s+p\s*=\s*([^;]+);", b2, "2x2 p")
    e_p2 = one(r"const\s+K\s+p2\s*=\s*([^;]+);", b2, "2x2 p2")
    e_q = one(r"\bK\s+q\s*=\s*([^;]+);", b2, "2x2 q")
    emit("ev2_p", M2, "K", tr(e_p, M2), "const K p = %s;" % e_p.strip())
    emit("ev2_p2", M2 + ["p"], "K", tr(e_p2, M2 + ["p"]), "const K p2 = %s;" % e_p2.strip())
    emit("ev2_q", M2 + ["p", "p2"], "K", tr(e_q, M2 + ["p", "p2"]), "K q = %s;" % e_q.strip())
    clamp = one(r"if\s*\(\s*q\s*<\s*0\s*&&\s*q\s*>\s*([^)]+?)\s*\)\s*q\s*=\s*0\s*;", b2, "2x2 clamp of slightly negative q")
    emit("ev2_qClamp", [], "K", tr(clamp, []), "if( q < 0 && q > %s ) q = 0;" % clamp.strip())
    if not re.search(r"if\s*\(\s*q\s*<\s*0\s*\)\s*\{[^}]*DUNE_THROW\s*\(\s*MathError", b2, re.S):
        raise TranslateError("2x2: `if (q < 0) ... DUNE_THROW(MathError` not found")
    if not re.search(r"\bq\s*=\s*sqrt\s*\(\s*q\s*\)\s*;", b2):
        raise TranslateError("2x2: `q = sqrt(q);` not found")
    e_l0 = one(r"eigenvalues\s*\[\s*0\s*\]\s*=\s*([^;]+);", b2, "2x2 eigenvalues[0]")
    e_l1 = one(r"eigenvalues\s*\[\s*1\s*\]\s*=\s*([^;]+);", b2, "2x2 eigenvalues[1]")
    emit("ev2_lam0", ["p", "q"], "K", tr(e_l0, ["p", "q"]), "eigenvalues[0] = %s;   (q after q = sqrt(q))" % e_l0.strip())
    emit("ev2_lam1", ["p", "q"], "K", tr(e_l1, ["p", "q"]), "eigenvalues[1] = %s;" % e_l1.strip())

    # ---- 2x2 eigenvectors ------------------------------------------------------------------------
    v2 = body_after(src, r"static\s+void\s+eigenValuesVectorsImpl\s*\(\s*const\s+FieldMatrix\s*<\s*K\s*,\s*2\s*,\s*2\s*>[^)]*\)\s*\{",
                    "2x2 eigenValuesVectorsImpl")
    s0 = one(r"temp\s*\[0\]\s*\[0\]\s*-=\s*eigenValues\s*\[\s*([01])\s*\]\s*;", v2, "2x2 temp[0][0] shift")
    s1 = one(r"temp\s*\[1\]\s*\[1\]\s*-=\s*eigenValues\s*\[\s*([01])\s*\]\s*;", v2, "2x2 temp[1][1] shift")
    if s0 != s1:
        raise TranslateError("2x2: the two diagonal shifts use different eigenvalues")
    # max-norm preconditioning of the 2x2 path (as in the 3x3 path): either complete or absent
    pre = bool(re.search(r"K\s+maxAbsElement\s*=\s*\(\s*isnormal\s*\(\s*matrix\.infinity_norm\(\)\s*\)\s*\)\s*\?\s*matrix\.infinity_norm\(\)\s*:\s*K\(1\.0\)\s*;\s*"
                         r"(?:const\s+)?FieldMatrix\s*<\s*K\s*,\s*2\s*,\s*2\s*>\s+scaledMatrix\s*=\s*matrix\s*/\s*maxAbsElement\s*;", v2))
    mname = "scaledMatrix" if pre else "matrix"
    other = "matrix" if pre else "scaledMatrix"
    if not re.search(r"Impl::eigenValues2dImpl\(\s*%s\s*,\s*eigenValues\s*\)\s*;" % mname, v2):
        raise TranslateError("2x2: eigenValues2dImpl is not called on %s" % mname)
    if pre != bool(re.search(r"eigenValues\s*\*=\s*maxAbsElement\s*;\s*$", v2.strip())):
        raise TranslateError("2x2: preconditioning and its reversal do not match")
    vecpart = v2[v2.index("if constexpr"):]
    if re.search(r"\b%s\b" % other, vecpart):
        raise TranslateError("2x2: eigenvector code refers to %s although the eigenvalues belong to %s" % (other, mname))
    out.append("/-- is the 2x2 path preconditioned by `scaledMatrix = matrix / maxAbsElement` (and `eigenValues *= maxAbsElement`) -/\n"
               "def ev2_preconditioned : Bool := %s\n" % ("true" if pre else "false"))
    if not re.search(r"FieldMatrix\s*<\s*K\s*,\s*2\s*,\s*2\s*>\s*temp\s*=\s*%s\s*;" % mname, v2):
        raise TranslateError("2x2: `temp = %s` not found" % mname)
    out.append("/-- `temp[i][i] -= eigenValues[%s];` -/\ndef ev2_shiftIndex : Nat := %s\n" % (s0, s0))
    thr = one(r"if\s*\(\s*temp\s*\.\s*infinity_norm\(\)\s*<=\s*(.+?)\)\s*\{", v2, "2x2 identity threshold")
    emit("ev2_identThreshold", ["eps", "normA"], "K", tr(thr, ["eps", "normA"]),
         "if(temp.infinity_norm() <= %s)" % thr.strip())
    # the identity branch must assign all four entries of the caller's matrix (which may hold anything on entry): either
    # row by row or as a whole; literals 1 / 1.0 / 0 / 0.0
    one_, zero_ = r"1(?:\.0*)?", r"0(?:\.0*)?"
    rowwise = (r"eigenVectors\s*\[0\]\s*=\s*\{\s*%s\s*,\s*%s\s*\}\s*;\s*eigenVectors\s*\[1\]\s*=\s*\{\s*%s\s*,\s*%s\s*\}\s*;"
               % (one_, zero_, zero_, one_))
    whole = (r"eigenVectors\s*=\s*\{\s*\{\s*%s\s*,\s*%s\s*\}\s*,\s*\{\s*%s\s*,\s*%s\s*\}\s*\}\s*;" % (one_, zero_, zero_, one_))
    if not re.search(rowwise, v2) and not re.search(whole, v2):
        raise TranslateError("2x2: identity branch does not assign the unit vectors")
    cols0 = re.findall(r"(?:FieldVector\s*<\s*K\s*,\s*2\s*>\s+)?\bev0\s*=\s*\{([^}]*)\}\s*;", v2)
    cols1 = re.findall(r"(?:FieldVector\s*<\s*K\s*,\s*2\s*>\s+)?\bev1\s*=\s*\{([^}]*)\}\s*;", v2)
    if len(cols0) != 2 or len(cols1) != 2:
        raise TranslateError("2x2: expected two definitions each of ev0 and ev1")
    al = M2 + ["l0", "l1"]
    for vi in (0, 1):
        for ci, txt in ((0, cols0[vi]), (1, cols1[vi])):
            comps = tr_list(txt, al)
            if len(comps) != 2:
                raise TranslateError("2x2: candidate column is not a pair")
            emit("ev2_v%d_col%d" % (vi, ci), al, "K × K", "(%s, %s)" % tuple(comps),
                 "ev%d = {%s};   (candidate for eigenVectors[%d])" % (ci, txt.strip(), vi))
    sel = re.findall(r"eigenVectors\s*\[\s*([01])\s*\]\s*=\s*\(([^;]*);", v2)
    want = norm_ws("ev0.two_norm2() >= ev1.two_norm2()) ? ev0/ev0.two_norm() : ev1/ev1.two_norm()")
    if [s[0] for s in sel] != ["0", "1"] or any(norm_ws(s[1]) != want for s in sel):
        raise TranslateError("2x2: column selection statement changed: %r" % (sel,))
    # the order of the four column definitions and two selections must be ev0,ev1,sel0,ev0,ev1,sel1
    order = [m.group(1) or m.group(2) for m in re.finditer(r"\b(ev[01])\s*=\s*\{|(eigenVectors)\s*\[\s*[01]\s*\]\s*=\s*\(", v2)]
    if order != ["ev0", "ev1", "eigenVectors", "ev0", "ev1", "eigenVectors"]:
        raise TranslateError("2x2: statement order changed: %r" % order)

    # ---- crossProduct ------------------------------------------------------------------------------
    cp = body_after(src, r"crossProduct\s*\(\s*const\s+FieldVector\s*<\s*K\s*,\s*3\s*>\s*&\s*vec0\s*,\s*const\s+FieldVector\s*<\s*K\s*,\s*3\s*>\s*&\s*vec1\s*\)\s*\{",
                    "crossProduct")
    ret = one(r"return\s*\{(.*)\}\s*;", cp, "crossProduct return")
    ab = ["a0", "a1", "a2", "b0", "b1", "b2"]
    comps = tr_list(ret, ab)
    if len(comps) != 3:
        raise TranslateError("crossProduct does not return three components")
    emit("cross", ab, "K × K × K", "(%s,\n   %s,\n   %s)" % tuple(comps), "return {%s};" % ret.strip())

    # ---- eigenValues3dImpl -------------------------------------------------------------------------
    b3 = body_after(src, r"static\s+K\s+eigenValues3dImpl\s*\([^)]*\)\s*\{", "eigenValues3dImpl")
    e_p1 = one(r"\bK\s+p1\s*=\s*([^;]+);", b3, "3x3 p1")
    emit("ev3_p1", M3, "K", tr(e_p1, M3), "K p1 = %s;" % e_p1.strip())
    t_p1 = one(r"if\s*\(\s*p1\s*<=\s*(.+?)\)\s*\{", b3, "3x3 diagonal threshold")
    emit("ev3_diagThreshold", ["eps"], "K", tr(t_p1, ["eps"]), "if (p1 <= %s)" % t_p1.strip())
    if not re.search(r"eigenvalues\[0\]\s*=\s*matrix\[0\]\[0\];\s*eigenvalues\[1\]\s*=\s*matrix\[1\]\[1\];\s*eigenvalues\[2\]\s*=\s*matrix\[2\]\[2\];\s*"
                     r"std::sort\(eigenvalues\.begin\(\),\s*eigenvalues\.end\(\)\);\s*return\s+0\.0;", b3):
        raise TranslateError("3x3: diagonal branch changed")
    qloop = one(r"K\s+q\s*=\s*0\s*;\s*for\s*\(\s*int\s+i\s*=\s*0\s*;\s*i\s*<\s*3\s*;\s*i\+\+\s*\)\s*q\s*\+=\s*matrix\[i\]\[i\]\s*/\s*([0-9.]+)\s*;", b3,
                "3x3 q loop")
    d = lit(qloop)
    emit("ev3_q", ["m00", "m11", "m22"], "K", "((((Nat.cast 0 : K) + (m00 / %s)) + (m11 / %s)) + (m22 / %s))" % (d, d, d),
         "K q = 0; for (int i=0; i<3; i++) q += matrix[i][i] / %s;" % qloop)
    e_p2 = one(r"\bK\s+p2\s*=\s*([^;]+);", b3, "3x3 p2")
    emit("ev3_p2", M3 + ["q", "p1"], "K", tr(e_p2, M3 + ["q", "p1"]), "K p2 = %s;" % e_p2.strip())
    e_p = one(r"\bK\s+p\s*=\s*([^;]+);", b3, "3x3 p")
    out.append("/-- `K p = %s;` -/\ndef ev3_p (sqrt : K → K) (p2 : K) : K :=\n  %s\n" % (e_p.strip(), tr(e_p, ["p2", "sqrt"])))
    e_B = one(r"B\[i\]\[j\]\s*=\s*\(([^;]*?)\)\s*\*\s*\(\s*matrix\[i\]\[j\]\s*-\s*q\s*\*\s*\(\s*i\s*==\s*j\s*\)\s*\)\s*;", b3, "3x3 B")
    emit("ev3_Bscale", ["p"], "K", tr(e_B, ["p"]), "B[i][j] = (%s) * (matrix[i][j] - q*(i==j));" % e_B.strip())
    e_r = one(r"\bK\s+r\s*=\s*B\s*\.\s*determinant\(\)\s*([^;]*);", b3, "3x3 r")
    emit("ev3_r", ["detB"], "K", tr("detB " + e_r, ["detB"]), "K r = B.determinant() %s;" % e_r.strip())
    cl = one(r"r\s*=\s*clamp\s*<\s*K\s*>\s*\(\s*r\s*,([^;]*)\)\s*;", b3, "3x3 clamp")
    lo, hi = tr_list(cl, [])
    emit("ev3_clampLo", [], "K", lo, "r = clamp<K>(r, %s);" % cl.strip())
    emit("ev3_clampHi", [], "K", hi, "r = clamp<K>(r, %s);" % cl.strip())
    e_phi = one(r"\bK\s+phi\s*=\s*([^;]+);", b3, "3x3 phi")
    out.append("/-- `K phi = %s;` -/\ndef ev3_phi (acos : K → K) (r : K) : K :=\n  %s\n" % (e_phi.strip(), tr(e_phi, ["r", "acos"])))
    assigns = re.findall(r"eigenvalues\s*\[\s*([012])\s*\]\s*=\s*(q\s*\+[^;]+|3\s*\*[^;]+);", b3)
    if [a[0] for a in assigns] != ["2", "0", "1"]:
        raise TranslateError("3x3: eigenvalue assignments changed: %r" % (assigns,))
    al3 = ["q", "p", "phi", "pi", "cos"]
    out.append("/-- `eigenvalues[2] = %s;` -/\ndef ev3_lam2 (cos : K → K) (q p phi pi : K) : K :=\n  %s\n" % (assigns[0][1].strip(), tr(assigns[0][1], al3)))
    out.append("/-- `eigenvalues[0] = %s;` -/\ndef ev3_lam0 (cos : K → K) (q p phi pi : K) : K :=\n  %s\n" % (assigns[1][1].strip(), tr(assigns[1][1], al3)))
    emit("ev3_lam1", ["q", "l0", "l2"], "K", tr(assigns[2][1], ["q", "l0", "l2"]), "eigenvalues[1] = %s;" % assigns[2][1].strip())
    sorted_after = bool(re.search(r"eigenvalues\[1\]\s*=\s*3[^;]*;\s*std::sort\(eigenvalues\.begin\(\),\s*eigenvalues\.end\(\)\);\s*return\s+r\s*;", b3))
    out.append("/-- is `std::sort(eigenvalues.begin(), eigenvalues.end());` applied to the trigonometric values before `return r;` -/\n"
               "def ev3_sortedAfterTrig : Bool := %s\n" % ("true" if sorted_after else "false"))

    # ---- 3x3 eigenvectors: threshold of the diagonal special case, scaling ---------------------------
    v3 = body_after(src, r"static\s+void\s+eigenValuesVectorsImpl\s*\(\s*const\s+FieldMatrix\s*<\s*K\s*,\s*3\s*,\s*3\s*>[^)]*\)\s*\{",
                    "3x3 eigenValuesVectorsImpl")
    if not re.search(r"K\s+maxAbsElement\s*=\s*\(\s*isnormal\s*\(\s*matrix\.infinity_norm\(\)\s*\)\s*\)\s*\?\s*matrix\.infinity_norm\(\)\s*:\s*K\(1\.0\)\s*;\s*"
                     r"Matrix\s+scaledMatrix\s*=\s*matrix\s*/\s*maxAbsElement\s*;\s*K\s+r\s*=\s*Impl::eigenValues3dImpl\(\s*scaledMatrix\s*,\s*eigenValues\s*\)\s*;", v3):
        raise TranslateError("3x3: max-norm preconditioning changed")
    if not re.search(r"eigenValues\s*\*=\s*maxAbsElement\s*;", v3):
        raise TranslateError("3x3: scaling of the eigenvalues not reverted")
    offd = one(r"K\s+offDiagNorm\s*=\s*Vector\s*\{([^}]*)\}\s*\.\s*two_norm2\(\)\s*;", v3, "3x3 offDiagNorm")
    if norm_ws(offd) != "scaledMatrix[0][1],scaledMatrix[0][2],scaledMatrix[1][2]":
        raise TranslateError("3x3: offDiagNorm entries changed")
    t_v = one(r"if\s*\(\s*offDiagNorm\s*<=\s*(.+?)\)\s*\{", v3, "3x3 eigenvector diagonal threshold")
    emit("ev3_vecThreshold", ["eps"], "K", tr(t_v, ["eps"]), "if (offDiagNorm <= %s)" % t_v.strip())

    # ---- DenseMatrix::determinant, rows()==3 (densematrix.hh): B.determinant() in eigenValues3dImpl --------
    dm = strip_comments(open(os.path.join(repo, "dune/common/densematrix.hh")).read())
    dbody = body_after(dm, r"DenseMatrix\s*<\s*MAT\s*>\s*::\s*determinant\s*\([^)]*\)\s*const\s*\{", "DenseMatrix::determinant")
    blk = body_after(dbody, r"if\s*\(\s*rows\(\)\s*==\s*3\s*\)\s*\{", "determinant rows()==3 block")
    blk = blk.replace("(*this)", "m")
    temps = re.findall(r"field_type\s+(t[0-9]+)\s*=\s*([^;]+);", blk)
    ret3 = one(r"return\s*\(?([^;]+?)\)?\s*;", blk, "determinant 3x3 return")
    rest = re.sub(r"field_type\s+t[0-9]+\s*=\s*[^;]+;", "", blk)
    rest = re.sub(r"return\s*[^;]+;", "", rest)
    if rest.strip():
        raise TranslateError("determinant 3x3: unexpected statements %r" % rest.strip()[:80])
    names = []
    lets = []
    for (nm, ex) in temps:
        lets.append("let %s : K := %s" % (nm, tr(ex, M3 + names)))
        names.append(nm)
    out.append("/-- `DenseMatrix::determinant()` for rows()==3: `%s` -/" % norm_ws(ret3).replace("`", "'"))
    out.append("def det3 (m00 m01 m02 m10 m11 m12 m20 m21 m22 : K) : K :=\n  %s\n  %s\n"
               % ("\n  ".join(lets), tr(ret3, M3 + names)))

    out.append("end")
    out.append("end DV.C08.Gen")
    return [("DuneVerif/Gen/C08.lean", "\n".join(out) + "\n"), translate_tables(repo, src)]


if __name__ == "__main__":
    import sys
    for path, content in translate(sys.argv[1] if len(sys.argv) > 1 else "/repo"):
        sys.stdout.write(content)
