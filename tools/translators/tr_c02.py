"""Translator for C02: the closed-form straight-line blocks of DenseMatrix::solve / invert / determinant
(rows()==1,2,3 in dune/common/densematrix.hh) and of FMatrixHelp::invertMatrix / invertMatrix_retTransposed
(1x1, 2x2, 3x3 in dune/common/fmatrix.hh) are re-read from the source on every run and emitted as Lean
definitions over an arbitrary scalar type with core Add/Sub/Mul/Div/Neg/OfNat only
(lean/DuneVerif/Gen/C02.lean).  The closed-form theorems of Props/C02.lean are stated about these generated
definitions, so a changed sign, index or statement order in the C++ source changes what has to be proved.

Grammar accepted inside a block (anything else raises TranslateError):

  stmt  ::= TYPE name '=' expr ';'            TYPE in {field_type, K}      -> let name := expr
          | name '=' expr ';'                 name declared before         -> let name := expr   (rebinding)
          | '(*this)[i][j]' '=' expr ';'                                   -> let m_ij := expr   (rebinding)
          | 'inverse[i][j]' '=' expr ';'                                   -> let r_ij := expr
          | 'x[i]' '=' expr ';'                                            -> let x_i := expr
          | 'return' expr ';'
          | 'using' (K|real_type) '=' (field_type | typename FieldTraits<..>::real_type) ';'   (ignored)
  expr  ::= term (('+'|'-') term)*
  term  ::= unary (('*'|'/') unary)*
  unary ::= '-' unary | atom
  atom  ::= '(' expr ')' | '(*this)[i][j]' | 'matrix[i][j]' | 'b[i]' | 'x[i]' (after its assignment) | name
          | 0 | 1 | 0.0 | 1.0 | CAST '(' expr ')'    CAST in {K, field_type, real_type}
          | 'determinant(doPivoting)'                  (the closed form of the same size)

Besides the blocks, two pieces of "data" are read off the source and emitted as definitions that the top-level
model (Model/C02Top.lean) and its theorems use:
  * `closedFormSizes`: the list of k with a branch `if (rows()==k)` in determinant/solve/invert (must agree in the
    three functions; any other comparison of rows() except the `rows()!=cols()` guard raises);
  * `solveDefaultPivoting`, `invertDefaultPivoting`, `determinantDefaultPivoting`: the literal default arguments
    `bool doPivoting = ...` of the declarations inside class DenseMatrix.

The sequential in-place updates of `invert` are kept as sequential `let` rebinding in exactly the source order.
`#ifdef DUNE_FMatrix_WITH_CHECKING ... #endif` regions are not compiled by the harness and are skipped.
"""
import os
import re


class TranslateError(Exception):
    pass


# ------------------------------------------------------------------------------------------------
# source preparation
# ------------------------------------------------------------------------------------------------

def strip_comments(src):
    out = []
    i, n = 0, len(src)
    while i < n:
        if src.startswith("//", i):
            while i < n and src[i] != "\n":
                i += 1
            continue
        if src.startswith("/*", i):
            j = src.find("*/", i + 2)
            if j < 0:
                raise TranslateError("unterminated comment")
            out.append(" " + "\n" * src.count("\n", i, j))
            i = j + 2
            continue
        if src[i] == '"':
            j = i + 1
            while j < n and src[j] != '"':
                j += 2 if src[j] == "\\" else 1
            out.append(src[i:j + 1])
            i = j + 1
            continue
        out.append(src[i])
        i += 1
    return "".join(out)


def strip_checking(src):
    """remove '#ifdef DUNE_FMatrix_WITH_CHECKING ... #endif' regions (not compiled by the harness)"""
    lines = src.split("\n")
    out = []
    skipping = False
    for ln in lines:
        s = ln.strip()
        if not skipping and re.fullmatch(r"#\s*ifdef\s+DUNE_FMatrix_WITH_CHECKING", s):
            skipping = True
            out.append("")
            continue
        if skipping:
            if re.match(r"#\s*(if|ifdef|ifndef|else|elif)\b", s):
                raise TranslateError("nested preprocessor conditional inside DUNE_FMatrix_WITH_CHECKING region")
            if re.fullmatch(r"#\s*endif.*", s):
                skipping = False
            out.append("")
            continue
        out.append(ln)
    if skipping:
        raise TranslateError("unterminated DUNE_FMatrix_WITH_CHECKING region")
    return "\n".join(out)


def match_brace(src, pos):
    """src[pos] == '{' -> index of the matching '}'"""
    assert src[pos] == "{"
    depth = 0
    for i in range(pos, len(src)):
        if src[i] == "{":
            depth += 1
        elif src[i] == "}":
            depth -= 1
            if depth == 0:
                return i
    raise TranslateError("unbalanced braces")


def function_body(src, header_rx, what):
    ms = list(re.finditer(header_rx, src))
    if len(ms) != 1:
        raise TranslateError("%s: expected exactly one definition, found %d" % (what, len(ms)))
    p = src.find("{", ms[0].end())
    between = src[ms[0].end():p]
    if p < 0 or between.strip() not in ("", "const"):
        raise TranslateError("%s: unexpected text between header and body: %r" % (what, between[:60]))
    q = match_brace(src, p)
    return src[p + 1:q]


def size_block(body, n, what):
    """the statement block guarded by `if (rows()==n)` inside a function body"""
    ms = list(re.finditer(r"\bif\s*\(\s*rows\s*\(\s*\)\s*==\s*%d\s*\)" % n, body))
    if len(ms) != 1:
        raise TranslateError("%s: expected exactly one `if (rows()==%d)`, found %d" % (what, n, len(ms)))
    i = ms[0].end()
    while body[i].isspace():
        i += 1
    if body[i] == "{":
        j = match_brace(body, i)
        return body[i + 1:j]
    j = body.find(";", i)
    if j < 0:
        raise TranslateError("%s: statement after `if (rows()==%d)` not terminated" % (what, n))
    return body[i:j + 1]


# ------------------------------------------------------------------------------------------------
# tokenizer / parser
# ------------------------------------------------------------------------------------------------

TOK = re.compile(r"\s*(?:(\d+\.\d*|\.\d+|\d+)|([A-Za-z_][A-Za-z_0-9]*)|(\(\*this\))|(.))", re.S)


def tokenize(s):
    toks = []
    pos = 0
    s = s.strip()
    while pos < len(s):
        m = TOK.match(s, pos)
        if not m:
            raise TranslateError("cannot tokenize %r" % s[pos:pos + 20])
        pos = m.end()
        if m.group(1) is not None:
            toks.append(("num", m.group(1)))
        elif m.group(2) is not None:
            toks.append(("id", m.group(2)))
        elif m.group(3) is not None:
            toks.append(("this", "(*this)"))
        else:
            c = m.group(4)
            if c.isspace():
                continue
            if c not in "+-*/()[]=":
                raise TranslateError("character %r outside the translator's grammar in %r" % (c, s[:80]))
            toks.append((c, c))
    return toks


CASTS = ("K", "field_type", "real_type")


class Block:
    """translation state of one straight-line block"""

    def __init__(self, n, what, matrix_name, det_call=None, has_b=False, out_matrix=None):
        self.n = n
        self.what = what
        self.matrix_name = matrix_name      # "this" or "matrix": where entries are read from
        self.det_call = det_call            # Lean text substituted for determinant(doPivoting)
        self.has_b = has_b
        self.out_matrix = out_matrix        # "inverse" for FMatrixHelp, None otherwise
        self.locals = set()
        self.x_assigned = set()
        self.m_assigned = set()             # (*this)[i][j] written
        self.r_assigned = set()             # inverse[i][j] written
        self.lines = []
        self.ret = None

    # ---- expressions --------------------------------------------------------------------
    def idx(self, toks, p):
        if p + 2 < len(toks) + 0 and toks[p][0] == "[" and toks[p + 1][0] == "num" and toks[p + 2][0] == "]":
            v = toks[p + 1][1]
            if not v.isdigit() or int(v) >= self.n:
                raise TranslateError("%s: index %s out of range for size %d" % (self.what, v, self.n))
            return int(v), p + 3
        raise TranslateError("%s: expected a literal index [i]" % self.what)

    def entry(self, toks, p):
        i, p = self.idx(toks, p)
        j, p = self.idx(toks, p)
        return (i, j), p

    def atom(self, toks, p):
        if p >= len(toks):
            raise TranslateError("%s: unexpected end of expression" % self.what)
        k, v = toks[p]
        if k == "(":
            e, p = self.expr(toks, p + 1)
            if p >= len(toks) or toks[p][0] != ")":
                raise TranslateError("%s: missing ')'" % self.what)
            return "(" + e + ")", p + 1
        if k == "this":
            if self.matrix_name != "this":
                raise TranslateError("%s: (*this) not expected here" % self.what)
            (i, j), p = self.entry(toks, p + 1)
            return "m%d%d" % (i, j), p
        if k == "num":
            if re.fullmatch(r"0|0\.0*", v):
                return "(0 : K)", p + 1
            if re.fullmatch(r"1|1\.0*", v):
                return "(1 : K)", p + 1
            raise TranslateError("%s: literal %s outside the grammar (only 0 and 1)" % (self.what, v))
        if k == "id":
            if v in CASTS and p + 1 < len(toks) and toks[p + 1][0] == "(":
                e, q = self.expr(toks, p + 2)
                if q >= len(toks) or toks[q][0] != ")":
                    raise TranslateError("%s: missing ')' after cast" % self.what)
                return "(" + e + ")", q + 1
            if v == "determinant":
                want = [("(", "("), ("id", "doPivoting"), (")", ")")]
                if toks[p + 1:p + 4] == want and self.det_call:
                    return self.det_call, p + 4
                raise TranslateError("%s: call of determinant outside the grammar" % self.what)
            if v == "matrix" and self.matrix_name == "matrix":
                (i, j), p = self.entry(toks, p + 1)
                return "m%d%d" % (i, j), p
            if v == "b" and self.has_b:
                i, p = self.idx(toks, p + 1)
                return "b%d" % i, p
            if v == "x" and self.has_b:
                i, p = self.idx(toks, p + 1)
                if i not in self.x_assigned:
                    raise TranslateError("%s: x[%d] read before it is assigned" % (self.what, i))
                return "x%d" % i, p
            if v == "inverse" and self.out_matrix:
                (i, j), p = self.entry(toks, p + 1)
                if (i, j) not in self.r_assigned:
                    raise TranslateError("%s: inverse[%d][%d] read before it is assigned" % (self.what, i, j))
                return "r%d%d" % (i, j), p
            if v in self.locals:
                if p + 1 < len(toks) and toks[p + 1][0] in ("(", "["):
                    raise TranslateError("%s: %s used as function/array" % (self.what, v))
                return "v_" + v, p + 1
            raise TranslateError("%s: identifier %r outside the grammar" % (self.what, v))
        raise TranslateError("%s: token %r outside the grammar" % (self.what, v))

    def unary(self, toks, p):
        if p < len(toks) and toks[p][0] == "-":
            e, p = self.unary(toks, p + 1)
            return "(-" + e + ")", p
        return self.atom(toks, p)

    def term(self, toks, p):
        e, p = self.unary(toks, p)
        while p < len(toks) and toks[p][0] in "*/":
            op = toks[p][0]
            r, p = self.unary(toks, p + 1)
            e = "(%s %s %s)" % (e, op, r)
        return e, p

    def expr(self, toks, p):
        e, p = self.term(toks, p)
        while p < len(toks) and toks[p][0] in "+-":
            op = toks[p][0]
            r, p = self.term(toks, p + 1)
            e = "(%s %s %s)" % (e, op, r)
        return e, p

    def full_expr(self, toks):
        e, p = self.expr(toks, 0)
        if p != len(toks):
            raise TranslateError("%s: trailing tokens %r" % (self.what, toks[p:p + 4]))
        return e

    # ---- statements ---------------------------------------------------------------------
    def statement(self, s):
        s = s.strip()
        if not s:
            return
        if self.ret is not None:
            raise TranslateError("%s: statement after return" % self.what)
        if s.startswith("#"):
            raise TranslateError("%s: preprocessor directive inside a block: %r" % (self.what, s[:60]))
        m = re.fullmatch(r"using\s+(\w+)\s*=\s*(.+)", s, re.S)
        if m:
            rhs = re.sub(r"\s+", "", m.group(2))
            if m.group(1) in ("K", "real_type") and (
                    rhs == "field_type" or re.fullmatch(r"typenameFieldTraits<\w+>::real_type", rhs)):
                return
            raise TranslateError("%s: using-declaration outside the grammar: %r" % (self.what, s))
        toks = tokenize(s)
        if toks and toks[0] == ("id", "return"):
            self.ret = self.full_expr(toks[1:])
            return
        # split at the first top-level '='
        try:
            eq = [t[0] for t in toks].index("=")
        except ValueError:
            raise TranslateError("%s: statement outside the grammar: %r" % (self.what, s[:80]))
        lhs, rhs = toks[:eq], toks[eq + 1:]
        if any(t[0] == "=" for t in rhs):
            raise TranslateError("%s: second '=' in statement %r" % (self.what, s[:80]))
        # evaluate the right-hand side BEFORE registering the left-hand side (reads see the old binding)
        if len(lhs) == 2 and lhs[0][0] == "id" and lhs[0][1] in ("K", "field_type") and lhs[1][0] == "id":
            name = lhs[1][1]
            if name in self.locals:
                raise TranslateError("%s: redeclaration of %s" % (self.what, name))
            e = self.full_expr(rhs)
            self.locals.add(name)
            self.lines.append("let v_%s : K := %s" % (name, e))
            return
        if len(lhs) == 1 and lhs[0][0] == "id" and lhs[0][1] in self.locals:
            e = self.full_expr(rhs)
            self.lines.append("let v_%s : K := %s" % (lhs[0][1], e))
            return
        if lhs and lhs[0][0] == "this" and self.matrix_name == "this" and self.out_matrix is None and not self.has_b:
            (i, j), p = self.entry(lhs, 1)
            if p != len(lhs):
                raise TranslateError("%s: bad left-hand side %r" % (self.what, s[:60]))
            e = self.full_expr(rhs)
            self.m_assigned.add((i, j))
            self.lines.append("let m%d%d : K := %s" % (i, j, e))
            return
        if lhs and lhs[0] == ("id", "inverse") and self.out_matrix:
            (i, j), p = self.entry(lhs, 1)
            if p != len(lhs):
                raise TranslateError("%s: bad left-hand side %r" % (self.what, s[:60]))
            e = self.full_expr(rhs)
            self.r_assigned.add((i, j))
            self.lines.append("let r%d%d : K := %s" % (i, j, e))
            return
        if lhs and lhs[0] == ("id", "x") and self.has_b:
            i, p = self.idx(lhs, 1)
            if p != len(lhs):
                raise TranslateError("%s: bad left-hand side %r" % (self.what, s[:60]))
            e = self.full_expr(rhs)
            self.x_assigned.add(i)
            self.lines.append("let x%d : K := %s" % (i, e))
            return
        raise TranslateError("%s: assignment target outside the grammar: %r" % (self.what, s[:80]))

    def run(self, block):
        if "{" in block or "}" in block:
            raise TranslateError("%s: nested block / control flow inside a closed-form block" % self.what)
        for kw in ("if", "for", "while", "else", "throw", "DUNE_THROW"):
            if re.search(r"\b%s\b" % kw, block):
                raise TranslateError("%s: control flow (%s) inside a closed-form block" % (self.what, kw))
        for st in block.split(";"):
            self.statement(st)
        return self


# ------------------------------------------------------------------------------------------------
# emission
# ------------------------------------------------------------------------------------------------

CLASSES = "{K : Type} [Add K] [Sub K] [Mul K] [Div K] [Neg K] [OfNat K 0] [OfNat K 1]"


def margs(n):
    return " ".join("m%d%d" % (i, j) for i in range(n) for j in range(n))


def bargs(n):
    return " ".join("b%d" % i for i in range(n))


def emit(name, n, blk, kind):
    """kind: det | solve | invert | fmh"""
    params = "(%s : K)" % margs(n)
    if kind == "solve":
        params += " (%s : K)" % bargs(n)
    body = list(blk.lines)
    if kind == "det":
        if blk.ret is None or blk.m_assigned:
            raise TranslateError("%s: determinant block must end in a return and not write the matrix" % name)
        rty = "K"
        body.append(blk.ret)
    elif kind == "solve":
        if blk.ret is not None or blk.x_assigned != set(range(n)):
            raise TranslateError("%s: solve block must assign every x[i] (got %s)" % (name, sorted(blk.x_assigned)))
        rty = "V%d K" % n
        body.append("⟨" + ", ".join("x%d" % i for i in range(n)) + "⟩")
    elif kind == "invert":
        if blk.ret is not None or not blk.m_assigned:
            raise TranslateError("%s: invert block must write the matrix and not return" % name)
        rty = "M%d K" % n
        body.append("⟨" + ", ".join("m%d%d" % (i, j) for i in range(n) for j in range(n)) + "⟩")
    elif kind == "fmh":
        want = {(i, j) for i in range(n) for j in range(n)}
        if blk.ret is None or blk.r_assigned != want:
            raise TranslateError("%s: invertMatrix must assign every inverse[i][j] and return" % name)
        rty = "K × M%d K" % n
        body.append("(" + blk.ret + ", ⟨" + ", ".join("r%d%d" % (i, j) for i in range(n) for j in range(n)) + "⟩)")
    out = ["def %s %s %s : %s :=" % (name, CLASSES, params, rty)]
    out += ["  " + l for l in body]
    return "\n".join(out)


HEADER = """-- GENERATED by tools/translators/tr_c02.py from dune/common/densematrix.hh and dune/common/fmatrix.hh -- do not edit
/-! Closed forms of DenseMatrix::solve / invert / determinant for rows() = 1, 2, 3 and of
FMatrixHelp::invertMatrix / invertMatrix_retTransposed, statement by statement in source order.
`mij` is `(*this)[i][j]` (resp. `matrix[i][j]`), rebinding = in-place update, `v_t` is the local `t`. -/
namespace DV.C02.Gen

structure V1 (K : Type) where
  x0 : K
structure V2 (K : Type) where
  x0 : K
  x1 : K
structure V3 (K : Type) where
  x0 : K
  x1 : K
  x2 : K
structure M1 (K : Type) where
  m00 : K
structure M2 (K : Type) where
  m00 : K
  m01 : K
  m10 : K
  m11 : K
structure M3 (K : Type) where
  m00 : K
  m01 : K
  m02 : K
  m10 : K
  m11 : K
  m12 : K
  m20 : K
  m21 : K
  m22 : K
"""


def translate(repo):
    dm = strip_checking(strip_comments(open(os.path.join(repo, "dune/common/densematrix.hh")).read()))
    fm = strip_checking(strip_comments(open(os.path.join(repo, "dune/common/fmatrix.hh")).read()))
    out = [HEADER]

    det_body = function_body(
        dm, r"DenseMatrix<MAT>::determinant\s*\(\s*bool\s+doPivoting\s*\)\s*const", "determinant")
    solve_body = function_body(
        dm, r"DenseMatrix<MAT>::solve\s*\(\s*V1\s*&\s*x\s*,\s*const\s+V2\s*&\s*b\s*,\s*bool\s+doPivoting\s*\)\s*const",
        "solve")
    inv_body = function_body(dm, r"DenseMatrix<MAT>::invert\s*\(\s*bool\s+doPivoting\s*\)", "invert")

    for n in (1, 2, 3):
        blk = Block(n, "determinant rows()==%d" % n, "this").run(size_block(det_body, n, "determinant"))
        out.append(emit("det%d" % n, n, blk, "det"))
    for n in (1, 2, 3):
        blk = Block(n, "solve rows()==%d" % n, "this", det_call="(det%d %s)" % (n, margs(n)), has_b=True)
        blk.run(size_block(solve_body, n, "solve"))
        out.append(emit("solve%d" % n, n, blk, "solve"))
    for n in (1, 2, 3):
        blk = Block(n, "invert rows()==%d" % n, "this").run(size_block(inv_body, n, "invert"))
        out.append(emit("invert%d" % n, n, blk, "invert"))

    # FMatrixHelp::invertMatrix / invertMatrix_retTransposed for FieldMatrix<K,n,n>, n = 1..3
    for fname, lname in (("invertMatrix", "fmhInvert"), ("invertMatrix_retTransposed", "fmhInvertT")):
        for n in (1, 2, 3):
            hdr = (r"static\s+inline\s+K\s+%s\s*\(\s*const\s+FieldMatrix<K,%d,%d>\s*&\s*matrix\s*,\s*"
                   r"FieldMatrix<K,%d,%d>\s*&\s*inverse\s*\)" % (fname, n, n, n, n))
            body = function_body(fm, hdr, "%s %dx%d" % (fname, n, n))
            flat = re.sub(r"\s+", "", body)
            if fname == "invertMatrix_retTransposed" and flat == "returninvertMatrix(matrix,inverse);":
                out.append("def %s%d %s (%s : K) : K × M%d K :=\n  fmhInvert%d %s"
                           % (lname, n, CLASSES, margs(n), n, n, margs(n)))
                continue
            blk = Block(n, "%s %dx%d" % (fname, n, n), "matrix", out_matrix="inverse").run(body)
            out.append(emit("%s%d" % (lname, n), n, blk, "fmh"))

    # the size dispatch of the three member functions: which `rows()==k` tests exist (everything else is the LU path)
    sizes = {}
    for fname, body in (("determinant", det_body), ("solve", solve_body), ("invert", inv_body)):
        tests = re.findall(r"\brows\s*\(\s*\)\s*(==|!=|<=|>=|<|>)\s*(\w+(?:\s*\(\s*\))?)", body)
        closed = []
        for op, rhs in tests:
            rhs = re.sub(r"\s+", "", rhs)
            if op == "!=" and rhs == "cols()":
                continue            # the `rows()!=cols()` guard (non-square: FMatrixError), outside the property
            if op == "==" and rhs.isdigit():
                closed.append(int(rhs))
                continue
            raise TranslateError("%s: size test `rows() %s %s` outside the translator's grammar" % (fname, op, rhs))
        sizes[fname] = closed
    if not (sizes["determinant"] == sizes["solve"] == sizes["invert"]):
        raise TranslateError("size dispatch differs between determinant/solve/invert: %r" % (sizes,))
    out.append("/-- the sizes `k` with a closed-form branch `if (rows()==k)` (in source order); all other sizes take the LU path -/\n"
               "def closedFormSizes : List Nat := [%s]" % ", ".join(str(k) for k in sizes["solve"]))

    # default arguments of the declarations inside class DenseMatrix
    decls = (
        ("solveDefaultPivoting",
         r"void\s+solve\s*\(\s*V1\s*&\s*x\s*,\s*const\s+V2\s*&\s*b\s*,\s*bool\s+doPivoting\s*=\s*(\w+)\s*\)\s*const\s*;"),
        ("invertDefaultPivoting", r"void\s+invert\s*\(\s*bool\s+doPivoting\s*=\s*(\w+)\s*\)\s*;"),
        ("determinantDefaultPivoting",
         r"field_type\s+determinant\s*\(\s*bool\s+doPivoting\s*=\s*(\w+)\s*\)\s*const\s*;"),
    )
    for lname, rx in decls:
        ms = re.findall(rx, dm)
        if len(ms) != 1 or ms[0] not in ("true", "false"):
            raise TranslateError("%s: expected exactly one declaration with a literal default for doPivoting, found %r"
                                 % (lname, ms))
        out.append("/-- default argument `bool doPivoting = %s` of the declaration in class DenseMatrix -/\n"
                   "def %s : Bool := %s" % (ms[0], lname, ms[0]))

    out.append("end DV.C02.Gen")
    return [("DuneVerif/Gen/C02.lean", "\n\n".join(out) + "\n")]


if __name__ == "__main__":
    import sys
    for path, content in translate(sys.argv[1] if len(sys.argv) > 1 else "/repo"):
        sys.stdout.write(content)
