"""Translator for C02: the closed-form straight-line blocks of DenseMatrix::solve / invert / determinant
(rows()==1,2,3 in dune/common/densematrix.hh) and of FMatrixHelp::invertMatrix / invertMatrix_retTransposed
(1x1, 2x2, 3x3 in dune/common/fmatrix.hh) are re-read from the source on every run and emitted as Lean
definitions over an arbitrary scalar type with core Add/Sub/Mul/Div/Neg/OfNat only
(lean/DuneVerif/Gen/C02.lean).  The closed-form theorems of Props/C02.lean are stated about these generated
definitions, so a changed sign, index or statement order in the C++ source changes what has to be proved.

Grammar accepted inside a block (anything else raises TranslateError):

  stmt  ::= TYPE name '=' expr ';'            TYPE in {field_type, K}      -> let name := expr
          | name '=' expr ';'                 name declared before         -> let name := expr   (rebinding)
          | '(*this)[i][j]' '=' expr ';'                                   -> let m_ij := expr   (rebinding)
          | 'inverse[i][j]' '=' expr ';'                                   -> let r_ij := expr
          | 'x[i]' '=' expr ';'                                            -> let x_i := expr
          | 'return' expr ';'
          | 'using' (K|real_type) '=' (field_type | typename FieldTraits<..>::real_type) ';'   (ignored)
  expr  ::= term (('+'|'-') term)*
  term  ::= unary (('*'|'/') unary)*
  unary ::= '-' unary | atom
  atom  ::= '(' expr ')' | '(*this)[i][j]' | 'matrix[i][j]' | 'b[i]' | 'x[i]' (after its assignment) | name
          | 0 | 1 | 0.0 | 1.0 | CAST '(' expr ')'    CAST in {K, field_type, real_type}
          | 'determinant(doPivoting)'                  (the closed form of the same size)

Besides the blocks, two pieces of "data" are read off the source and emitted as definitions that the top-level
model (Model/C02Top.lean) and its theorems use:
  * `closedFormSizes`: the list of k with a branch `if (rows()==k)` in determinant/solve/invert (must agree in the
    three functions; any other comparison of rows() except the `rows()!=cols()` guard raises);
  * `solveDefaultPivoting`, `invertDefaultPivoting`, `determinantDefaultPivoting`: the literal default arguments
    `bool doPivoting = ...` of the declarations inside class DenseMatrix.

The sequential in-place updates of `invert` are kept as sequential `let` rebinding in exactly the source order.
`#ifdef DUNE_FMatrix_WITH_CHECKING ... #endif` regions are not compiled by the harness.  Outside the closed-form blocks they
are skipped; inside a closed-form block of solve / invert (round five) a region must be the test
`if (Simd::anyTrue(fvmeta::absreal(E) < FMatrixPrecision<>::absolute_limit())) DUNE_THROW(FMatrixError, ...)` and the
tested quantity E is emitted, with the locals as bound at that point, as `solve1Checked` ... `invert2Checked`
(tie_checked_quantity: it is the determinant).

Round five (behaviour-preserving respellings are normalised before anything is matched; what cannot be recognised
soundly still raises):
  closed-form blocks: `const` / `auto` on a local, `K t(e)`, compound assignments `target op= e`, `const K& a = entry`
    as a name for an entry that is not written while the name is in use, a bare `return;` ending a block of a void
    function (guard-clause dispatch; a size branch without `else` must return), `k == rows()`, `this->rows()`.
    Local names are kept as they are: the Lean definitions are alpha-equivalent and the theorems never mention them.
  statement trees (LU path, functors, DiagonalMatrix), see the block "round five: normalisation of the statement tree":
    while loops and increments in the body -> for loops; locals that only name a size / `begin()` / `end()` are inlined
    (a second declaration or a modification raises); references that only name a row or an entry (`auto& Ak = A[k]`)
    are inlined when the index variables are not modified; private void helper functions without `return` are inlined
    at their call sites (reference parameters: the argument is substituted; by-value parameters: scalars that the
    helper does not modify); range-for over a known sequence / `range(a,b)`, iterator loops, `std::iota`,
    `std::accumulate(.., std::multiplies)` -> the index loop; `n > i`, `i != n` (upward from 0) -> `i < n`; the three
    spellings of a count-down loop over n-1..0 -> one canonical header (a signed counter is required for `i >= 0`);
    the reaction to a singular lane (throwEarly block) is compared as a decision table over (throwEarly, all lanes
    nonsingular, some lane nonsingular); the two `Simd::cond` updates of the pivot search may stand in either order.
"""
import os
import re


class TranslateError(Exception):
    pass


# ------------------------------------------------------------------------------------------------
# source preparation
# ------------------------------------------------------------------------------------------------

def strip_comments(src):
    out = []
    i, n = 0, len(src)
    while i < n:
        if src.startswith("//", i):
            while i < n and src[i] != "\n":
                i += 1
            continue
        if src.startswith("/*", i):
            j = src.find("*/", i + 2)
            if j < 0:
                raise TranslateError("unterminated comment")
            out.append(" " + "\n" * src.count("\n", i, j))
            i = j + 2
            continue
        if src[i] == '"':
            j = i + 1
            while j < n and src[j] != '"':
                j += 2 if src[j] == "\\" else 1
            out.append(src[i:j + 1])
            i = j + 1
            continue
        out.append(src[i])
        i += 1
    return "".join(out)


def strip_checking(src):
    """remove '#ifdef DUNE_FMatrix_WITH_CHECKING ... #endif' regions (not compiled by the harness)"""
    lines = src.split("\n")
    out = []
    skipping = False
    for ln in lines:
        s = ln.strip()
        if not skipping and re.fullmatch(r"#\s*ifdef\s+DUNE_FMatrix_WITH_CHECKING", s):
            skipping = True
            out.append("")
            continue
        if skipping:
            if re.match(r"#\s*(if|ifdef|ifndef|else|elif)\b", s):
                raise TranslateError("nested preprocessor conditional inside DUNE_FMatrix_WITH_CHECKING region")
            if re.fullmatch(r"#\s*endif.*", s):
                skipping = False
            out.append("")
            continue
        out.append(ln)
    if skipping:
        raise TranslateError("unterminated DUNE_FMatrix_WITH_CHECKING region")
    return "\n".join(out)


CHECK_RX = re.compile(r'if\(Simd::anyTrue\(fvmeta::absreal\((.+)\)<FMatrixPrecision<>::absolute_limit\(\)\)\)'
                      r'DUNE_THROW\(FMatrixError,"[^"]*"\);')


def mark_checking(src):
    """round five: like strip_checking, but a region of the form
         if (Simd::anyTrue(fvmeta::absreal(E) < FMatrixPrecision<>::absolute_limit())) DUNE_THROW(FMatrixError, "...");
    is kept as the pseudo statement `__checked__(E);` (the closed-form blocks record WHICH quantity the build with
    DUNE_FMatrix_WITH_CHECKING tests); any other region becomes `__checked_unknown__;` (raises inside a block)"""
    lines = src.split("\n")
    out = []
    region = None
    for ln in lines:
        t = ln.strip()
        if region is None and re.fullmatch(r"#\s*ifdef\s+DUNE_FMatrix_WITH_CHECKING", t):
            region = []
            out.append("")
            continue
        if region is not None:
            if re.match(r"#\s*(if|ifdef|ifndef|else|elif)\b", t):
                raise TranslateError("nested preprocessor conditional inside DUNE_FMatrix_WITH_CHECKING region")
            if re.fullmatch(r"#\s*endif.*", t):
                body = re.sub(r"\s*([^\w\s])\s*", r"\1", re.sub(r"\s+", " ", " ".join(region))).strip()
                m = CHECK_RX.fullmatch(body)
                out.append(" __checked__(%s); " % m.group(1) if m else " __checked_unknown__; ")
                region = None
                continue
            region.append(ln)
            out.append("")
            continue
        out.append(ln)
    if region is not None:
        raise TranslateError("unterminated DUNE_FMatrix_WITH_CHECKING region")
    return "\n".join(out)


def match_brace(src, pos):
    """src[pos] == '{' -> index of the matching '}'"""
    assert src[pos] == "{"
    depth = 0
    for i in range(pos, len(src)):
        if src[i] == "{":
            depth += 1
        elif src[i] == "}":
            depth -= 1
            if depth == 0:
                return i
    raise TranslateError("unbalanced braces")


def function_body(src, header_rx, what):
    ms = list(re.finditer(header_rx, src))
    if len(ms) != 1:
        raise TranslateError("%s: expected exactly one definition, found %d" % (what, len(ms)))
    p = src.find("{", ms[0].end())
    between = src[ms[0].end():p]
    if p < 0 or between.strip() not in ("", "const"):
        raise TranslateError("%s: unexpected text between header and body: %r" % (what, between[:60]))
    q = match_brace(src, p)
    return src[p + 1:q]


def canon_dispatch(body):
    """round five: `this->rows()` -> `rows()`, `k == rows()` -> `rows() == k` (the size tests of the dispatch)"""
    body = re.sub(r"\bthis\s*->\s*(rows|cols)\s*\(", r"\1(", body)
    return re.sub(r"(?<![\w.\])])(\d+)\s*==\s*rows\s*\(\s*\)", r"rows()==\1", body)


def size_block(body, n, what):
    """the statement block guarded by `if (rows()==n)` inside a function body"""
    ms = list(re.finditer(r"\bif\s*\(\s*rows\s*\(\s*\)\s*==\s*%d\s*\)" % n, body))
    if len(ms) != 1:
        raise TranslateError("%s: expected exactly one `if (rows()==%d)`, found %d" % (what, n, len(ms)))
    i = ms[0].end()
    while body[i].isspace():
        i += 1
    if body[i] == "{":
        j = match_brace(body, i)
        return body[i + 1:j]
    j = body.find(";", i)
    if j < 0:
        raise TranslateError("%s: statement after `if (rows()==%d)` not terminated" % (what, n))
    return body[i:j + 1]


# ------------------------------------------------------------------------------------------------
# tokenizer / parser
# ------------------------------------------------------------------------------------------------

TOK = re.compile(r"\s*(?:(\d+\.\d*|\.\d+|\d+)|([A-Za-z_][A-Za-z_0-9]*)|(\(\*this\))|(.))", re.S)


def tokenize(s):
    toks = []
    pos = 0
    s = s.strip()
    while pos < len(s):
        m = TOK.match(s, pos)
        if not m:
            raise TranslateError("cannot tokenize %r" % s[pos:pos + 20])
        pos = m.end()
        if m.group(1) is not None:
            toks.append(("num", m.group(1)))
        elif m.group(2) is not None:
            toks.append(("id", m.group(2)))
        elif m.group(3) is not None:
            toks.append(("this", "(*this)"))
        else:
            c = m.group(4)
            if c.isspace():
                continue
            if c not in "+-*/()[]=":
                raise TranslateError("character %r outside the translator's grammar in %r" % (c, s[:80]))
            toks.append((c, c))
    return toks


CASTS = ("K", "field_type", "real_type")


class Block:
    """translation state of one straight-line block"""

    def __init__(self, n, what, matrix_name, det_call=None, has_b=False, out_matrix=None):
        self.n = n
        self.what = what
        self.matrix_name = matrix_name      # "this" or "matrix": where entries are read from
        self.det_call = det_call            # Lean text substituted for determinant(doPivoting)
        self.has_b = has_b
        self.out_matrix = out_matrix        # "inverse" for FMatrixHelp, None otherwise
        self.locals = set()
        self.x_assigned = set()
        self.m_assigned = set()             # (*this)[i][j] written
        self.r_assigned = set()             # inverse[i][j] written
        self.lines = []
        self.ret = None
        self.aliases = {}                   # round five: `const K& name = entry`
        self.checked = []                   # round five: (position, expression) of `__checked__(E)`
        self.void = False                   # block of a void function: a bare `return;` may end it
        self.void_return = False
        self.ret_seen = False

    # ---- expressions --------------------------------------------------------------------
    def idx(self, toks, p):
        if p + 2 < len(toks) + 0 and toks[p][0] == "[" and toks[p + 1][0] == "num" and toks[p + 2][0] == "]":
            v = toks[p + 1][1]
            if not v.isdigit() or int(v) >= self.n:
                raise TranslateError("%s: index %s out of range for size %d" % (self.what, v, self.n))
            return int(v), p + 3
        raise TranslateError("%s: expected a literal index [i]" % self.what)

    def entry(self, toks, p):
        i, p = self.idx(toks, p)
        j, p = self.idx(toks, p)
        return (i, j), p

    def atom(self, toks, p):
        if p >= len(toks):
            raise TranslateError("%s: unexpected end of expression" % self.what)
        k, v = toks[p]
        if k == "(":
            e, p = self.expr(toks, p + 1)
            if p >= len(toks) or toks[p][0] != ")":
                raise TranslateError("%s: missing ')'" % self.what)
            return "(" + e + ")", p + 1
        if k == "this":
            if self.matrix_name != "this":
                raise TranslateError("%s: (*this) not expected here" % self.what)
            (i, j), p = self.entry(toks, p + 1)
            return "m%d%d" % (i, j), p
        if k == "num":
            if re.fullmatch(r"0|0\.0*", v):
                return "(0 : K)", p + 1
            if re.fullmatch(r"1|1\.0*", v):
                return "(1 : K)", p + 1
            raise TranslateError("%s: literal %s outside the grammar (only 0 and 1)" % (self.what, v))
        if k == "id":
            if v in CASTS and p + 1 < len(toks) and toks[p + 1][0] == "(":
                e, q = self.expr(toks, p + 2)
                if q >= len(toks) or toks[q][0] != ")":
                    raise TranslateError("%s: missing ')' after cast" % self.what)
                return "(" + e + ")", q + 1
            if v == "determinant":
                want = [("(", "("), ("id", "doPivoting"), (")", ")")]
                if toks[p + 1:p + 4] == want and self.det_call:
                    return self.det_call, p + 4
                raise TranslateError("%s: call of determinant outside the grammar" % self.what)
            if v == "matrix" and self.matrix_name == "matrix":
                (i, j), p = self.entry(toks, p + 1)
                return "m%d%d" % (i, j), p
            if v == "b" and self.has_b:
                i, p = self.idx(toks, p + 1)
                return "b%d" % i, p
            if v == "x" and self.has_b:
                i, p = self.idx(toks, p + 1)
                if i not in self.x_assigned:
                    raise TranslateError("%s: x[%d] read before it is assigned" % (self.what, i))
                return "x%d" % i, p
            if v == "inverse" and self.out_matrix:
                (i, j), p = self.entry(toks, p + 1)
                if (i, j) not in self.r_assigned:
                    raise TranslateError("%s: inverse[%d][%d] read before it is assigned" % (self.what, i, j))
                return "r%d%d" % (i, j), p
            if v in self.aliases:
                if p + 1 < len(toks) and toks[p + 1][0] in ("(", "["):
                    raise TranslateError("%s: %s used as function/array" % (self.what, v))
                return self.aliases[v], p + 1
            if v in self.locals:
                if p + 1 < len(toks) and toks[p + 1][0] in ("(", "["):
                    raise TranslateError("%s: %s used as function/array" % (self.what, v))
                return "v_" + v, p + 1
            raise TranslateError("%s: identifier %r outside the grammar" % (self.what, v))
        raise TranslateError("%s: token %r outside the grammar" % (self.what, v))

    def unary(self, toks, p):
        if p < len(toks) and toks[p][0] == "-":
            e, p = self.unary(toks, p + 1)
            return "(-" + e + ")", p
        return self.atom(toks, p)

    def term(self, toks, p):
        e, p = self.unary(toks, p)
        while p < len(toks) and toks[p][0] in "*/":
            op = toks[p][0]
            r, p = self.unary(toks, p + 1)
            e = "(%s %s %s)" % (e, op, r)
        return e, p

    def expr(self, toks, p):
        e, p = self.term(toks, p)
        while p < len(toks) and toks[p][0] in "+-":
            op = toks[p][0]
            r, p = self.term(toks, p + 1)
            e = "(%s %s %s)" % (e, op, r)
        return e, p

    def full_expr(self, toks):
        e, p = self.expr(toks, 0)
        if p != len(toks):
            raise TranslateError("%s: trailing tokens %r" % (self.what, toks[p:p + 4]))
        return e

    # ---- statements ---------------------------------------------------------------------
    def statement(self, s):
        s = s.strip()
        if not s:
            return
        if self.ret is not None or self.ret_seen:
            raise TranslateError("%s: statement after return" % self.what)
        if s.startswith("#"):
            raise TranslateError("%s: preprocessor directive inside a block: %r" % (self.what, s[:60]))
        m = re.fullmatch(r"using\s+(\w+)\s*=\s*(.+)", s, re.S)
        if m:
            rhs = re.sub(r"\s+", "", m.group(2))
            if m.group(1) in ("K", "real_type") and (
                    rhs == "field_type" or re.fullmatch(r"typenameFieldTraits<\w+>::real_type", rhs)):
                return
            raise TranslateError("%s: using-declaration outside the grammar: %r" % (self.what, s))
        m = re.fullmatch(r"const\s+(?:K|field_type|auto)\s*&\s*([A-Za-z_]\w*)\s*=\s*(.+)", s, re.S)
        if m:
            # `const K& a = (*this)[0][1];`: a name for the entry; sound while the entry is not written (checked below)
            if m.group(1) in self.locals or m.group(1) in self.aliases:
                raise TranslateError("%s: redeclaration of %s" % (self.what, m.group(1)))
            e = self.full_expr(tokenize(m.group(2)))
            if not re.fullmatch(r"m\d\d|b\d", e):
                raise TranslateError("%s: reference to something that is not an entry: %r" % (self.what, s[:80]))
            self.aliases[m.group(1)] = e
            return
        m = re.fullmatch(r"__checked__\s*\((.*)\)", s, re.S)
        if m:
            # the quantity whose magnitude the DUNE_FMatrix_WITH_CHECKING build compares with the absolute limit
            self.checked.append((len(self.lines), self.full_expr(tokenize(m.group(1)))))
            return
        if s.startswith("__checked_unknown__"):
            raise TranslateError("%s: DUNE_FMatrix_WITH_CHECKING region outside the grammar" % self.what)
        if s == "return" and self.void:
            self.void_return = True
            self.ret_seen = True
            return
        s = self.canon_statement(s)
        toks = tokenize(s)
        if toks and toks[0] == ("id", "return"):
            self.ret = self.full_expr(toks[1:])
            return
        # split at the first top-level '='
        try:
            eq = [t[0] for t in toks].index("=")
        except ValueError:
            raise TranslateError("%s: statement outside the grammar: %r" % (self.what, s[:80]))
        lhs, rhs = toks[:eq], toks[eq + 1:]
        if any(t[0] == "=" for t in rhs):
            raise TranslateError("%s: second '=' in statement %r" % (self.what, s[:80]))
        # evaluate the right-hand side BEFORE registering the left-hand side (reads see the old binding)
        if len(lhs) == 2 and lhs[0][0] == "id" and lhs[0][1] in ("K", "field_type") and lhs[1][0] == "id":
            name = lhs[1][1]
            if name in self.locals:
                raise TranslateError("%s: redeclaration of %s" % (self.what, name))
            e = self.full_expr(rhs)
            self.locals.add(name)
            self.lines.append("let v_%s : K := %s" % (name, e))
            return
        if len(lhs) == 1 and lhs[0][0] == "id" and lhs[0][1] in self.locals:
            e = self.full_expr(rhs)
            self.lines.append("let v_%s : K := %s" % (lhs[0][1], e))
            return
        if lhs and lhs[0][0] == "this" and self.matrix_name == "this" and self.out_matrix is None and not self.has_b:
            (i, j), p = self.entry(lhs, 1)
            if p != len(lhs):
                raise TranslateError("%s: bad left-hand side %r" % (self.what, s[:60]))
            e = self.full_expr(rhs)
            if "m%d%d" % (i, j) in self.aliases.values():
                raise TranslateError("%s: entry [%d][%d] is written while a reference to it is in use" % (self.what, i, j))
            self.m_assigned.add((i, j))
            self.lines.append("let m%d%d : K := %s" % (i, j, e))
            return
        if lhs and lhs[0] == ("id", "inverse") and self.out_matrix:
            (i, j), p = self.entry(lhs, 1)
            if p != len(lhs):
                raise TranslateError("%s: bad left-hand side %r" % (self.what, s[:60]))
            e = self.full_expr(rhs)
            self.r_assigned.add((i, j))
            self.lines.append("let r%d%d : K := %s" % (i, j, e))
            return
        if lhs and lhs[0] == ("id", "x") and self.has_b:
            i, p = self.idx(lhs, 1)
            if p != len(lhs):
                raise TranslateError("%s: bad left-hand side %r" % (self.what, s[:60]))
            e = self.full_expr(rhs)
            self.x_assigned.add(i)
            self.lines.append("let x%d : K := %s" % (i, e))
            return
        raise TranslateError("%s: assignment target outside the grammar: %r" % (self.what, s[:80]))

    DECL_TYPES = ("K", "field_type", "auto")

    def canon_statement(self, s):
        """round five: spellings of one statement that mean the same are brought to the round-two form
        `TYPE name = expr` / `target = expr`:
          * `const` / `constexpr`-free qualifiers on a local (`const K t = e`, `const auto t = e`, `auto t = e`): a local of
            the scalar type; `const` only forbids later assignments (the compiler checks that);
          * constructor-style initialisers `K t(e)` / `K t{e}`;
          * compound assignments `target op= e`  ==  `target = target op (e)` for op in + - * /."""
        m = re.match(r"(?:const\s+)?(K|field_type|auto)\s+(?:const\s+)?([A-Za-z_]\w*)\s*(.*)$", s, re.S)
        if m and m.group(2) not in ("const",):
            ty, name, rest = m.group(1), m.group(2), m.group(3).strip()
            if rest.startswith("="):
                init = rest[1:]
            elif rest[:1] in "({" and rest[-1:] == {"(": ")", "{": "}"}.get(rest[:1]) and self._balanced(rest):
                init = rest[1:-1]
            else:
                raise TranslateError("%s: declaration outside the grammar: %r" % (self.what, s[:80]))
            if not init.strip():
                raise TranslateError("%s: declaration without initialiser: %r" % (self.what, s[:80]))
            return "K %s = %s" % (name, init)
        m = re.match(r"(.+?[^-+*/=!<>\s])\s*([-+*/])=(?!=)(.*)$", s, re.S)
        if m and "=" not in m.group(1):
            return "%s = (%s) %s (%s)" % (m.group(1), m.group(1), m.group(2), m.group(3))
        return s

    @staticmethod
    def _balanced(t):
        """t starts with an opening bracket whose partner is the last character"""
        depth = 0
        for i, c in enumerate(t):
            if c in "({[":
                depth += 1
            elif c in ")}]":
                depth -= 1
                if depth == 0:
                    return i == len(t) - 1
        return False

    def run(self, block):
        if "{" in block or "}" in block:
            raise TranslateError("%s: nested block / control flow inside a closed-form block" % self.what)
        for kw in ("if", "for", "while", "else", "throw", "DUNE_THROW"):
            if re.search(r"\b%s\b" % kw, block):
                raise TranslateError("%s: control flow (%s) inside a closed-form block" % (self.what, kw))
        for st in block.split(";"):
            self.statement(st)
        return self


# ------------------------------------------------------------------------------------------------
# emission
# ------------------------------------------------------------------------------------------------

CLASSES = "{K : Type} [Add K] [Sub K] [Mul K] [Div K] [Neg K] [OfNat K 0] [OfNat K 1]"


def margs(n):
    return " ".join("m%d%d" % (i, j) for i in range(n) for j in range(n))


def bargs(n):
    return " ".join("b%d" % i for i in range(n))


def emit(name, n, blk, kind):
    """kind: det | solve | invert | fmh"""
    params = "(%s : K)" % margs(n)
    if kind == "solve":
        params += " (%s : K)" % bargs(n)
    body = list(blk.lines)
    if kind == "det":
        if blk.ret is None or blk.m_assigned:
            raise TranslateError("%s: determinant block must end in a return and not write the matrix" % name)
        rty = "K"
        body.append(blk.ret)
    elif kind == "solve":
        if blk.ret is not None or blk.x_assigned != set(range(n)):
            raise TranslateError("%s: solve block must assign every x[i] (got %s)" % (name, sorted(blk.x_assigned)))
        rty = "V%d K" % n
        body.append("⟨" + ", ".join("x%d" % i for i in range(n)) + "⟩")
    elif kind == "invert":
        if blk.ret is not None or not blk.m_assigned:
            raise TranslateError("%s: invert block must write the matrix and not return" % name)
        rty = "M%d K" % n
        body.append("⟨" + ", ".join("m%d%d" % (i, j) for i in range(n) for j in range(n)) + "⟩")
    elif kind == "fmh":
        want = {(i, j) for i in range(n) for j in range(n)}
        if blk.ret is None or blk.r_assigned != want:
            raise TranslateError("%s: invertMatrix must assign every inverse[i][j] and return" % name)
        rty = "K × M%d K" % n
        body.append("(" + blk.ret + ", ⟨" + ", ".join("r%d%d" % (i, j) for i in range(n) for j in range(n)) + "⟩)")
    out = ["def %s %s %s : %s :=" % (name, CLASSES, params, rty)]
    out += ["  " + l for l in body]
    want = 1 if name in CHECKED_BLOCKS else 0
    if len(blk.checked) != want:
        raise TranslateError("%s: %d DUNE_FMatrix_WITH_CHECKING tests in this block (expected %d)" % (name, len(blk.checked), want))
    for pos, e in blk.checked:
        out.append("")
        out.append("set_option linter.unusedVariables false in")
        out.append("/-- the quantity whose magnitude `%s` compares with `FMatrixPrecision<>::absolute_limit()` when "
                   "DUNE_FMatrix_WITH_CHECKING is defined (FMatrixError below the limit); tied to the determinant by "
                   "`tie_checked_quantity` -/" % name)
        out.append("def %sChecked %s %s : K :=" % (name, CLASSES, params))
        out += ["  " + l for l in blk.lines[:pos]]
        out.append("  " + e)
    return "\n".join(out)


CHECKED_BLOCKS = ("solve1", "solve2", "solve3", "invert1", "invert2")



# ------------------------------------------------------------------------------------------------
# round four: the LU path and DiagonalMatrix -- loop headers, statement order, branch conditions, call arguments
# and the scalar kernels of every update statement
# ------------------------------------------------------------------------------------------------
# The loops of luDecomposition / the LU branches of solve, invert, determinant / the three functors / the
# DiagonalMatrix members are parsed into a small statement tree (for / if / plain statement; braces are
# transparent).  The tree is matched statement by statement against the shape the hand-written model
# (Model/C02.lean) mirrors; loop variables and locals may be renamed, whitespace / braces / `i++` vs `++i` are
# irrelevant, the right-hand sides are parsed with the expression grammar above (so commuted factors etc. only
# change the generated kernel, and the tie theorems of Props/C02.lean, proved with `ring`, still hold).
# Everything else raises TranslateError.

def normalize(src):
    """collapse whitespace; no blanks around punctuation"""
    s = re.sub(r"\s+", " ", src)
    s = re.sub(r"\s*([^\w\s])\s*", r"\1", s)
    return s.strip()


def _match_paren(s, p, op="(", cl=")"):
    depth = 0
    i = p
    while i < len(s):
        c = s[i]
        if c == '"':
            i += 1
            while i < len(s) and s[i] != '"':
                i += 2 if s[i] == "\\" else 1
        elif c == op:
            depth += 1
        elif c == cl:
            depth -= 1
            if depth == 0:
                return i
        i += 1
    raise TranslateError("unbalanced %s%s in %r" % (op, cl, s[p:p + 40]))


def parse_stmt(s, p):
    """one statement of normalized text starting at p -> (node, next position)
    node ::= ('for', header, [nodes]) | ('if', cond, [nodes], [nodes]) | ('stmt', text) | ('block', [nodes])"""
    if s.startswith("{", p):
        q = _match_paren(s, p, "{", "}")
        return ("block", parse_seq(s[p + 1:q])), q + 1
    m = re.compile(r"(for|if|while|switch|do)\b").match(s, p)
    if m and m.group(1) in ("switch", "do"):
        raise TranslateError("control flow `%s` outside the grammar" % m.group(1))
    if m and s.startswith("(", m.end()):
        q = _match_paren(s, m.end())
        head = s[m.end() + 1:q]
        body, r = parse_stmt(s, q + 1)
        body = body[1] if body[0] == "block" else [body]
        if m.group(1) in ("for", "while"):
            return (m.group(1), head, body), r
        els = []
        if re.compile(r"else\b").match(s, r):
            r2 = r + 4
            if s.startswith(" ", r2):
                r2 += 1
            e, r = parse_stmt(s, r2)
            els = e[1] if e[0] == "block" else [e]
        return ("if", head, body, els), r
    # plain statement up to ';' at depth 0
    i = p
    depth = 0
    while i < len(s):
        c = s[i]
        if c == '"':
            i += 1
            while i < len(s) and s[i] != '"':
                i += 2 if s[i] == "\\" else 1
        elif c in "([":
            depth += 1
        elif c in ")]":
            depth -= 1
        elif c in "{}":
            raise TranslateError("brace inside a statement: %r" % s[p:i + 10])
        elif c == ";" and depth == 0:
            return ("stmt", s[p:i]), i + 1
        i += 1
    raise TranslateError("statement not terminated: %r" % s[p:p + 60])


def parse_seq(s):
    nodes = []
    p = 0
    while p < len(s):
        if s[p] in " ;":
            p += 1
            continue
        nd, p = parse_stmt(s, p)
        if nd[0] == "block":
            nodes.extend(nd[1])
        else:
            nodes.append(nd)
    return nodes


IGNORABLE = re.compile(r"(using std::\w+|using \w+=typename FieldTraits<\w+>::real_type|typedef typename FieldTraits<\w+>::real_type \w+"
                       r"|typedef typename std::vector<size_type>::size_type size_type)$")


def significant(nodes):
    return [nd for nd in nodes if not (nd[0] == "stmt" and IGNORABLE.match(nd[1]))]


# ------------------------------------------------------------------------------------------------
# round five: normalisation of the statement tree before it is matched (behaviour-preserving respellings are
# brought to the spelling the matcher knows; everything that cannot be recognised soundly stays as it is and is
# then rejected by the matcher)
# ------------------------------------------------------------------------------------------------
#   * `T v = S; while (C) { B; v++; }`  /  `T v = S; for (; C; v++) B`     -> `for (T v = S; C; v++) B`
#     (no `continue` in B, v not used after the loop)
#   * locals that only name a size or an iterator of a container that is not resized in the function
#     (`const size_type n = A.rows();`, `const auto endIt = diag_.end();`; without `const` only when never assigned)
#     are inlined at their uses; a second declaration of the name or an assignment to it raises
#   * range-for over a known sequence (`for (auto& e : diag_)`), over `range(a[, b])`, and iterator loops
#     (`auto it = diag_.begin(); ... *it ...; for (++it; it != diag_.end(); ++it) ... *it ...`) -> the index loop over the
#     same positions in the same order, `e` / `*it` -> `diag_[i]`; any other use of the iterator raises
#   * loop conditions with the loop variable on the right (`n > i`), `i != n` for an upward loop from 0 -> `i < n`
# The contexts name the size atoms and sequences of the function at hand.

DENSE_CTX = dict(size_atoms=[r"A\.rows\(\)", r"rows\(\)", r"pivot_\.size\(\)", r"this->rows\(\)"],
                 seqs={"pivot_": "pivot_.size()"})
DIAG_CTX = dict(size_atoms=[r"n", r"diag_\.size\(\)"], seqs={"diag_": "n"})

INC_RX = r"(?:\+\+%s|%s\+\+|%s\+=1|--%s|%s--|%s-=1)"


def _texts(nodes):
    """all statement / header / condition texts of a tree"""
    for nd in nodes:
        if nd[0] == "stmt":
            yield nd[1]
        elif nd[0] in ("for", "while"):
            yield nd[1]
            for t in _texts(nd[2]):
                yield t
        elif nd[0] == "if":
            yield nd[1]
            for t in _texts(nd[2]):
                yield t
            for t in _texts(nd[3]):
                yield t


def _mentions(nodes, name):
    rx = re.compile(r"\b%s\b" % re.escape(name))
    return any(rx.search(t) for t in _texts(nodes))


def _uses_outer(nodes, name):
    """is the variable `name` of the enclosing scope used in `nodes`?  (a loop that declares its own `name` hides it)"""
    rx = re.compile(r"\b%s\b" % re.escape(name))
    for nd in nodes:
        if nd[0] == "stmt":
            if rx.search(nd[1]):
                return True
        elif nd[0] in ("for", "while"):
            if re.match(r"(?:const )?[\w:<>]+[ &]+%s[=:]" % re.escape(name), nd[1]):
                continue
            if rx.search(nd[1]) or _uses_outer(nd[2], name):
                return True
        elif nd[0] == "if":
            if rx.search(nd[1]) or _uses_outer(nd[2], name) or _uses_outer(nd[3], name):
                return True
    return False


def _map_tree(nodes, f):
    out = []
    for nd in nodes:
        if nd[0] == "stmt":
            out.append(("stmt", f(nd[1])))
        elif nd[0] in ("for", "while"):
            out.append((nd[0], f(nd[1]), _map_tree(nd[2], f)))
        elif nd[0] == "if":
            out.append(("if", f(nd[1]), _map_tree(nd[2], f), _map_tree(nd[3], f)))
        else:
            out.append(nd)
    return out


def _has_jump(nodes):
    return any(re.search(r"\b(continue|break|goto)\b", t) for t in _texts(nodes))


def _check_not_rebound(nodes, name, what):
    """after `name` has been given a fixed meaning: no second declaration, no assignment, no address taken"""
    n = re.escape(name)
    for t in _texts(nodes):
        for m in re.finditer(r"(\w+) %s\b" % n, t):
            if m.group(1) not in ("return", "else", "throw", "case"):
                raise TranslateError("%s: `%s` is declared a second time (%r)" % (what, name, t[:60]))
        if re.search(r"\w[&*]+%s\b(?=[=({:]|$)" % n, t):
            raise TranslateError("%s: `%s` is declared a second time (%r)" % (what, name, t[:60]))
        if re.search(r"\b%s(?:\+\+|--|[-+*/%%&|^]?=(?!=)|<<=|>>=)|(?:\+\+|--)%s\b|(?<![&\w)\]])&%s\b" % (n, n, n), t):
            raise TranslateError("%s: `%s` is modified after its declaration (%r)" % (what, name, t[:60]))


def _subst(nodes, name, repl, what):
    _check_not_rebound(nodes, name, what)
    atomic = re.fullmatch(r"[\w.:>-]+(?:\(\))?|(?:\w+|\(\*\w+\))(?:\[\w+\])*", repl) is not None   # a postfix expression
    r = repl if atomic else "(" + repl + ")"
    return _map_tree(nodes, lambda t: re.sub(r"(?<![\w.>])%s\b(?!\()" % re.escape(name), lambda m: r, t))


def _while_to_for(nodes, what):
    out = []
    for nd in nodes:
        if nd[0] in ("for", "while"):
            nd = (nd[0], nd[1], _while_to_for(nd[2], what))
        elif nd[0] == "if":
            nd = ("if", nd[1], _while_to_for(nd[2], what), _while_to_for(nd[3], what))
        if nd[0] == "while":
            body = nd[2]
            conv = None
            if body and body[-1][0] == "stmt" and not _has_jump(body):
                m = re.fullmatch(r"(?:\+\+|--)(\w+)|(\w+)(?:\+\+|--|\+=1|-=1)", body[-1][1])
                v = m and (m.group(1) or m.group(2))
                if v and re.search(r"\b%s\b" % v, nd[1]):
                    conv = ("for", ";%s;%s" % (nd[1], body[-1][1]), body[:-1])
            if conv is None and body and body[0][0] == "stmt":
                m = re.fullmatch(r"--(\w+)|(\w+)(?:--|-=1)", body[0][1])
                v = m and (m.group(1) or m.group(2))
                if v and re.search(r"\b%s\b" % v, nd[1]):
                    conv = ("for", ";%s;" % nd[1], body)         # the `for (i = n; i > 0; ) { --i; ...` idiom
            if conv is None:
                raise TranslateError("%s: while loop outside the grammar: %r" % (what, nd[1]))
            nd = conv
        # `for (T v = S; C; ) { B; v++ }` without jumps -> increment into the header
        if nd[0] == "for" and nd[1].count(";") == 2 and nd[1].endswith(";") and nd[2] and nd[2][-1][0] == "stmt" \
                and not _has_jump(nd[2]):
            m = re.fullmatch(r"\+\+(\w+)|(\w+)\+\+|(\w+)\+=1", nd[2][-1][1])
            v = m and (m.group(1) or m.group(2) or m.group(3))
            hv = re.match(r"(?:const )?(?:[\w:]+) (\w+)=", nd[1])
            if v and (nd[1].startswith(";") or (hv and hv.group(1) == v)) and re.search(r"\b%s\b" % v, nd[1].split(";")[1]):
                nd = ("for", nd[1] + nd[2][-1][1], nd[2][:-1])
        out.append(nd)
    # merge `T v = S;` with a directly following `for (; C; inc)` when v is not used afterwards
    res = []
    i = 0
    while i < len(out):
        nd = out[i]
        if (nd[0] == "stmt" and i + 1 < len(out) and out[i + 1][0] == "for" and out[i + 1][1].startswith(";")):
            m = re.fullmatch(r"((?:[\w:]+) (\w+)=[^;=]+)", nd[1])
            if m and re.search(r"\b%s\b" % m.group(2), out[i + 1][1]) and not _uses_outer(out[i + 2:], m.group(2)):
                res.append(("for", m.group(1) + out[i + 1][1], out[i + 1][2]))
                i += 2
                continue
        res.append(nd)
        i += 1
    return res


def _inline_names(nodes, ctx, what):
    seqs = ctx["seqs"]
    atom = "|".join(ctx["size_atoms"] + [r"%s\.size\(\)" % re.escape(q) for q in seqs] + [r"\d+"])
    size_expr = re.compile(r"(?:%s)(?:[-+](?:%s))*" % (atom, atom))
    iter_expr = re.compile(r"(?:%s)\.(?:begin|end|cbegin|cend)\(\)" % "|".join(re.escape(q) for q in seqs)) if seqs else None
    out = list(nodes)
    i = 0
    while i < len(out):
        nd = out[i]
        if nd[0] == "stmt":
            m = re.fullmatch(r"(const )?(?:size_type|std::size_t|int|unsigned|unsigned int|long|std::ptrdiff_t|auto)( const)? (\w+)"
                             r"(?:=(.+)|\((.+)\))", nd[1])
            if m:
                name = m.group(3)
                e = m.group(4) if m.group(4) is not None else m.group(5)
                e = re.sub(r"\bthis->", "", e)
                ok = size_expr.fullmatch(e) or (iter_expr is not None and iter_expr.fullmatch(e)
                                               and (m.group(1) or m.group(2)))
                if ok and not (m.group(1) or m.group(2)):
                    try:
                        _check_not_rebound(out[i + 1:], name, what)
                    except TranslateError:
                        ok = False          # a variable, not a name for the size: left to the matcher
                if ok:
                    rest = _subst(out[i + 1:], name, e.replace(".cbegin()", ".begin()").replace(".cend()", ".end()"), what)
                    out = out[:i] + rest
                    continue
            # a reference that only names a row / an entry (`auto& Ak = A[k];`): the same object as long as the index
            # variables are not modified while the name is in use (checked); copies are NOT inlined (the entry may change)
            m = re.fullmatch(r"(?:const )?(?:auto|[\w:]+)&(\w+)=((?:A|\(\*this\)|\(\*rhs_\)|rhs|x|b|pivot_|pivot|diag_)"
                             r"(?:\[\w+\]){1,2})", nd[1])
            if m and not re.fullmatch(r"V1&rhs=x", nd[1]):
                rest = out[i + 1:]
                for ix in re.findall(r"\[(\w+)\]", m.group(2)):
                    if not ix.isdigit():
                        _check_not_rebound(rest, ix, what)
                out = out[:i] + _subst(rest, m.group(1), m.group(2), what)
                continue
        if nd[0] in ("for", "while"):
            out[i] = (nd[0], nd[1], _inline_names(nd[2], ctx, what))
        elif nd[0] == "if":
            out[i] = ("if", nd[1], _inline_names(nd[2], ctx, what), _inline_names(nd[3], ctx, what))
        i += 1
    return out


def _iter_uses(text, it, repl, what):
    """every use of the iterator `it` in `text` must be a plain dereference; -> text with `*it` replaced"""
    good = re.compile(r"(?<!\+\+)(?<!--)\(?\*%s\b\)?(?!\+\+|--|\[|\.|->)" % re.escape(it))

    def one(m):
        g = m.group(0)
        if g.startswith("(") != g.endswith(")"):
            g2 = g.strip("()")
            return g.replace(g2, repl)
        return repl
    n_all = len(re.findall(r"\b%s\b" % re.escape(it), text))
    if len(good.findall(text)) != n_all:
        raise TranslateError("%s: use of the iterator `%s` outside the grammar: %r" % (what, it, text[:70]))
    return good.sub(one, text)


def _seq_size(ctx, q):
    return ctx["seqs"][q]


def _norm_iters(nodes, ctx, what):
    seqs = ctx["seqs"]
    out = []
    nodes = list(nodes)
    i = 0
    while i < len(nodes):
        nd = nodes[i]
        if nd[0] == "for":
            nd = ("for", nd[1], _norm_iters(nd[2], ctx, what))
        elif nd[0] == "if":
            nd = ("if", nd[1], _norm_iters(nd[2], ctx, what), _norm_iters(nd[3], ctx, what))
        # ---- range-for
        if nd[0] == "for" and ";" not in nd[1]:
            m = re.fullmatch(r"(const )?(?:auto|K|field_type|value_type|int|size_type|std::size_t)(&&|&| )(\w+):(.+)", nd[1])
            if not m:
                raise TranslateError("%s: loop header outside the grammar: %r" % (what, nd[1]))
            cst, ref, v, rng = m.groups()
            mr = re.fullmatch(r"(?:Dune::)?range\((.+)\)", rng)
            if mr and ref == " ":
                a = split_args(mr.group(1))
                if len(a) not in (1, 2):
                    raise TranslateError("%s: range() with %d arguments" % (what, len(a)))
                lo, hi = ("0", a[0]) if len(a) == 1 else (a[0], a[1])
                _check_not_rebound(nd[2], v, what)
                nd = ("for", "int %s=%s;%s<%s;%s++" % (v, lo, v, hi, v), nd[2])
            elif rng in seqs:
                if ref == " " or cst:
                    # a copy / const reference of the entry: reads only
                    _check_not_rebound(nd[2], v, what)
                idx = v + "_idx"
                if _mentions(nd[2], idx):
                    raise TranslateError("%s: name clash %s" % (what, idx))
                for t in _texts(nd[2]):
                    if re.search(r"(?<![&\w)\]])&%s\b" % re.escape(v), t):
                        raise TranslateError("%s: address of the range-for variable taken" % what)
                body = _map_tree(nd[2], lambda t: re.sub(r"(?<![\w.>])%s\b" % re.escape(v), "%s[%s]" % (rng, idx), t))
                nd = ("for", "int %s=0;%s<%s;%s++" % (idx, idx, _seq_size(ctx, rng), idx), body)
            else:
                raise TranslateError("%s: range-for over %r outside the grammar" % (what, rng))
        # ---- iterator declared in a for header: `auto it=S.begin();it!=S.end();++it`
        if nd[0] == "for" and nd[1].count(";") == 2:
            init, cond, inc = nd[1].split(";")
            m = re.fullmatch(r"(?:auto|[\w:<>,]*[Ii]terator) (\w+)=(\w+)\.c?begin\(\)(?:\+(\d+))?", init)
            if m and m.group(2) in seqs:
                nd = _iter_loop(nd, m.group(1), m.group(2), int(m.group(3) or 0), "", cond, inc, ctx, what)
        # ---- iterator declared as a statement: symbolic position along the following siblings
        if nd[0] == "stmt":
            m = (re.fullmatch(r"(?:auto|[\w:<>,]*[Ii]terator) (\w+)=(\w+)\.c?begin\(\)(?:\+(\d+))?", nd[1])
                 or re.fullmatch(r"(?:auto|[\w:<>,]*[Ii]terator) (\w+)=std::next\((\w+)\.c?begin\(\)(?:,(\d+))?\)", nd[1]))
            if m and m.group(2) in seqs:
                it, q = m.group(1), m.group(2)
                if "std::next" in nd[1]:
                    pos = int(m.group(3) or 1)
                else:
                    pos = int(m.group(3) or 0)
                rest = []
                for r in nodes[i + 1:]:
                    if not _mentions([r], it):
                        rest.append(r)
                        continue
                    if pos is None:
                        raise TranslateError("%s: iterator `%s` used after its loop" % (what, it))
                    if r[0] == "stmt":
                        mi = re.fullmatch(r"\+\+%s|%s\+\+|%s\+=(\d+)|std::advance\(%s,(\d+)\)" % (it, it, it, it), r[1])
                        if mi:
                            pos += int(mi.group(1) or mi.group(2) or 1)
                            continue
                        rest.append(("stmt", _iter_uses(r[1], it, "%s[%d]" % (q, pos), what)))
                    elif r[0] == "for" and r[1].count(";") == 2:
                        init, cond, inc = r[1].split(";")
                        mi = re.fullmatch(r"\+\+%s|%s\+\+|" % (it, it), init)
                        if not mi:
                            raise TranslateError("%s: iterator loop header outside the grammar: %r" % (what, r[1]))
                        if init:
                            pos += 1
                        rest.append(_iter_loop(r, it, q, pos, None, cond, inc, ctx, what))
                        pos = None
                    else:
                        raise TranslateError("%s: use of the iterator `%s` outside the grammar" % (what, it))
                out.extend(_norm_iters(rest, ctx, what))
                return out
        out.append(nd)
        i += 1
    return out


def _iter_loop(nd, it, q, pos, _unused, cond, inc, ctx, what):
    if pos > 1:
        raise TranslateError("%s: iterator loop starting at position %d" % (what, pos))
    e = r"%s\.c?end\(\)" % re.escape(q)
    if not (re.fullmatch(r"%s(?:!=|<)%s" % (it, e), cond) or re.fullmatch(r"%s(?:!=|>)%s" % (e, it), cond)):
        raise TranslateError("%s: iterator loop condition outside the grammar: %r" % (what, cond))
    if not re.fullmatch(r"\+\+%s|%s\+\+" % (it, it), inc):
        raise TranslateError("%s: iterator loop increment outside the grammar: %r" % (what, inc))
    idx = it + "_idx"
    if _mentions(nd[2], idx):
        raise TranslateError("%s: name clash %s" % (what, idx))
    body = _map_tree(nd[2], lambda t: _iter_uses(t, it, "%s[%s]" % (q, idx), what))
    return ("for", "int %s=%d;%s<%s;%s++" % (idx, pos, idx, _seq_size(ctx, q), idx), body)


# ---- round five: private helper functions are inlined at their call sites; std::iota / std::accumulate over a known
# sequence are rewritten as the hand loop

KNOWN_CALLS = ("swap", "func", "DUNE_THROW", "luDecomposition", "DUNE_ASSERT_BOUNDS", "assert", "elim", "return")
VALUE_PARAM = r"(?:const )?(?:size_type|std::size_t|int|bool|simd_index_type|field_type|real_type|K|typename \w+::size_type)(?: const)?"


def _helper_defs(src, name):
    """definitions `void name(params) [const] { body }` in the source -> [(params text, body text)]"""
    out = []
    for m in re.finditer(r"\bvoid\s+(?:DenseMatrix<MAT>::)?%s\s*\(([^()]*)\)\s*(?:const\s*)?\{" % re.escape(name), src):
        p = m.end() - 1
        out.append((m.group(1), src[p + 1:match_brace(src, p)]))
    return out


def _inline_helpers(nodes, src, what, depth=0):
    out = []
    for nd in nodes:
        if nd[0] in ("for", "while"):
            nd = (nd[0], nd[1], _inline_helpers(nd[2], src, what, depth))
        elif nd[0] == "if":
            nd = ("if", nd[1], _inline_helpers(nd[2], src, what, depth), _inline_helpers(nd[3], src, what, depth))
        elif nd[0] == "stmt":
            m = re.fullmatch(r"(?:this->|MAT::|AutonomousValue<MAT>::|DenseMatrix<MAT>::|DenseMatrix::)?([A-Za-z_]\w*)\((.*)\)", nd[1])
            if m and m.group(1) not in KNOWN_CALLS:
                defs = _helper_defs(src, m.group(1))
                if len(defs) == 1:
                    if depth >= 3:
                        raise TranslateError("%s: helper functions nested deeper than 3" % what)
                    out.extend(_inline_one(m.group(1), m.group(2), defs[0], src, what, depth))
                    continue
        out.append(nd)
    return out


def _inline_one(name, argtext, definition, src, what, depth):
    W = "%s: helper %s" % (what, name)
    ptext, body = definition
    params = []
    for q in split_args(normalize(ptext)) if ptext.strip() else []:
        mm = re.fullmatch(r"(.*?)(&?)(\w+)", q)
        if not mm:
            raise TranslateError("%s: parameter %r outside the grammar" % (W, q))
        ty, ref, pn = mm.group(1).strip(), mm.group(2), mm.group(3)
        if not ref and not re.fullmatch(VALUE_PARAM, ty):
            raise TranslateError("%s: by-value parameter of type %r (a copy) outside the grammar" % (W, ty))
        params.append((pn, bool(ref)))
    args = split_args(argtext) if argtext else []
    if len(args) != len(params):
        raise TranslateError("%s: called with %d arguments, defined with %d" % (W, len(args), len(params)))
    tree = _while_to_for(parse_seq(normalize(body)), W)
    if any(re.search(r"\breturn\b", t) for t in _texts(tree)):
        raise TranslateError("%s: a helper with a return statement is outside the grammar" % W)
    refargs = [a for (pn, r), a in zip(params, args) if r]
    for (pn, r), a in zip(params, args):
        if r:
            if not re.fullmatch(r"\w+|\*this|\(\*\w+\)|\w+\[\w+\]", a):
                raise TranslateError("%s: argument %r for the reference parameter %s outside the grammar" % (W, a, pn))
        else:
            if not re.fullmatch(r"\w+|A\.rows\(\)|rows\(\)", a) or a in refargs:
                raise TranslateError("%s: argument %r for the value parameter %s outside the grammar" % (W, a, pn))
            _check_not_rebound(tree, pn, W)         # a modified by-value parameter would be a private copy
        for ident in re.findall(r"[A-Za-z_]\w*", a):
            if ident not in ("this",) and ident not in [q for q, _ in params]:
                _check_not_rebound(tree, ident, W)  # the helper must not declare a name that occurs in the arguments
    # simultaneous substitution through placeholders
    for k, (pn, r) in enumerate(params):
        tree = _map_tree(tree, lambda t, pn=pn, k=k: re.sub(r"(?<![\w.>])%s\b(?!\()" % re.escape(pn), "__P%d__" % k, t))
    for k, a in enumerate(args):
        a2 = "(*this)" if a == "*this" else a
        tree = _map_tree(tree, lambda t, a2=a2, k=k: t.replace("__P%d__" % k, a2))
    for (pn, r), a in zip(params, args):
        if r:
            for ix in re.findall(r"\[(\w+)\]", a):
                if not ix.isdigit():
                    _check_not_rebound(tree, ix, W)
    return _inline_helpers(tree, src, what, depth + 1)


def _std_algos(nodes, ctx, what):
    seqs = ctx["seqs"]
    out = []
    for nd in nodes:
        if nd[0] in ("for", "while"):
            nd = (nd[0], nd[1], _std_algos(nd[2], ctx, what))
        elif nd[0] == "if":
            nd = ("if", nd[1], _std_algos(nd[2], ctx, what), _std_algos(nd[3], ctx, what))
        elif nd[0] == "stmt":
            m = re.fullmatch(r"std::iota\((\w+)\.begin\(\),(\w+)\.end\(\),(?:0|\w+\(0\))\)", nd[1])
            if m and m.group(1) == m.group(2) and m.group(1) in seqs:
                q = m.group(1)
                nd = ("for", "int iota_idx=0;iota_idx<%s;iota_idx++" % seqs[q], [("stmt", "%s[iota_idx]=iota_idx" % q)])
            m = re.fullmatch(r"(return |(?:const )?(?:K|field_type|auto) (\w+)=)std::accumulate\((?:(\w+)\.begin\(\)\+1|std::next\((\w+)\.begin\(\)\)),"
                             r"(\w+)\.end\(\),(\w+)\[0\],std::multiplies<\w*>\(\)\)", nd[1])
            if m:
                q = m.group(3) or m.group(4)
                if q in seqs and m.group(5) == q and m.group(6) == q:
                    v = m.group(2) or "acc_result"
                    out.append(("stmt", "K %s=%s[0]" % (v, q)))
                    out.append(("for", "int acc_idx=1;acc_idx<%s;acc_idx++" % seqs[q], [("stmt", "%s*=%s[acc_idx]" % (v, q))]))
                    if m.group(1) == "return ":
                        out.append(("stmt", "return " + v))
                    continue
        out.append(nd)
    return out


def ntree(text, what, ctx, src=None):
    """function body text -> normalised statement tree (significant statements only)"""
    t = normalize(text)
    t = re.sub(r"\bthis->(?=\w+\()", "", t)          # `this->rows()`: a member call (a local cannot shadow a call)
    nodes = parse_seq(t)
    nodes = _while_to_for(nodes, what)
    if src is not None:
        nodes = _inline_helpers(nodes, src, what)
    nodes = _std_algos(nodes, ctx, what)
    nodes = _inline_names(nodes, ctx, what)
    nodes = _norm_iters(nodes, ctx, what)
    if ctx is DIAG_CTX:
        nodes = _map_tree(nodes, lambda s: re.sub(r"\bdiag_\.size\(\)", "n", s))
    return significant(nodes)


ROWS = r"(?:A\.rows\(\)|rows\(\)|n|pivot_\.size\(\))"


def loop_header(head, what):
    """`T v=S;v<B;v++` -> (var, start, cond, direction) with the bound canonicalised to `n`"""
    m = re.fullmatch(r"(?:const )?(?:[\w:]+) (\w+)=([^;]*);([^;]*);([^;]*)", head)
    if not m:
        raise TranslateError("%s: loop header outside the grammar: %r" % (what, head))
    v, start, cond, inc = m.groups()
    if inc in (v + "++", "++" + v, v + "+=1", "%s=%s+1" % (v, v), "%s=1+%s" % (v, v)):
        d = "up"
    elif inc in (v + "--", "--" + v, v + "-=1", "%s=%s-1" % (v, v)):
        d = "down"
    elif inc == "":
        d = "body"
    else:
        raise TranslateError("%s: loop increment outside the grammar: %r" % (what, inc))
    # round five: the loop variable on the right-hand side of the comparison (`n > i`  ==  `i < n`)
    mc = re.fullmatch(r"(.+?)(<=|>=|<|>|!=)(\w+)", cond)
    if mc and mc.group(3) == v and not re.search(r"\b%s\b" % re.escape(v), mc.group(1)):
        cond = v + {"<": ">", ">": "<", "<=": ">=", ">=": "<=", "!=": "!="}[mc.group(2)] + mc.group(1)
    # an upward loop from 0 in steps of one reaches every bound: `i != B`  ==  `i < B`
    mc = re.fullmatch(r"%s!=(.+)" % re.escape(v), cond)
    if mc and d == "up" and start == "0" and not re.search(r"\b%s\b" % re.escape(v), mc.group(1)):
        cond = v + "<" + mc.group(1)
    canon = lambda t: re.sub(ROWS, "n", t)
    return v, canon(start), canon(cond), d


class Ren:
    """renaming of loop variables / locals to the canonical names the generated text uses"""

    def __init__(self):
        self.map = {}

    def bind(self, actual, canon):
        self.map[actual] = canon

    def __call__(self, text):
        return re.sub(r"[A-Za-z_]\w*", lambda m: self.map.get(m.group(0), m.group(0)), text)


def expect_loop(node, ren, canon_var, want_start, want_cond, want_dir, what):
    if node[0] != "for":
        raise TranslateError("%s: expected a for loop, found %r" % (what, node[:2]))
    v, start, cond, d = loop_header(node[1], what)
    start = ren(start)
    ren.bind(v, canon_var)
    cond = ren(cond)
    return (canon_var, start, cond, d)


def kernel(name, text, atoms, params, what, doc, ret="K", classes=None):
    """text: an expression over the atoms (regex -> parameter name); emits a Lean definition"""
    t = text
    for rx, pn in atoms:
        t = re.sub(rx, " " + pn + " ", t)
    blk = Block(0, what, None)
    blk.locals = set(params)
    try:
        e = blk.full_expr(tokenize(t))
    except TranslateError as ex:
        raise TranslateError("%s: right-hand side %r outside the grammar (%s)" % (what, text, ex))
    return "/-- %s -/\ndef %s %s (%s : K) : %s :=\n  %s" % (
        doc, name, classes or CLASSES, " ".join("v_" + q for q in params), ret, e)


def compound(stmt, what):
    """`L op= R` / `L = R` -> (L, expression text with the compound operator spelled out)"""
    m = re.fullmatch(r"(.+?)([-+*/]?)=(?!=)(.+)", stmt)
    if not m or m.group(1).endswith(("<", ">", "!", "=")):
        raise TranslateError("%s: assignment expected, found %r" % (what, stmt))
    lhs, op, rhs = m.groups()
    if op:
        return lhs, "(%s)%s(%s)" % (lhs, op, rhs)
    return lhs, rhs


def cond_kernel(name, text, args, what, doc, ty="K", lits=None):
    """`Simd::cond(M, X, Y)` with X, Y among `args` (dict source text -> Lean text)"""
    m = re.fullmatch(r"Simd::cond\((.+)\)", text)
    if not m:
        raise TranslateError("%s: Simd::cond(...) expected, found %r" % (what, text))
    parts = split_args(m.group(1))
    if len(parts) != 3:
        raise TranslateError("%s: Simd::cond with %d arguments" % (what, len(parts)))
    return parts


def split_args(s):
    out, depth, cur = [], 0, ""
    for c in s:
        if c in "([<" and not (c == "<" and depth == 0 and False):
            depth += 1 if c != "<" else 0
        if c in ")]":
            depth -= 1
        if c == "," and depth == 0:
            out.append(cur)
            cur = ""
        else:
            cur += c
    out.append(cur)
    return out


def lean_str_list(xs):
    return "[" + ", ".join('"%s"' % x for x in xs) + "]"


def lean_loops(loops):
    return "[" + ", ".join('("%s", "%s", "%s", "%s")' % l for l in loops) + "]"


def lane_swap(node, ren, what):
    """`for (l < Simd::lanes(..)) swap(Simd::lane(l, X), Simd::lane(l, Y))` or plain `swap(X, Y)` -> (X, Y) canonical;
    `Simd::lane(l, e)` inside X, Y is replaced by e (one lane)"""
    if node[0] == "for":
        m = re.fullmatch(r"std::size_t (\w+)=0;\1<Simd::lanes\([^;]*\);(?:\+\+\1|\1\+\+)", node[1])
        inner = node[2]
        if m and len(inner) == 1 and inner[0][0] == "if" and not inner[0][3] and len(inner[0][2]) == 1:
            # `if (Simd::lane(l, a) != b) swap(...)`: a guard that only skips exchanging something with itself
            g = re.fullmatch(r"Simd::lane\(%s,(\w+)\)!=(\w+)|(\w+)!=Simd::lane\(%s,(\w+)\)" % (m.group(1), m.group(1)), inner[0][1])
            if not g:
                raise TranslateError("%s: guard inside the lane loop outside the grammar: %r" % (what, inner[0][1]))
            guard = {ren(x) for x in g.groups() if x}
            inner = inner[0][2]
        else:
            guard = None
        if not m or len(inner) != 1 or inner[0][0] != "stmt":
            raise TranslateError("%s: lane loop outside the grammar: %r" % (what, node[1]))
        lv = m.group(1)
        st = inner[0][1]
        if guard is not None:
            mm = re.fullmatch(r"(?:std::)?swap\((.+)\)", st)
            idx = set()
            if mm:
                for a in split_args(mm.group(1)):
                    a = ren(re.sub(r"Simd::lane\(%s,(\w+)\)" % lv, r"\1", re.sub(r"^Simd::lane\(%s,(.+)\)$" % lv, r"\1", a)))
                    k = re.match(r"(?:A|\(\*rhs_\))\[(\w+)\]", a)
                    if k:
                        idx.add(k.group(1))
            if idx != guard:
                raise TranslateError("%s: the guard %r does not compare the two exchanged rows %r" % (what, sorted(guard), sorted(idx)))
    elif node[0] == "stmt":
        lv = None
        st = node[1]
    else:
        raise TranslateError("%s: swap statement expected" % what)
    m = re.fullmatch(r"(?:std::)?swap\((.+)\)", st)
    if not m:
        raise TranslateError("%s: swap(...) expected, found %r" % (what, st))
    parts = split_args(m.group(1))
    if len(parts) != 2:
        raise TranslateError("%s: swap with %d arguments" % (what, len(parts)))

    def unlane(t):
        if lv is None:
            return t
        prev = None
        while prev != t:
            prev = t
            t = re.sub(r"Simd::lane\(%s,([^(),]*(?:\([^()]*\))?[^(),]*)\)" % lv, r"\1", t)
        return t
    return tuple(ren(unlane(x)) for x in parts)


ON_SINGULAR_ATOMS = (("throwEarly", "te"), ("Simd::allTrue(nonsingularLanes)", "al"), ("Simd::anyTrue(nonsingularLanes)", "an"))


def _bool_cond(c, env, what):
    t = c
    for src, nm in ON_SINGULAR_ATOMS:
        t = t.replace(src, " %s " % nm)
    t = t.replace("&&", " and ").replace("||", " or ")
    t = re.sub(r"!(?!=)", " not ", t)
    t = re.sub(r"==\s*true\b", "", t)
    if not re.fullmatch(r"(?:\s|\(|\)|\b(?:te|al|an|and|or|not)\b)*", t):
        raise TranslateError("%s: condition %r outside the grammar of the singular-lane block" % (what, c))
    try:
        return bool(eval(t, {"__builtins__": {}}, dict(env)))
    except Exception:
        raise TranslateError("%s: condition %r outside the grammar of the singular-lane block" % (what, c))


def _run_singular(nodes, env, what):
    for nd in nodes:
        if nd[0] == "if":
            r = _run_singular(nd[2] if _bool_cond(nd[1], env, what) else nd[3], env, what)
            if r != "fall":
                return r
        elif nd[0] == "stmt" and re.fullmatch(r"DUNE_THROW\(FMatrixError,.*\)", nd[1]):
            return "throw"
        elif nd[0] == "stmt" and nd[1] == "return":
            return "return"
        else:
            raise TranslateError("%s: statement %r outside the grammar of the singular-lane block" % (what, nd[1][:60]))
    return "fall"


def on_singular_table(nodes, what):
    """the block between the singularity test and the elimination loop as a decision table over
    (throwEarly, all lanes nonsingular, some lane nonsingular); `all and not some` cannot happen (at least one lane)"""
    tab = []
    for te in (False, True):
        for al in (False, True):
            for an in (False, True):
                if al and not an:
                    continue
                tab.append(_run_singular(nodes, {"te": te, "al": al, "an": an}, what))
    return tuple(tab)


ON_SINGULAR_CANON = ("return", "fall", "fall", "throw", "throw", "fall")


SIGNED_TYPES = ("int", "long", "std::ptrdiff_t", "ptrdiff_t", "std::int64_t", "int64_t", "std::make_signed_t<size_type>")


def down_loop(node, ren, what):
    """round five: the three spellings of a loop over n-1, n-2, ..., 0
         A  `for (int i = n-1; i >= 0; i--) body`                 (signed counter only: an unsigned one never ends)
         B  `for (size_type i = n; i > 0; ) { --i; body }`        (also written as a while loop)
         C  `for (size_type i = n; i-- > 0; ) body`
       -> the one canonical header ("i", "n-1", "i>=0", "down") and the body without the leading decrement"""
    if node[0] != "for":
        raise TranslateError("%s: expected a for loop, found %r" % (what, node[:2]))
    m = re.fullmatch(r"(?:const )?([\w:<>]+) (\w+)=([^;]*);([^;]*);([^;]*)", node[1])
    if not m:
        raise TranslateError("%s: loop header outside the grammar: %r" % (what, node[1]))
    ty, v, start, cond, inc = m.groups()
    canon = lambda t: re.sub(ROWS, "n", t)
    start = canon(ren(start))
    ren.bind(v, "i")
    cond = canon(ren(cond))
    cond = {"0<=i": "i>=0", "0<i": "i>0", "0!=i": "i!=0", "0<i--": "i-->0"}.get(cond, cond)
    inc = ren(inc)
    bb = significant(node[2])
    if inc in ("i--", "--i", "i-=1", "i=i-1") and cond == "i>=0":
        if ty not in SIGNED_TYPES:
            raise TranslateError("%s: count-down loop `%s` with a counter of type %s (i >= 0 never fails for an unsigned "
                                 "counter)" % (what, node[1], ty))
        return ("i", start, "i>=0", "down"), bb
    if inc == "" and cond in ("i>0", "i!=0") and bb and bb[0][0] == "stmt" and ren(bb[0][1]) in ("--i", "i--", "i-=1", "i=i-1"):
        return ("i", start + "-1", "i>=0", "down"), bb[1:]
    if inc == "" and cond == "i-->0":
        return ("i", start + "-1", "i>=0", "down"), bb
    raise TranslateError("%s: count-down loop outside the grammar: %r" % (what, node[1]))


def translate_lu(dm, diag):
    out = []
    dmn = dm

    # ---------------- luDecomposition ----------------
    body = function_body(dmn, r"luDecomposition\s*\(\s*DenseMatrix<MAT>\s*&\s*A\s*,\s*Func\s+func\s*,\s*Mask\s*&\s*nonsingularLanes\s*,"
                              r"\s*bool\s+throwEarly\s*,\s*bool\s+doPivoting\s*\)(?=\s*\{)", "luDecomposition")
    top = ntree(body, "luDecomposition", DENSE_CTX, dmn)
    W = "luDecomposition"
    # a hoisted constant zero of the pivot type: `const real_type zero(0);` / `= 0` / `= real_type(0)`
    zero_names = []
    for nd in list(top):
        mz = nd[0] == "stmt" and re.fullmatch(r"(?:const |constexpr )?real_type (\w+)(?:\(0(?:\.0*)?\)|=0(?:\.0*)?|=real_type\(0(?:\.0*)?\))", nd[1])
        if mz:
            zero_names.append(mz.group(1))
            top.remove(nd)
    if len(top) != 1:
        raise TranslateError("%s: expected exactly one outer loop, found %d statements" % (W, len(top)))
    ren = Ren()
    loops = [expect_loop(top[0], ren, "i", None, None, None, W)]
    ob = significant(top[0][2])
    if len(ob) < 5:
        raise TranslateError("%s: outer loop body has %d statements (expected pivmax, if(doPivoting), singularity test, "
                             "if(throwEarly), elimination loop)" % (W, len(ob)))
    # round five: everything between the singularity test and the elimination loop is the reaction to a singular lane;
    # it is compared as a decision table (see on_singular_table), so guard clauses / nested ifs / merged conditions agree
    ob = ob[:3] + [("singular-block", ob[3:-1])] + [ob[-1]]
    # (1) real_type pivmax = fvmeta::absreal(A[i][i]);
    m = ob[0][0] == "stmt" and re.fullmatch(r"(?:real_type|auto) (\w+)=fvmeta::absreal\((.+)\)", ob[0][1])
    if not m or ren(m.group(2)) != "A[i][i]":
        raise TranslateError("%s: first statement of the outer loop outside the grammar: %r" % (W, ob[0][1:2]))
    ren.bind(m.group(1), "pivmax")
    # (2) if (doPivoting) { imax = i; search loop; row swap loop; func.swap(i, imax); }
    if ob[1][0] != "if" or ob[1][1] != "doPivoting" or ob[1][3]:
        raise TranslateError("%s: `if (doPivoting)` without else expected as second statement" % W)
    pb = significant(ob[1][2])
    if len(pb) != 4:
        raise TranslateError("%s: pivoting block has %d statements (expected 4)" % (W, len(pb)))
    m = pb[0][0] == "stmt" and re.fullmatch(r"(?:simd_index_type|auto) (\w+)=(.+)", pb[0][1])
    if not m or ren(m.group(2)) not in ("i", "simd_index_type(i)"):
        raise TranslateError("%s: `simd_index_type imax=i` expected, found %r" % (W, pb[0][1:2]))
    ren.bind(m.group(1), "imax")
    r2 = Ren(); r2.map = dict(ren.map)
    search_loop = expect_loop(pb[1], r2, "k", None, None, None, W + " pivot search")
    sb = significant(pb[1][2])
    if len(sb) != 4 or any(x[0] != "stmt" for x in sb):
        raise TranslateError("%s: pivot search body has %d statements (expected abs, mask, pivmax, imax)" % (W, len(sb)))
    m = re.fullmatch(r"auto (\w+)=fvmeta::absreal\((.+)\)", sb[0][1])
    if not m or r2(m.group(2)) != "A[k][i]":
        raise TranslateError("%s: `auto abs = fvmeta::absreal(A[k][i])` expected, found %r" % (W, sb[0][1]))
    r2.bind(m.group(1), "abs")
    m = re.fullmatch(r"auto (\w+)=(\w+)(>=|>|<=|<)(\w+)", sb[1][1])
    if not m:
        raise TranslateError("%s: `auto mask = abs > pivmax` expected, found %r" % (W, sb[1][1]))
    r2.bind(m.group(1), "mask")
    l, op, r = r2(m.group(2)), m.group(3), r2(m.group(4))
    if {l, r} != {"abs", "pivmax"}:
        raise TranslateError("%s: pivot comparison between %s and %s" % (W, l, r))
    if l == "pivmax":            # pivmax < abs  ==  abs > pivmax
        op = {"<": ">", "<=": ">=", ">": "<", ">=": "<="}[op]
    leanop = {">": "v_pivmax < v_abs", ">=": "v_pivmax ≤ v_abs", "<": "v_abs < v_pivmax", "<=": "v_abs ≤ v_pivmax"}[op]
    cls = "{Q : Type} [LT Q] [DecidableLT Q] [LE Q] [DecidableLE Q]"
    out.append("/-- pivot search: `mask = %s` (candidate `abs` = |A[k][i]| against the running maximum) -/\n"
               "def luPivotBetter %s (v_abs v_pivmax : Q) : Bool :=\n  decide (%s)" % ("abs " + op + " pivmax", cls, leanop))
    # round five: the two updates read `mask` and their own old value only, so their order is irrelevant
    if compound(sb[2][1], W)[0] and r2(compound(sb[2][1], W)[0]) == "imax" and r2(compound(sb[3][1], W)[0]) == "pivmax":
        sb = sb[:2] + [sb[3], sb[2]]
    for idx, (target, a, b) in enumerate((("pivmax", "abs", "pivmax"), ("imax", "simd_index_type(k)", "imax"))):
        lhs, rhs = compound(sb[2 + idx][1], W)
        if r2(lhs) != target:
            raise TranslateError("%s: assignment to %s expected, found %r" % (W, target, sb[2 + idx][1]))
        parts = [r2(x) for x in cond_kernel(None, rhs, None, W, None)]
        parts = [re.sub(r"^simd_index_type\((\w+)\)$", r"\1", x) for x in parts]
        a = re.sub(r"^simd_index_type\((\w+)\)$", r"\1", a)
        if parts[0] != "mask" or set(parts[1:]) != {a, b}:
            raise TranslateError("%s: `%s = Simd::cond(mask, %s, %s)` expected, found %r" % (W, target, a, b, sb[2 + idx][1]))
        nm = "luPivmaxUpdate" if target == "pivmax" else "luImaxUpdate"
        out.append("/-- pivot search: `%s = Simd::cond(mask, %s, %s)` -/\n"
                   "def %s {α : Type} (v_mask : Bool) (v_new v_old : α) : α :=\n  if v_mask then %s else %s"
                   % (target, parts[1], parts[2], nm, "v_new" if parts[1] == a else "v_old",
                      "v_new" if parts[2] == a else "v_old"))
    r3 = Ren(); r3.map = dict(ren.map)
    loops.append(expect_loop(pb[2], r3, "j", None, None, None, W + " row swap"))
    rs = significant(pb[2][2])
    if len(rs) != 1:
        raise TranslateError("%s: row swap loop body has %d statements" % (W, len(rs)))
    sw = lane_swap(rs[0], r3, W + " row swap")
    out.append("/-- the row exchange: operands of the `swap` inside `for j` (one lane) -/\n"
               "def luRowSwap : List String := %s" % lean_str_list(sorted(sw)))
    m = pb[3][0] == "stmt" and re.fullmatch(r"func\.swap\((.+)\)", pb[3][1])
    if not m:
        raise TranslateError("%s: `func.swap(i, imax)` expected after the row swap, found %r" % (W, pb[3][1:2]))
    out.append("/-- arguments of `func.swap(...)` (called after the rows of A have been exchanged, only under doPivoting) -/\n"
               "def luFuncSwapArgs : List String := %s" % lean_str_list([ren(x) for x in split_args(m.group(1))]))
    # (3) nonsingularLanes = nonsingularLanes && (pivmax != real_type(0));
    st = ob[2][1] if ob[2][0] == "stmt" else ""
    ZERO = r"(?:real_type\(0(?:\.0*)?\)|0(?:\.0*)?%s)" % "".join("|" + re.escape(z) for z in zero_names)
    m = (re.fullmatch(r"nonsingularLanes=nonsingularLanes&&\((\w+)!=" + ZERO + r"\)", st)
         or re.fullmatch(r"nonsingularLanes=nonsingularLanes&&!\((\w+)==" + ZERO + r"\)", st)
         or re.fullmatch(r"nonsingularLanes=nonsingularLanes&&\(" + ZERO + r"!=(\w+)\)", st))
    if not m or ren(m.group(1)) != "pivmax":
        raise TranslateError("%s: singularity test outside the grammar: %r" % (W, st))
    out.append("/-- `nonsingularLanes = nonsingularLanes && (pivmax != real_type(0))` -/\n"
               "def luNonsingular {Q : Type} [BEq Q] [OfNat Q 0] (v_lanes : Bool) (v_pivmax : Q) : Bool :=\n"
               "  v_lanes && !(v_pivmax == 0)")
    # (4) if (throwEarly) { if(!allTrue) DUNE_THROW(FMatrixError, ..) } else { if(!anyTrue) return; }
    if on_singular_table(ob[3][1], W) != ON_SINGULAR_CANON:
        raise TranslateError("%s: the throwEarly / return block after the singularity test does not decide as "
                             "`throwEarly: throw unless all lanes nonsingular; otherwise: return when no lane is`" % W)
    out.append("/-- what happens when a lane is singular: (throwEarly, !throwEarly); the test sits between the row exchange "
               "and the elimination loop -/\ndef luOnSingular : List String := "
               + lean_str_list(["throw FMatrixError unless all lanes nonsingular", "return when no lane nonsingular"]))
    # (5) elimination loop
    r4 = Ren(); r4.map = dict(ren.map)
    loops.append(expect_loop(ob[4], r4, "k", None, None, None, W + " elimination"))
    eb = significant(ob[4][2])
    if len(eb) != 4:
        raise TranslateError("%s: elimination loop body has %d statements (expected factor, store, inner loop, func)" % (W, len(eb)))
    m = eb[0][0] == "stmt" and re.fullmatch(r"(?:const )?(?:field_type|auto) (\w+)=(.+)", eb[0][1])
    if not m:
        raise TranslateError("%s: `field_type factor = ...` expected, found %r" % (W, eb[0][1:2]))
    fexpr = r4(m.group(2))
    r4.bind(m.group(1), "factor")
    A2 = lambda a, b: (r"A\[%s\]\[%s\]" % (a, b), "a_%s%s" % (a, b))
    out.append(kernel("luFactor", fexpr, [A2("k", "i"), A2("i", "i")], ["a_ki", "a_ii"], W,
                      "`field_type factor = %s`" % fexpr))
    if eb[1][0] != "stmt" or r4(eb[1][1]) != "A[k][i]=factor":
        raise TranslateError("%s: `A[k][i] = factor` expected, found %r" % (W, eb[1][1:2]))
    loops.append(expect_loop(eb[2], r4, "j", None, None, None, W + " elimination (columns)"))
    ib = significant(eb[2][2])
    if len(ib) != 1 or ib[0][0] != "stmt":
        raise TranslateError("%s: inner elimination loop body outside the grammar" % W)
    lhs, rhs = compound(r4(ib[0][1]), W)
    if lhs != "A[k][j]":
        raise TranslateError("%s: update of A[k][j] expected, found %r" % (W, ib[0][1]))
    out.append(kernel("luUpdate", rhs, [A2("k", "j"), A2("i", "j"), (r"\bfactor\b", "fac")], ["a_kj", "fac", "a_ij"], W,
                      "`A[k][j] = %s`" % rhs))
    m = eb[3][0] == "stmt" and re.fullmatch(r"func\((.+)\)", eb[3][1])
    if not m:
        raise TranslateError("%s: `func(factor, k, i)` expected, found %r" % (W, eb[3][1:2]))
    out.append("/-- arguments of `func(...)` at the end of each row elimination -/\n"
               "def luFuncElimArgs : List String := %s" % lean_str_list([r4(x) for x in split_args(m.group(1))]))
    out.append("/-- the loops of luDecomposition in source order (outer, row exchange, elimination rows, elimination columns): "
               "(variable, start, condition, direction), names canonical, `n` = A.rows() -/\n"
               "def luLoops : List (String × String × String × String) := " + lean_loops(loops))
    out.append("/-- the pivot search loop (whether it starts at `i` or `i+1` makes no difference: row i is the initial candidate) -/\n"
               "def luSearchLoop : String × String × String × String := " + lean_loops([search_loop])[1:-1])

    # ---------------- the functors ----------------
    fb = normalize(function_body(dmn, r"DenseMatrix<MAT>::ElimPivot::ElimPivot\s*\(\s*std::vector<simd_index_type>\s*&\s*pivot\s*\)"
                                      r"\s*:\s*pivot_\s*\(\s*pivot\s*\)(?=\s*\{)", "ElimPivot::ElimPivot"))
    nodes = ntree(fb, "functor", DENSE_CTX, dmn)
    if len(nodes) != 1 or nodes[0][0] != "for":
        raise TranslateError("ElimPivot constructor: one loop expected")
    rr = Ren()
    lp = expect_loop(nodes[0], rr, "i", None, None, None, "ElimPivot constructor")
    bb = significant(nodes[0][2])
    if len(bb) != 1 or bb[0][0] != "stmt" or rr(bb[0][1]) != "pivot_[i]=i":
        raise TranslateError("ElimPivot constructor: `pivot_[i]=i` expected, found %r" % (bb[:1],))
    out.append("/-- ElimPivot constructor: the loop and `pivot_[i] = i` -/\n"
               "def elimPivotInitLoop : List (String × String × String × String) := %s\n"
               "def elimPivotInit (i : Nat) : Nat := i" % lean_loops([lp]))
    fb = normalize(function_body(dmn, r"DenseMatrix<MAT>::ElimPivot::swap\s*\(\s*std::size_t\s+i\s*,\s*simd_index_type\s+j\s*\)(?=\s*\{)",
                                 "ElimPivot::swap"))
    nodes = ntree(fb, "functor", DENSE_CTX, dmn)
    if len(nodes) != 1 or nodes[0][0] != "stmt":
        raise TranslateError("ElimPivot::swap: one statement expected")
    lhs, rhs = compound(nodes[0][1], "ElimPivot::swap")
    parts = cond_kernel(None, rhs, None, "ElimPivot::swap", None)
    c = parts[0]
    same = c in ("Simd::Scalar<simd_index_type>(i)==j", "simd_index_type(i)==j", "i==j", "j==i", "j==simd_index_type(i)")
    diff = c in ("Simd::Scalar<simd_index_type>(i)!=j", "simd_index_type(i)!=j", "i!=j", "j!=i")
    if lhs != "pivot_[i]" or not (same or diff) or set(parts[1:]) != {"pivot_[i]", "j"}:
        raise TranslateError("ElimPivot::swap: `pivot_[i] = Simd::cond(i == j, pivot_[i], j)` expected, found %r" % nodes[0][1])
    tr = {"pivot_[i]": "v_old", "j": "v_j"}
    a, b = (parts[1], parts[2]) if same else (parts[2], parts[1])
    out.append("/-- `ElimPivot::swap(i, j)`: `%s` (`v_same` = the condition `i == j`) -/\n"
               "def elimPivotSwap {α : Type} (v_same : Bool) (v_old v_j : α) : α :=\n  if v_same then %s else %s"
               % (nodes[0][1], tr[a], tr[b]))
    # Elim<V>::operator()
    ms = list(re.finditer(r"Elim<V>::operator\(\)\s*\(\s*const\s+typename\s+V::field_type\s*&\s*(\w+)\s*,\s*int\s+(\w+)\s*,\s*int\s+(\w+)\s*\)(?=\s*\{)", dmn))
    if len(ms) != 1:
        raise TranslateError("Elim<V>::operator(): expected exactly one definition, found %d" % len(ms))
    rr = Ren()
    for g, cn in zip(ms[0].groups(), ("factor", "k", "i")):
        rr.bind(g, cn)
    p = dmn.find("{", ms[0].end())
    fb = normalize(dmn[p + 1:match_brace(dmn, p)])
    nodes = ntree(fb, "functor", DENSE_CTX, dmn)
    if len(nodes) != 1 or nodes[0][0] != "stmt":
        raise TranslateError("Elim<V>::operator(): one statement expected")
    lhs, rhs = compound(rr(nodes[0][1]), "Elim<V>::operator()")
    if lhs != "(*rhs_)[k]":
        raise TranslateError("Elim<V>::operator(): update of (*rhs_)[k] expected, found %r" % nodes[0][1])
    out.append(kernel("elimRhsUpdate", rhs, [(r"\(\*rhs_\)\[k\]", "r_k"), (r"\(\*rhs_\)\[i\]", "r_i"), (r"\bfactor\b", "fac")],
                      ["r_k", "fac", "r_i"], "Elim<V>::operator()", "`Elim<V>::operator()(factor, k, i)`: `(*rhs_)[k] = %s`" % rhs))
    # Elim<V>::swap
    fb = normalize(function_body(dmn, r"DenseMatrix<MAT>::Elim<V>::swap\s*\(\s*std::size_t\s+i\s*,\s*simd_index_type\s+j\s*\)(?=\s*\{)",
                                 "Elim<V>::swap"))
    nodes = ntree(fb, "functor", DENSE_CTX, dmn)
    if len(nodes) != 1:
        raise TranslateError("Elim<V>::swap: one (lane-wise) swap expected, found %d statements" % len(nodes))
    sw = lane_swap(nodes[0], Ren(), "Elim<V>::swap")
    out.append("/-- `Elim<V>::swap(i, j)`: operands of the exchange (one lane) -/\n"
               "def elimRhsSwap : List String := %s" % lean_str_list(sorted(sw)))
    # ElimDet (inline in the class)
    m = re.search(r"struct\s+ElimDet\s*\{", dmn)
    if not m:
        raise TranslateError("struct ElimDet not found")
    cls_body = dmn[m.end():match_brace(dmn, m.end() - 1)]
    mc = re.search(r"ElimDet\s*\(\s*field_type\s*&\s*sign\s*\)\s*:\s*sign_\s*\(\s*sign\s*\)\s*\{([^{}]*)\}", cls_body)
    if not mc or normalize(mc.group(1)) not in ("sign_=1;", "sign_=field_type(1);"):
        raise TranslateError("ElimDet constructor: `sign_ = 1` expected")
    out.append("/-- ElimDet constructor: `sign_ = 1` -/\ndef elimDetInit %s : K := (1 : K)" % CLASSES)
    msw = re.search(r"void\s+swap\s*\(\s*std::size_t\s+i\s*,\s*simd_index_type\s+j\s*\)\s*\{", cls_body)
    if not msw:
        raise TranslateError("ElimDet::swap not found")
    fb = normalize(cls_body[msw.end():match_brace(cls_body, msw.end() - 1)])
    nodes = ntree(fb, "functor", DENSE_CTX, dmn)
    if len(nodes) != 1 or nodes[0][0] != "stmt":
        raise TranslateError("ElimDet::swap: one statement expected (control flow is outside the grammar)")
    lhs, rhs = compound(nodes[0][1], "ElimDet::swap")
    if lhs != "sign_":
        raise TranslateError("ElimDet::swap: assignment to sign_ expected")
    # rhs is  (sign_)*(Simd::cond(c, a, b))   or   Simd::cond(c, a, b)
    mm = re.fullmatch(r"\(sign_\)\*\((Simd::cond\(.+\))\)", rhs)
    pre = "v_sign * " if mm else ""
    parts = cond_kernel(None, mm.group(1) if mm else rhs, None, "ElimDet::swap", None)
    c = parts[0]
    same = c in ("simd_index_type(i)==j", "i==j", "j==i", "Simd::Scalar<simd_index_type>(i)==j", "j==simd_index_type(i)")
    diff = c in ("simd_index_type(i)!=j", "i!=j", "j!=i", "Simd::Scalar<simd_index_type>(i)!=j")
    if not (same or diff):
        raise TranslateError("ElimDet::swap: condition %r outside the grammar" % c)

    def sgn(t):
        blk = Block(0, "ElimDet::swap", None)
        blk.locals = {"sign"}
        return blk.full_expr(tokenize(re.sub(r"\bsign_\b", " sign ", t)))
    a, b = sgn(parts[1]), sgn(parts[2])
    if diff:
        a, b = b, a
    out.append("/-- `ElimDet::swap(i, j)`: `%s` (`v_same` = the condition `i == j`) -/\n"
               "def elimDetSwap %s (v_same : Bool) (v_sign : K) : K :=\n  %s(if v_same then %s else %s)"
               % (nodes[0][1], CLASSES, pre, a, b))
    for nm, rx in (("ElimPivot", r"struct\s+ElimPivot\s*\{"), ("ElimDet", r"struct\s+ElimDet\s*\{")):
        m = re.search(rx, dmn)
        cb = dmn[m.end():match_brace(dmn, m.end() - 1)]
        mo = re.search(r"void\s+operator\(\)\s*\(([^)]*)\)\s*\{([^{}]*)\}", cb)
        if not mo or mo.group(2).strip():
            raise TranslateError("%s::operator(): an empty body expected" % nm)

    # ---------------- the LU branches of solve / invert / determinant ----------------
    def lu_call(nodes, what):
        calls = [nd for nd in nodes if nd[0] == "stmt" and "luDecomposition(" in nd[1]]
        if len(calls) != 1:
            raise TranslateError("%s: expected exactly one call of luDecomposition, found %d" % (what, len(calls)))
        m = re.fullmatch(r"(?:AutonomousValue<MAT>::|MAT::)?luDecomposition\((.+)\)", calls[0][1])
        if not m:
            raise TranslateError("%s: call of luDecomposition outside the grammar: %r" % (what, calls[0][1]))
        args = split_args(m.group(1))
        if len(args) != 5:
            raise TranslateError("%s: luDecomposition called with %d arguments" % (what, len(args)))
        copies = [nd for nd in nodes if nd[0] == "stmt"
                  and re.fullmatch(r"(?:AutonomousValue<MAT>|MAT )%s\((?:asImp\(\)|\*this)\)" % re.escape(args[0]), nd[1])]
        iscopy = len(copies) == 1 and nodes.index(copies[0]) < nodes.index(calls[0])
        if args[3] not in ("true", "false"):
            raise TranslateError("%s: throwEarly argument %r is not a literal" % (what, args[3]))
        masks = [nd for nd in nodes if nd[0] == "stmt" and re.fullmatch(r"Simd::Mask<.*>%s\(true\)" % re.escape(args[2]), nd[1])]
        if len(masks) != 1:
            raise TranslateError("%s: `Simd::Mask<..> %s(true)` expected before the call" % (what, args[2]))
        return args, iscopy, nodes.index(calls[0])

    def lu_branch(fname, hdr):
        nodes = ntree(canon_dispatch(function_body(dmn, hdr, fname)), fname, DENSE_CTX, dmn)
        # follow the else-chain of the rows()==k tests; determinant returns from the closed forms instead
        cur = nodes
        while True:
            ifs = [nd for nd in cur if nd[0] == "if" and re.fullmatch(r"rows\(\)==\d+", nd[1])]
            if not ifs:
                break
            last = ifs[-1]
            for nd in ifs:
                # round five: a closed-form branch without `else` must leave the function (guard-clause spelling),
                # otherwise the LU path would run after it
                if not nd[3] and not (nd[2] and nd[2][-1][0] == "stmt" and re.match(r"return\b", nd[2][-1][1])):
                    raise TranslateError("%s: the branch `%s` neither has an else nor returns" % (fname, nd[1]))
            if last[3]:
                cur = last[3]
            else:
                cur = cur[cur.index(last) + 1:]
                break
        return cur

    sol = lu_branch("solve", r"DenseMatrix<MAT>::solve\s*\(\s*V1\s*&\s*x\s*,\s*const\s+V2\s*&\s*b\s*,\s*bool\s+doPivoting\s*\)\s*const")
    args, iscopy, ci = lu_call(sol, "solve")
    W = "solve (LU branch)"
    pre = [nd[1] for nd in sol[:ci] if nd[0] == "stmt"]
    if "V1&rhs=x" not in pre or "rhs=b" not in pre or pre.index("V1&rhs=x") > pre.index("rhs=b"):
        raise TranslateError("%s: `V1& rhs = x; rhs = b;` expected before the decomposition" % W)
    mfun = [t for t in pre if re.fullmatch(r"Elim<V1>%s\(rhs\)" % re.escape(args[1]), t)]
    if len(mfun) != 1:
        raise TranslateError("%s: the functor must be `Elim<V1> %s(rhs)`" % (W, args[1]))
    out.append("/-- the call `luDecomposition(A, elim, nonsingularLanes, %s, %s)` in solve: (A is a local copy of *this, "
               "throwEarly, the caller's doPivoting is passed on, functor) -/\n"
               "def solveLUCall : Bool × Bool × Bool × String := (%s, %s, %s, \"Elim(rhs), rhs = x = copy of b\")"
               % (args[3], args[4], "true" if iscopy else "false", args[3], "true" if args[4] == "doPivoting" else "false"))
    rest = sol[ci + 1:]
    if len(rest) != 1:
        raise TranslateError("%s: exactly the back substitution loop expected after the decomposition" % W)
    rr = Ren(); rr.bind("rhs", "x")
    lp, bb = down_loop(rest[0], rr, W)
    loops = [lp]
    if len(bb) != 2 or bb[0][0] != "for" or bb[1][0] != "stmt":
        raise TranslateError("%s: back substitution body: inner loop + division expected" % W)
    loops.append(expect_loop(bb[0], rr, "j", None, None, None, W))
    ib = significant(bb[0][2])
    if len(ib) != 1 or ib[0][0] != "stmt":
        raise TranslateError("%s: inner back substitution loop outside the grammar" % W)
    lhs, rhs = compound(rr(ib[0][1]), W)
    if lhs != "x[i]":
        raise TranslateError("%s: update of rhs[i] expected, found %r" % (W, ib[0][1]))
    X1 = lambda a: (r"\bx\[%s\]" % a, "x_%s" % a)
    out.append(kernel("backSubstStep", rhs, [A2("i", "j"), X1("i"), X1("j")], ["x_i", "a_ij", "x_j"], W,
                      "back substitution, inner loop: `rhs[i] = %s` (rhs and x are the same object)" % rhs))
    lhs, rhs = compound(rr(bb[1][1]), W)
    if lhs != "x[i]":
        raise TranslateError("%s: `x[i] = rhs[i]/A[i][i]` expected, found %r" % (W, bb[1][1]))
    out.append(kernel("backSubstDiv", rhs, [A2("i", "i"), X1("i")], ["x_i", "a_ii"], W,
                      "back substitution, after the inner loop: `x[i] = %s`" % rhs))
    out.append("/-- loops of the back substitution -/\ndef backSubstLoops : List (String × String × String × String) := "
               + lean_loops(loops))

    # determinant
    det = lu_branch("determinant", r"DenseMatrix<MAT>::determinant\s*\(\s*bool\s+doPivoting\s*\)\s*const")
    args, iscopy, ci = lu_call(det, "determinant")
    W = "determinant (LU branch)"
    pre = [nd[1] for nd in det[:ci] if nd[0] == "stmt"]
    if "field_type det" not in pre or args[1] != "ElimDet(det)":
        raise TranslateError("%s: `field_type det; ... ElimDet(det)` expected" % W)
    out.append("/-- the call `luDecomposition(A, ElimDet(det), nonsingularLanes, %s, %s)` in determinant -/\n"
               "def determinantLUCall : Bool × Bool × Bool × String := (%s, %s, %s, \"ElimDet(det)\")"
               % (args[3], args[4], "true" if iscopy else "false", args[3], "true" if args[4] == "doPivoting" else "false"))
    rest = det[ci + 1:]
    if len(rest) != 3 or rest[0][0] != "for" or rest[1][0] != "stmt" or rest[2] != ("stmt", "return det"):
        raise TranslateError("%s: product loop, mask, `return det` expected after the decomposition" % W)
    rr = Ren()
    loops = [expect_loop(rest[0], rr, "i", None, None, None, W)]
    bb = significant(rest[0][2])
    if len(bb) != 1 or bb[0][0] != "stmt":
        raise TranslateError("%s: product loop body outside the grammar" % W)
    lhs, rhs = compound(rr(bb[0][1]), W)
    if lhs != "det":
        raise TranslateError("%s: `det *= A[i][i]` expected, found %r" % (W, bb[0][1]))
    out.append(kernel("detStep", rhs, [A2("i", "i"), (r"\bdet\b", "det")], ["det", "a_ii"], W, "`det = %s`" % rhs))
    lhs, rhs = compound(rest[1][1], W)
    parts = cond_kernel(None, rhs, None, W, None)
    if lhs != "det" or parts[0] != args[2] or parts[1] != "det" or parts[2] not in ("field_type(0)", "field_type(0.0)", "0"):
        raise TranslateError("%s: `det = Simd::cond(nonsingularLanes, det, field_type(0))` expected, found %r" % (W, rest[1][1]))
    out.append("/-- `det = Simd::cond(nonsingularLanes, det, field_type(0))` after the product -/\n"
               "def detMask %s (v_ok : Bool) (v_det : K) : K :=\n  if v_ok then v_det else (0 : K)" % CLASSES)
    out.append("/-- loop of the determinant product -/\ndef detLoops : List (String × String × String × String) := " + lean_loops(loops))

    # invert
    inv = lu_branch("invert", r"DenseMatrix<MAT>::invert\s*\(\s*bool\s+doPivoting\s*\)")
    args, iscopy, ci = lu_call(inv, "invert")
    W = "invert (LU branch)"
    pre = [nd[1] for nd in inv[:ci] if nd[0] == "stmt"]
    if "std::vector<simd_index_type>pivot(rows())" not in pre or args[1] != "ElimPivot(pivot)":
        raise TranslateError("%s: `std::vector<simd_index_type> pivot(rows()); ... ElimPivot(pivot)` expected" % W)
    out.append("/-- the call `luDecomposition(A, ElimPivot(pivot), nonsingularLanes, %s, %s)` in invert -/\n"
               "def invertLUCall : Bool × Bool × Bool × String := (%s, %s, %s, \"ElimPivot(pivot), pivot local of size rows()\")"
               % (args[3], args[4], "true" if iscopy else "false", args[3], "true" if args[4] == "doPivoting" else "false"))
    rest = [nd for nd in inv[ci + 1:] if not (nd[0] == "stmt" and re.fullmatch(r"auto&[LU]=%s" % re.escape(args[0]), nd[1]))]
    rr = Ren(); rr.bind("L", "A"); rr.bind("U", "A")
    if (len(rest) != 5 or rest[0] != ("stmt", "*this=field_type(0)") or rest[1][0] != "for" or rest[2][0] != "for"
            or rest[3][0] != "for" or rest[4][0] != "for"):
        raise TranslateError("%s: expected `*this=field_type(0)`, identity loop, forward sweep, backward sweep, column "
                             "un-permutation after the decomposition (found %d statements)" % (W, len(rest)))
    r0 = Ren()
    l0 = expect_loop(rest[1], r0, "i", None, None, None, W)
    bb = significant(rest[1][2])
    if len(bb) != 1 or bb[0][0] != "stmt" or r0(bb[0][1]) not in ("(*this)[i][i]=1", "(*this)[i][i]=field_type(1)"):
        raise TranslateError("%s: `(*this)[i][i] = 1` expected" % W)
    out.append("/-- initialisation of the inverse: `*this = 0; for i: (*this)[i][i] = 1` -/\n"
               "def invertInitLoops : List (String × String × String × String) := " + lean_loops([l0]))
    B2 = lambda a, b: (r"\(\*this\)\[%s\]\[%s\]" % (a, b), "b_%s%s" % (a, b))
    # forward sweep
    loops = [expect_loop(rest[2], rr, "i", None, None, None, W)]
    n1 = significant(rest[2][2])
    if len(n1) != 1 or n1[0][0] != "for":
        raise TranslateError("%s: forward sweep: loop nest expected" % W)
    loops.append(expect_loop(n1[0], rr, "j", None, None, None, W))
    n2 = significant(n1[0][2])
    if len(n2) != 1 or n2[0][0] != "for":
        raise TranslateError("%s: forward sweep: loop nest expected" % W)
    loops.append(expect_loop(n2[0], rr, "k", None, None, None, W))
    n3 = significant(n2[0][2])
    if len(n3) != 1 or n3[0][0] != "stmt":
        raise TranslateError("%s: forward sweep body outside the grammar" % W)
    lhs, rhs = compound(rr(n3[0][1]), W)
    if lhs != "(*this)[i][k]":
        raise TranslateError("%s: forward sweep: update of (*this)[i][k] expected" % W)
    out.append(kernel("forwardStep", rhs, [B2("i", "k"), B2("j", "k"), A2("i", "j")], ["b_ik", "a_ij", "b_jk"], W,
                      "forward sweep L Y = I: `(*this)[i][k] = %s`" % rhs))
    out.append("/-- loops of the forward sweep -/\ndef forwardLoops : List (String × String × String × String) := " + lean_loops(loops))

    rr = Ren(); rr.bind("L", "A"); rr.bind("U", "A")
    lp, bb = down_loop(rest[3], rr, W + " backward sweep")
    loops = [lp]
    if len(bb) != 1 or bb[0][0] != "for":
        raise TranslateError("%s: backward sweep: column loop expected" % W)
    loops.append(expect_loop(bb[0], rr, "k", None, None, None, W))
    cb = significant(bb[0][2])
    if len(cb) != 2 or cb[0][0] != "for" or cb[1][0] != "stmt":
        raise TranslateError("%s: backward sweep: inner loop + division expected" % W)
    loops.append(expect_loop(cb[0], rr, "j", None, None, None, W))
    ib = significant(cb[0][2])
    if len(ib) != 1 or ib[0][0] != "stmt":
        raise TranslateError("%s: backward sweep inner body outside the grammar" % W)
    lhs, rhs = compound(rr(ib[0][1]), W)
    if lhs != "(*this)[i][k]":
        raise TranslateError("%s: backward sweep: update of (*this)[i][k] expected" % W)
    out.append(kernel("backwardStep", rhs, [B2("i", "k"), B2("j", "k"), A2("i", "j")], ["b_ik", "a_ij", "b_jk"], W,
                      "backward sweep U X = Y, inner loop: `(*this)[i][k] = %s`" % rhs))
    lhs, rhs = compound(rr(cb[1][1]), W)
    if lhs != "(*this)[i][k]":
        raise TranslateError("%s: backward sweep: division of (*this)[i][k] expected" % W)
    out.append(kernel("backwardDiv", rhs, [B2("i", "k"), A2("i", "i")], ["b_ik", "a_ii"], W,
                      "backward sweep, after the inner loop: `(*this)[i][k] = %s`" % rhs))
    out.append("/-- loops of the backward sweep -/\ndef backwardLoops : List (String × String × String × String) := " + lean_loops(loops))
    # column un-permutation
    rr = Ren()
    lp, bb = down_loop(rest[4], rr, W + " column un-permutation")
    if len(bb) != 1 or bb[0][0] != "for":
        raise TranslateError("%s: un-permutation: lane loop expected" % W)
    m = re.fullmatch(r"std::size_t (\w+)=0;\1<Simd::lanes\([^;]*\);(?:\+\+\1|\1\+\+)", bb[0][1])
    if not m:
        raise TranslateError("%s: un-permutation: lane loop header outside the grammar" % W)
    lv = m.group(1)
    lb = significant(bb[0][2])
    if len(lb) != 2 or lb[0][0] != "stmt":
        raise TranslateError("%s: un-permutation: `pi = lane(l, pivot[i]); [if (i != pi)] column swap loop` expected" % W)
    m = re.fullmatch(r"(?:const )?(?:std::size_t|auto|size_type) (\w+)=Simd::lane\(%s,pivot\[(\w+)\]\)" % lv, lb[0][1])
    if not m or rr(m.group(2)) != "i":
        raise TranslateError("%s: `std::size_t pi = Simd::lane(l, pivot[i])` expected, found %r" % (W, lb[0][1]))
    rr.bind(m.group(1), "pi")
    nd = lb[1]
    guarded = False
    if nd[0] == "if":
        if rr(nd[1]) not in ("i!=pi", "pi!=i") or nd[3] or len(nd[2]) != 1:
            raise TranslateError("%s: guard of the column swap outside the grammar: %r" % (W, nd[1]))
        guarded = True
        nd = nd[2][0]
    lj = expect_loop(nd, rr, "j", None, None, None, W)
    sb = significant(nd[2])
    if len(sb) != 1 or sb[0][0] != "stmt":
        raise TranslateError("%s: column swap body outside the grammar" % W)
    mm = re.fullmatch(r"(?:std::)?swap\((.+)\)", sb[0][1])
    if not mm:
        raise TranslateError("%s: swap expected in the un-permutation" % W)
    ops = [rr(re.sub(r"^Simd::lane\(%s,(.+)\)$" % lv, r"\1", a)) for a in split_args(mm.group(1))]
    out.append("/-- column un-permutation: outer loop, column loop, operands of the swap (`pi` = pivot[i]); the guard "
               "`i != pi` %s -/\ndef unpermuteLoops : List (String × String × String × String) := %s\n"
               "def unpermuteSwap : List String := %s"
               % ("is present" if guarded else "is absent (swapping a column with itself changes nothing)",
                  lean_loops([lp, lj]), lean_str_list(sorted(ops))))

    # ---------------- DiagonalMatrix ----------------
    dg = diag
    W = "DiagonalMatrix::solve"
    nodes = ntree(function_body(dg, r"void\s+solve\s*\(\s*V\s*&\s*x\s*,\s*const\s+V\s*&\s*b\s*\)\s*const", W), W, DIAG_CTX, dg)
    if len(nodes) != 1 or nodes[0][0] != "for":
        raise TranslateError("%s: one loop expected" % W)
    rr = Ren()
    lp = expect_loop(nodes[0], rr, "i", None, None, None, W)
    bb = significant(nodes[0][2])
    if len(bb) != 1 or bb[0][0] != "stmt":
        raise TranslateError("%s: loop body outside the grammar" % W)
    lhs, rhs = compound(rr(bb[0][1]), W)
    if lhs != "x[i]":
        raise TranslateError("%s: assignment to x[i] expected" % W)
    D1 = (r"\bdiag_\[i\]", "d_i")
    out.append(kernel("diagSolveEntry", rhs, [D1, (r"\bb\[i\]", "b_i")], ["d_i", "b_i"], W, "`DiagonalMatrix::solve`: `x[i] = %s`" % rhs))
    W = "DiagonalMatrix::invert"
    nodes = ntree(function_body(dg, r"void\s+invert\s*\(\s*\)", W), W, DIAG_CTX, dg)
    if len(nodes) != 1 or nodes[0][0] != "for":
        raise TranslateError("%s: one loop expected" % W)
    rr = Ren()
    lp2 = expect_loop(nodes[0], rr, "i", None, None, None, W)
    bb = significant(nodes[0][2])
    if len(bb) != 1 or bb[0][0] != "stmt":
        raise TranslateError("%s: loop body outside the grammar" % W)
    lhs, rhs = compound(rr(bb[0][1]), W)
    if lhs != "diag_[i]":
        raise TranslateError("%s: assignment to diag_[i] expected" % W)
    out.append(kernel("diagInvertEntry", rhs, [D1], ["d_i"], W, "`DiagonalMatrix::invert`: `diag_[i] = %s`" % rhs))
    W = "DiagonalMatrix::determinant"
    nodes = ntree(function_body(dg, r"K\s+determinant\s*\(\s*\)\s*const", W), W, DIAG_CTX, dg)
    if (len(nodes) != 3 or nodes[0][0] != "stmt" or nodes[1][0] != "for" or nodes[2][0] != "stmt"):
        raise TranslateError("%s: `K det = diag_[0]; for ...; return det;` expected" % W)
    m = re.fullmatch(r"(?:K|field_type|auto) (\w+)=diag_\[(\d+)\]", nodes[0][1])
    if not m or nodes[2][1] != "return " + m.group(1):
        raise TranslateError("%s: `K det = diag_[0]` ... `return det` expected" % W)
    rr = Ren(); rr.bind(m.group(1), "det")
    lp3 = expect_loop(nodes[1], rr, "i", None, None, None, W)
    bb = significant(nodes[1][2])
    if len(bb) != 1 or bb[0][0] != "stmt":
        raise TranslateError("%s: loop body outside the grammar" % W)
    lhs, rhs = compound(rr(bb[0][1]), W)
    if lhs != "det":
        raise TranslateError("%s: update of det expected" % W)
    out.append(kernel("diagDetStep", rhs, [D1, (r"\bdet\b", "det")], ["det", "d_i"], W, "`DiagonalMatrix::determinant`: `det = %s`" % rhs))
    out.append("/-- DiagonalMatrix: loops of solve, invert, determinant (the determinant starts from `diag_[%s]`) -/\n"
               "def diagLoops : List (String × String × String × String) := %s\ndef diagDetInitIndex : Nat := %s"
               % (m.group(2), lean_loops([lp, lp2, lp3]), m.group(2)))
    return out


HEADER = """-- GENERATED by tools/translators/tr_c02.py from dune/common/densematrix.hh and dune/common/fmatrix.hh -- do not edit
/-! Closed forms of DenseMatrix::solve / invert / determinant for rows() = 1, 2, 3 and of
FMatrixHelp::invertMatrix / invertMatrix_retTransposed, statement by statement in source order.
`mij` is `(*this)[i][j]` (resp. `matrix[i][j]`), rebinding = in-place update, `v_t` is the local `t`. -/
namespace DV.C02.Gen

structure V1 (K : Type) where
  x0 : K
structure V2 (K : Type) where
  x0 : K
  x1 : K
structure V3 (K : Type) where
  x0 : K
  x1 : K
  x2 : K
structure M1 (K : Type) where
  m00 : K
structure M2 (K : Type) where
  m00 : K
  m01 : K
  m10 : K
  m11 : K
structure M3 (K : Type) where
  m00 : K
  m01 : K
  m02 : K
  m10 : K
  m11 : K
  m12 : K
  m20 : K
  m21 : K
  m22 : K
"""


def translate(repo):
    dm = strip_checking(strip_comments(open(os.path.join(repo, "dune/common/densematrix.hh")).read()))
    fm = strip_checking(strip_comments(open(os.path.join(repo, "dune/common/fmatrix.hh")).read()))
    out = [HEADER]

    dmc = mark_checking(strip_comments(open(os.path.join(repo, "dune/common/densematrix.hh")).read()))
    det_body = function_body(
        dmc, r"DenseMatrix<MAT>::determinant\s*\(\s*bool\s+doPivoting\s*\)\s*const", "determinant")
    solve_body = function_body(
        dmc, r"DenseMatrix<MAT>::solve\s*\(\s*V1\s*&\s*x\s*,\s*const\s+V2\s*&\s*b\s*,\s*bool\s+doPivoting\s*\)\s*const",
        "solve")
    inv_body = function_body(dmc, r"DenseMatrix<MAT>::invert\s*\(\s*bool\s+doPivoting\s*\)", "invert")
    det_body, solve_body, inv_body = canon_dispatch(det_body), canon_dispatch(solve_body), canon_dispatch(inv_body)

    for n in (1, 2, 3):
        blk = Block(n, "determinant rows()==%d" % n, "this").run(size_block(det_body, n, "determinant"))
        out.append(emit("det%d" % n, n, blk, "det"))
    for n in (1, 2, 3):
        blk = Block(n, "solve rows()==%d" % n, "this", det_call="(det%d %s)" % (n, margs(n)), has_b=True)
        blk.void = True
        blk.run(size_block(solve_body, n, "solve"))
        out.append(emit("solve%d" % n, n, blk, "solve"))
    for n in (1, 2, 3):
        blk = Block(n, "invert rows()==%d" % n, "this")
        blk.void = True
        blk.run(size_block(inv_body, n, "invert"))
        out.append(emit("invert%d" % n, n, blk, "invert"))

    # FMatrixHelp::invertMatrix / invertMatrix_retTransposed for FieldMatrix<K,n,n>, n = 1..3
    for fname, lname in (("invertMatrix", "fmhInvert"), ("invertMatrix_retTransposed", "fmhInvertT")):
        for n in (1, 2, 3):
            hdr = (r"static\s+inline\s+K\s+%s\s*\(\s*const\s+FieldMatrix<K,%d,%d>\s*&\s*matrix\s*,\s*"
                   r"FieldMatrix<K,%d,%d>\s*&\s*inverse\s*\)" % (fname, n, n, n, n))
            body = function_body(fm, hdr, "%s %dx%d" % (fname, n, n))
            flat = re.sub(r"\s+", "", body)
            if fname == "invertMatrix_retTransposed" and flat == "returninvertMatrix(matrix,inverse);":
                out.append("def %s%d %s (%s : K) : K × M%d K :=\n  fmhInvert%d %s"
                           % (lname, n, CLASSES, margs(n), n, n, margs(n)))
                continue
            blk = Block(n, "%s %dx%d" % (fname, n, n), "matrix", out_matrix="inverse").run(body)
            out.append(emit("%s%d" % (lname, n), n, blk, "fmh"))

    # the size dispatch of the three member functions: which `rows()==k` tests exist (everything else is the LU path)
    sizes = {}
    for fname, body in (("determinant", det_body), ("solve", solve_body), ("invert", inv_body)):
        tests = re.findall(r"\brows\s*\(\s*\)\s*(==|!=|<=|>=|<|>)\s*(\w+(?:\s*\(\s*\))?)", body)
        closed = []
        for op, rhs in tests:
            rhs = re.sub(r"\s+", "", rhs)
            if op == "!=" and rhs == "cols()":
                continue            # the `rows()!=cols()` guard (non-square: FMatrixError), outside the property
            if op == "==" and rhs.isdigit():
                closed.append(int(rhs))
                continue
            raise TranslateError("%s: size test `rows() %s %s` outside the translator's grammar" % (fname, op, rhs))
        sizes[fname] = closed
    if not (sizes["determinant"] == sizes["solve"] == sizes["invert"]):
        raise TranslateError("size dispatch differs between determinant/solve/invert: %r" % (sizes,))
    out.append("/-- the sizes `k` with a closed-form branch `if (rows()==k)` (in source order); all other sizes take the LU path -/\n"
               "def closedFormSizes : List Nat := [%s]" % ", ".join(str(k) for k in sizes["solve"]))

    # default arguments of the declarations inside class DenseMatrix
    decls = (
        ("solveDefaultPivoting",
         r"void\s+solve\s*\(\s*V1\s*&\s*x\s*,\s*const\s+V2\s*&\s*b\s*,\s*bool\s+doPivoting\s*=\s*(\w+)\s*\)\s*const\s*;"),
        ("invertDefaultPivoting", r"void\s+invert\s*\(\s*bool\s+doPivoting\s*=\s*(\w+)\s*\)\s*;"),
        ("determinantDefaultPivoting",
         r"field_type\s+determinant\s*\(\s*bool\s+doPivoting\s*=\s*(\w+)\s*\)\s*const\s*;"),
    )
    for lname, rx in decls:
        ms = re.findall(rx, dm)
        if len(ms) != 1 or ms[0] not in ("true", "false"):
            raise TranslateError("%s: expected exactly one declaration with a literal default for doPivoting, found %r"
                                 % (lname, ms))
        out.append("/-- default argument `bool doPivoting = %s` of the declaration in class DenseMatrix -/\n"
                   "def %s : Bool := %s" % (ms[0], lname, ms[0]))

    dg = strip_checking(strip_comments(open(os.path.join(repo, "dune/common/diagonalmatrix.hh")).read()))
    out.append("/-! ## round four: the LU path (luDecomposition, its functors, the LU branches of solve / invert /\n"
               "determinant) and DiagonalMatrix: loop headers, statement order, call arguments and the scalar kernel of every\n"
               "update statement, re-read from the source.  Tied to the hand-written model by the `tie_*` theorems of\n"
               "Props/C02.lean. -/")
    out.extend(translate_lu(dm, dg))
    out.append("end DV.C02.Gen")
    return [("DuneVerif/Gen/C02.lean", "\n\n".join(out) + "\n")]


if __name__ == "__main__":
    import sys
    for path, content in translate(sys.argv[1] if len(sys.argv) > 1 else "/repo"):
        sys.stdout.write(content)
