"""Translator for C14: the straight-line arithmetic of the md layout mappings is re-read from the sources on
every run and emitted as lean/DuneVerif/Gen/C14.lean:

  layout_left.hh   mapping::operator()(Indices...)  initial value, loop bounds, Horner step
                   mapping::stride(i)               loop bounds, product step
  layout_right.hh  the same two functions
  extents.hh       extents::product()               loop bounds, product step
  layout_stride.hh mapping::size(extents,strides)   rank-0 value, empty value, initial value, loop bounds, step

Every function must have the shape   `T acc = INIT; for (V = LO; V </<= HI; ++V) { [const T j = E;] acc OP= E; } return acc;`
(braces optional, any variable names, any whitespace/comments).  The pieces are alpha-renamed (loop variable `r`,
accumulator `acc`, stride argument `i`) and written as Lean definitions over `rank`, `indices`, `extent`, `strides`;
the hand-written loops in Model/C14.lean run exactly these pieces and the theorems in Props/C14.lean are about them.

A function that no longer fits this grammar is *not* an alarm by itself (a harmless rewrite may do that): its last
known translation is kept, a note goes to stderr, and the behavioural correspondence (harness vs. model) remains the tie.
"""
import os
import re
import sys


class TranslateError(Exception):
    pass


# ------------------------------------------------------------------------------------------------
# tiny C++ reader
# ------------------------------------------------------------------------------------------------

def strip_comments(src):
    src = re.sub(r"/\*.*?\*/", " ", src, flags=re.S)
    src = re.sub(r"//[^\n]*", " ", src)
    return src


def body_after(src, anchor_rx):
    """brace-balanced body following the first match of anchor_rx"""
    m = re.search(anchor_rx, src, flags=re.S)
    if not m:
        raise TranslateError("anchor not found: %s" % anchor_rx)
    i = src.find("{", m.end() - 1)
    if i < 0:
        raise TranslateError("no body after: %s" % anchor_rx)
    depth, j = 0, i
    while j < len(src):
        if src[j] == "{":
            depth += 1
        elif src[j] == "}":
            depth -= 1
            if depth == 0:
                return m, src[i + 1:j]
        j += 1
    raise TranslateError("unbalanced braces after: %s" % anchor_rx)


def canon(e):
    """canonical spelling of the few accessors the formulas use"""
    e = re.sub(r"\s+", "", e)
    e = re.sub(r"\b(?:extents_type|Extents|E)::rank\(\)", "rank", e)
    e = re.sub(r"\brank_\b", "rank", e)
    e = re.sub(r"\brank\(\)", "rank", e)
    e = re.sub(r"\b(?:m\.)?(?:extents_|extents\(\)|extents)\.extent\(", "extent(", e)
    e = e.replace("indices.back()", "indices[rank-1]").replace("indices.front()", "indices[0]")
    e = re.sub(r"\bstrides_\[", "strides[", e)
    return e


TOK = re.compile(r"(\d+)|([A-Za-z_][A-Za-z_0-9]*)|([-+*()\[\]])")


class Expr:
    """expression over + - * ( ) numbers, variables and extent(e) / indices[e] / strides[e]  ->  Lean term over Nat"""

    def __init__(self, text, env):
        self.text = canon(text)
        self.env = env  # C++ name -> Lean name
        self.toks = []
        pos = 0
        while pos < len(self.text):
            m = TOK.match(self.text, pos)
            if not m:
                raise TranslateError("cannot tokenise %r at %d" % (self.text, pos))
            self.toks.append(m.group(0))
            pos = m.end()
        self.i = 0

    def peek(self):
        return self.toks[self.i] if self.i < len(self.toks) else None

    def eat(self, t=None):
        x = self.peek()
        if x is None or (t is not None and x != t):
            raise TranslateError("expected %r in %r" % (t, self.text))
        self.i += 1
        return x

    def parse(self):
        r = self.add()
        if self.peek() is not None:
            raise TranslateError("trailing tokens in %r" % self.text)
        return r

    def add(self):
        l = self.mul()
        while self.peek() in ("+", "-"):
            op = self.eat()
            r = self.mul()
            l = "(%s %s %s)" % (l, op, r)
        return l

    def mul(self):
        l = self.prim()
        while self.peek() == "*":
            self.eat()
            r = self.prim()
            l = "(%s * %s)" % (l, r)
        return l

    def prim(self):
        t = self.eat()
        if t == "(":
            r = self.add()
            self.eat(")")
            return r
        if t.isdigit():
            return t
        if t in ("extent", "indices", "strides"):
            if t not in self.env:
                raise TranslateError("%s is not available in this function: %r" % (t, self.text))
            close = {"(": ")", "[": "]"}[self.eat()]
            r = self.add()
            self.eat(close)
            return "(%s %s)" % (t, r)
        if t in self.env:
            return self.env[t]
        raise TranslateError("unknown identifier %r in %r" % (t, self.text))


def unparen(s):
    if s.startswith("(") and s.endswith(")"):
        depth = 0
        for k, c in enumerate(s):
            depth += c == "("
            depth -= c == ")"
            if depth == 0 and k < len(s) - 1:
                return s
        return s[1:-1]
    return s


FOR = re.compile(
    r"for\s*\(\s*(?:[\w:]+\s+)?(\w+)\s*=\s*([^;]+);\s*(\w+)\s*(<=|<)\s*([^;]+);\s*(?:\+\+\s*(\w+)|(\w+)\s*\+\+)\s*\)", re.S)


def loop_function(body, avail, what):
    """body: `T acc = INIT; for (...) {...} return acc;`  -> dict(init, lo, hi, lets, step)"""
    body = body.strip()
    mfor = FOR.search(body)
    if not mfor:
        raise TranslateError("%s: no counting for-loop found" % what)
    pre, post = body[:mfor.start()], body[mfor.end():]
    var = mfor.group(1)
    if mfor.group(3) != var or (mfor.group(6) or mfor.group(7)) != var:
        raise TranslateError("%s: loop does not count one variable upwards" % what)
    # accumulator declaration = the last `T name = expr;` before the loop
    decls = re.findall(r"(?:const\s+)?[\w:]+\s+(\w+)\s*=\s*([^;{}]+);", pre)
    if not decls:
        raise TranslateError("%s: no accumulator declaration before the loop" % what)
    acc, init = decls[-1]
    env0 = dict(avail)
    init_l = Expr(init, env0).parse()
    lo_l = Expr(mfor.group(2), env0).parse()
    hi_l = Expr(mfor.group(5), env0).parse()
    if mfor.group(4) == "<=":
        hi_l = "(%s + 1)" % hi_l
    # loop body
    post = post.strip()
    if post.startswith("{"):
        depth = 0
        for k, c in enumerate(post):
            depth += c == "{"
            depth -= c == "}"
            if depth == 0:
                break
        lbody, rest = post[1:k], post[k + 1:]
    else:
        k = post.find(";")
        lbody, rest = post[:k + 1], post[k + 1:]
    mret = re.search(r"return\s+(\w+)\s*;", rest)
    if not mret or mret.group(1) != acc:
        raise TranslateError("%s: the function does not return its accumulator" % what)
    env = dict(avail)
    env[var] = "r"
    env[acc] = "acc"
    lets = []
    step = None
    for st in [s.strip() for s in lbody.split(";") if s.strip()]:
        if st.startswith("assert"):
            continue
        m = re.fullmatch(r"(?:const\s+)?[\w:]+\s+(\w+)\s*=\s*(.+)", st, flags=re.S)
        if m and m.group(1) != acc:
            name = "v_" + m.group(1)
            lets.append((name, unparen(Expr(m.group(2), env).parse())))
            env[m.group(1)] = name
            continue
        m = re.fullmatch(r"(\w+)\s*(\*=|\+=|=)\s*(.+)", st, flags=re.S)
        if m and m.group(1) == acc and step is None:
            rhs = Expr(m.group(3), env).parse()
            if m.group(2) == "*=":
                rhs = "(acc * %s)" % rhs
            elif m.group(2) == "+=":
                rhs = "(acc + %s)" % rhs
            step = unparen(rhs)
            continue
        raise TranslateError("%s: statement outside the grammar: %r" % (what, st))
    if step is None:
        raise TranslateError("%s: no update of the accumulator in the loop" % what)
    return dict(init=unparen(init_l), lo=unparen(lo_l), hi=unparen(hi_l), lets=lets, step=step)


def emit(name, params, parts, doc):
    """Lean text of one translated loop function"""
    ptxt = " ".join(params)
    out = ["/-- %s -/" % doc,
           "def %s_init %s : Nat := %s" % (name, ptxt, parts["init"]),
           "def %s_lo %s : Nat := %s" % (name, ptxt, parts["lo"]),
           "def %s_hi %s : Nat := %s" % (name, ptxt, parts["hi"]),
           "def %s_step %s (r acc : Nat) : Nat :=" % (name, ptxt)]
    for (n, e) in parts["lets"]:
        out.append("  let %s := %s" % (n, e))
    out.append("  " + parts["step"])
    return "\n".join(out)


# ------------------------------------------------------------------------------------------------
# the functions
# ------------------------------------------------------------------------------------------------

P_OFF = ["(rank : Nat)", "(indices extent : Nat → Nat)"]
P_STR = ["(rank : Nat)", "(extent : Nat → Nat)", "(i : Nat)"]
P_PROD = ["(rank : Nat)", "(extent : Nat → Nat)"]
P_SIZE = ["(rank : Nat)", "(extent strides : Nat → Nat)"]
ENV_OFF = {"rank": "rank", "indices": "indices", "extent": "extent"}
ENV_PROD = {"rank": "rank", "extent": "extent"}
ENV_SIZE = {"rank": "rank", "extent": "extent", "strides": "strides"}


def tr_offset(src, name, doc):
    _, body = body_after(src, r"operator\s*\(\)\s*\(\s*Indices\s*\.\.\.\s*\w+\s*\)\s*const\s*(?:noexcept)?\s*\{")
    return emit(name, P_OFF, loop_function(body, ENV_OFF, doc), doc)


def tr_stride(src, name, doc):
    m, body = body_after(src, r"\bstride\s*\(\s*rank_type\s+(\w+)\s*\)\s*const\s*(?:noexcept)?\s*\{")
    env = dict(ENV_PROD)
    env[m.group(1)] = "i"
    return emit(name, P_STR, loop_function(body, env, doc), doc)


def tr_product(src, name, doc):
    _, body = body_after(src, r"\bproduct\s*\(\s*\)\s*const\s*(?:noexcept)?\s*\{")
    return emit(name, P_PROD, loop_function(body, ENV_PROD, doc), doc)


def tr_size(src, name, doc):
    m, body = body_after(src, r"\bsize\s*\(\s*const\s+\w+\s*&\s*(\w+)\s*,\s*const\s+\w+\s*&\s*(\w+)\s*\)\s*(?:noexcept)?\s*\{")
    ext, strd = m.group(1), m.group(2)
    flat = re.sub(r"\s+", " ", body)
    m0 = re.search(r"if\s+constexpr\s*\(\s*\w+::rank\(\)\s*==\s*0\s*\)\s*\{?\s*return\s+(\d+)\s*;", flat)
    m1 = re.search(r"if\s*\(\s*%s\.product\(\)\s*==\s*0\s*\)\s*\{?\s*return\s+(\d+)\s*;" % re.escape(ext), flat)
    if not m0 or not m1 or m0.start() > m1.start():
        raise TranslateError("%s: rank-0 / empty-product guards not found in this order" % doc)
    rest = flat[m1.end():]
    rest = re.sub(r"\b%s\.extent\(" % re.escape(ext), "extent(", rest)
    rest = re.sub(r"\b%s\[" % re.escape(strd), "strides[", rest)
    parts = loop_function(rest, ENV_SIZE, doc)
    txt = ["/-- %s: value for rank 0 -/" % doc, "def %s_rank0 : Nat := %s" % (name, m0.group(1)),
           "/-- %s: value when the product of the extents is 0 -/" % doc, "def %s_empty : Nat := %s" % (name, m1.group(1)),
           emit(name, P_SIZE, parts, doc)]
    return "\n".join(txt)


FUNCS = [
    ("left", "dune/common/std/layout_left.hh", tr_offset, "layout_left::mapping::operator()(Indices...)"),
    ("left_stride", "dune/common/std/layout_left.hh", tr_stride, "layout_left::mapping::stride(i)"),
    ("right", "dune/common/std/layout_right.hh", tr_offset, "layout_right::mapping::operator()(Indices...)"),
    ("right_stride", "dune/common/std/layout_right.hh", tr_stride, "layout_right::mapping::stride(i)"),
    ("product", "dune/common/std/extents.hh", tr_product, "extents::product()"),
    ("stride_size", "dune/common/std/layout_stride.hh", tr_size, "layout_stride::mapping::size(extents,strides)"),
]

GEN = "DuneVerif/Gen/C14.lean"
HEADER = "-- GENERATED by tools/translators/tr_c14.py from dune/common/std/{layout_left,layout_right,layout_stride,extents}.hh -- do not edit\n"


def previous_blocks():
    """blocks of the committed Gen file, keyed by function name (fallback for functions outside the grammar)"""
    here = os.path.dirname(os.path.dirname(os.path.dirname(os.path.abspath(__file__))))
    p = os.path.join(here, "lean", GEN)
    if not os.path.exists(p):
        return {}
    txt = open(p).read()
    res = {}
    for m in re.finditer(r"-- BEGIN (\w+)[^\n]*\n(.*?)\n-- END \1", txt, flags=re.S):
        res[m.group(1)] = m.group(2)
    return res


def translate(repo):
    prev = previous_blocks()
    out = [HEADER + "set_option linter.unusedVariables false\nnamespace DV.C14.Gen"]
    for (name, path, fn, doc) in FUNCS:
        try:
            src = strip_comments(open(os.path.join(repo, path)).read())
            block = fn(src, name, doc)
            tag = ""
        except (TranslateError, OSError) as ex:
            if name not in prev:
                raise TranslateError("%s cannot be translated and no earlier translation exists: %s" % (doc, ex))
            sys.stderr.write("tr_c14: %s is outside the translator's grammar (%s); keeping the last translation, "
                             "the differential run remains the tie\n" % (doc, str(ex)[:200]))
            block = prev[name]
            tag = " (kept: source outside grammar)"
        out.append("-- BEGIN %s%s\n%s\n-- END %s" % (name, tag, block, name))
    out.append("end DV.C14.Gen")
    return [(GEN, "\n\n".join(out) + "\n")]


if __name__ == "__main__":
    for p, c in translate(sys.argv[1] if len(sys.argv) > 1 else os.environ.get("VERIF_REPO", "/repo")):
        sys.stdout.write(c)
