"""Translator for C14: the straight-line arithmetic of the md layout mappings is re-read from the sources on
every run and emitted as lean/DuneVerif/Gen/C14.lean:

  layout_left.hh   mapping::operator()(Indices...)  initial value, loop bounds, Horner step
                   mapping::stride(i)               loop bounds, product step
  layout_right.hh  the same two functions
  extents.hh       extents::product()               loop bounds, product step
  layout_stride.hh mapping::size(extents,strides)   rank-0 value, empty value, initial value, loop bounds, step
                   mapping::operator()(Indices...)  summand and initial value of the fold expression
  mdspan.hh        mdspan::size()                   loop bounds, product step
  mdarray.hh       mdarray::size()                  loop bounds, product step
  span.hh          first/last/subspan (run-time and template forms): asserted precondition, offset and size of the result;
                   subspan_extent(O, C)
  mdarray.hh       mdarray(const mapping_type&[, value][, alloc])   the number of elements the container is created with
  mdarray.hh       mdarray(const mdspan&[, const Alloc&])   the number of elements the container is created with
                   (member initialiser of container_: which of `mapping_type(other.mapping()).required_span_size()`,
                   `other.mapping().required_span_size()`, `other.size()` it is) and that mapping_ adopts other.mapping()

Every function must have the shape   `T acc = INIT; for (V = LO; V </<= HI; ++V) { [const T j = E;] acc OP= E; } return acc;`
(braces optional, any variable names, any whitespace/comments).  The pieces are alpha-renamed (loop variable `r`,
accumulator `acc`, stride argument `i`) and written as Lean definitions over `rank`, `indices`, `extent`, `strides`;
the hand-written loops in Model/C14.lean run exactly these pieces and the theorems in Props/C14.lean are about them.

Harmless rewrites must not raise an alarm, real changes must:
  * a function that no longer fits the grammar keeps the reference translation (note on stderr); the behavioural
    correspondence (harness vs. model, harness oracle) remains the tie for it;
  * a function that fits the grammar but reads differently from the reference is *evaluated* against the reference on a
    few thousand sample inputs (all ranks 1..5, small extents/indices/strides): if it computes the same values the
    reference text is emitted (marked `canonicalised`), otherwise the new text is emitted, the theorems are re-checked
    against it (and normally fail) and the harness oracle supplies the failing input.
"""
import os
import random
import re
import sys


class TranslateError(Exception):
    pass


# ------------------------------------------------------------------------------------------------
# tiny C++ reader
# ------------------------------------------------------------------------------------------------

def strip_comments(src):
    src = re.sub(r"/\*.*?\*/", " ", src, flags=re.S)
    src = re.sub(r"//[^\n]*", " ", src)
    return src


def body_after(src, anchor_rx):
    """brace-balanced body following the first match of anchor_rx"""
    m = re.search(anchor_rx, src, flags=re.S)
    if not m:
        raise TranslateError("anchor not found: %s" % anchor_rx)
    i = src.find("{", m.end() - 1)
    if i < 0:
        raise TranslateError("no body after: %s" % anchor_rx)
    depth, j = 0, i
    while j < len(src):
        if src[j] == "{":
            depth += 1
        elif src[j] == "}":
            depth -= 1
            if depth == 0:
                return m, src[i + 1:j]
        j += 1
    raise TranslateError("unbalanced braces after: %s" % anchor_rx)


def canon(e):
    """canonical spelling of the few accessors the formulas use"""
    e = re.sub(r"\s+", "", e)
    e = re.sub(r"\b(?:extents_type|Extents|E)::rank\(\)", "rank", e)
    e = re.sub(r"\brank_\b", "rank", e)
    e = re.sub(r"\brank\(\)", "rank", e)
    e = re.sub(r"\b(?:m\.)?(?:extents_|extents\(\)|extents)\.extent\(", "extent(", e)
    e = e.replace("indices.back()", "indices[rank-1]").replace("indices.front()", "indices[0]")
    e = re.sub(r"\bstrides_\[", "strides[", e)
    return e


TOK = re.compile(r"(\d+)|([A-Za-z_][A-Za-z_0-9]*)|([-+*()\[\]])")


class Expr:
    """expression over + - * ( ) numbers, variables and extent(e) / indices[e] / strides[e]  ->  AST
       ('num', n) | ('var', name) | ('app', array, arg) | ('bin', op, l, r)"""

    def __init__(self, text, env):
        self.text = canon(text)
        self.env = env  # C++ name -> Lean name
        self.toks = []
        pos = 0
        while pos < len(self.text):
            m = TOK.match(self.text, pos)
            if not m:
                raise TranslateError("cannot tokenise %r at %d" % (self.text, pos))
            self.toks.append(m.group(0))
            pos = m.end()
        self.i = 0

    def peek(self):
        return self.toks[self.i] if self.i < len(self.toks) else None

    def eat(self, t=None):
        x = self.peek()
        if x is None or (t is not None and x != t):
            raise TranslateError("expected %r in %r" % (t, self.text))
        self.i += 1
        return x

    def parse(self):
        r = self.add()
        if self.peek() is not None:
            raise TranslateError("trailing tokens in %r" % self.text)
        return r

    def add(self):
        l = self.mul()
        while self.peek() in ("+", "-"):
            op = self.eat()
            r = self.mul()
            l = ("bin", op, l, r)
        return l

    def mul(self):
        l = self.prim()
        while self.peek() == "*":
            self.eat()
            r = self.prim()
            l = ("bin", "*", l, r)
        return l

    def prim(self):
        t = self.eat()
        if t == "(":
            r = self.add()
            self.eat(")")
            return r
        if t.isdigit():
            return ("num", int(t))
        if t in ("extent", "indices", "strides"):
            if t not in self.env:
                raise TranslateError("%s is not available in this function: %r" % (t, self.text))
            close = {"(": ")", "[": "]"}.get(self.eat())
            if close is None:
                raise TranslateError("expected ( or [ after %s in %r" % (t, self.text))
            r = self.add()
            self.eat(close)
            return ("app", t, r)
        if t in self.env:
            return ("var", self.env[t])
        raise TranslateError("unknown identifier %r in %r" % (t, self.text))


def lean(a, top=True):
    k = a[0]
    if k == "num":
        return str(a[1])
    if k == "var":
        return a[1]
    if k == "app":
        s = "%s %s" % (a[1], lean(a[2], False))
    else:
        s = "%s %s %s" % (lean(a[2], False), a[1], lean(a[3], False))
    return s if top else "(" + s + ")"


def ev(a, env):
    """value over the naturals (truncated subtraction, like Lean's Nat)"""
    k = a[0]
    if k == "num":
        return a[1]
    if k == "var":
        return env[a[1]]
    if k == "app":
        return env[a[1]](ev(a[2], env))
    x, y = ev(a[2], env), ev(a[3], env)
    if a[1] == "+":
        return x + y
    if a[1] == "*":
        return x * y
    return max(x - y, 0)


FOR = re.compile(
    r"for\s*\(\s*(?:[\w:]+\s+)?(\w+)\s*=\s*([^;]+);\s*(\w+)\s*(<=|<)\s*([^;]+);\s*(?:\+\+\s*(\w+)|(\w+)\s*\+\+)\s*\)", re.S)


def loop_function(body, avail, what):
    """body: `T acc = INIT; for (...) {...} return acc;`  -> dict(init, lo, hi, lets, step) of ASTs"""
    body = body.strip()
    mfor = FOR.search(body)
    if not mfor:
        raise TranslateError("%s: no counting for-loop found" % what)
    pre, post = body[:mfor.start()], body[mfor.end():]
    var = mfor.group(1)
    if mfor.group(3) != var or (mfor.group(6) or mfor.group(7)) != var:
        raise TranslateError("%s: loop does not count one variable upwards" % what)
    # accumulator declaration = the last `T name = expr;` before the loop
    decls = re.findall(r"(?:const\s+)?[\w:]+\s+(\w+)\s*=\s*([^;{}]+);", pre)
    if not decls:
        raise TranslateError("%s: no accumulator declaration before the loop" % what)
    acc, init = decls[-1]
    env0 = dict(avail)
    init_a = Expr(init, env0).parse()
    lo_a = Expr(mfor.group(2), env0).parse()
    hi_a = Expr(mfor.group(5), env0).parse()
    if mfor.group(4) == "<=":
        hi_a = ("bin", "+", hi_a, ("num", 1))
    # loop body
    post = post.strip()
    if post.startswith("{"):
        depth = 0
        for k, c in enumerate(post):
            depth += c == "{"
            depth -= c == "}"
            if depth == 0:
                break
        lbody, rest = post[1:k], post[k + 1:]
    else:
        k = post.find(";")
        lbody, rest = post[:k + 1], post[k + 1:]
    mret = re.search(r"return\s+(\w+)\s*;", rest)
    if not mret or mret.group(1) != acc:
        raise TranslateError("%s: the function does not return its accumulator" % what)
    env = dict(avail)
    env[var] = "r"
    env[acc] = "acc"
    lets = []
    step = None
    for st in [s.strip() for s in lbody.split(";") if s.strip()]:
        if st.startswith("assert"):
            continue
        m = re.fullmatch(r"(?:const\s+)?[\w:]+\s+(\w+)\s*=\s*(.+)", st, flags=re.S)
        if m and m.group(1) != acc:
            name = "v_" + m.group(1)
            lets.append((name, Expr(m.group(2), env).parse()))
            env[m.group(1)] = name
            continue
        m = re.fullmatch(r"(\w+)\s*(\*=|\+=|=)\s*(.+)", st, flags=re.S)
        if m and m.group(1) == acc and step is None:
            rhs = Expr(m.group(3), env).parse()
            if m.group(2) == "*=":
                rhs = ("bin", "*", ("var", "acc"), rhs)
            elif m.group(2) == "+=":
                rhs = ("bin", "+", ("var", "acc"), rhs)
            step = rhs
            continue
        raise TranslateError("%s: statement outside the grammar: %r" % (what, st))
    if step is None:
        raise TranslateError("%s: no update of the accumulator in the loop" % what)
    return dict(init=init_a, lo=lo_a, hi=hi_a, lets=lets, step=step)


def run_loop(parts, env):
    """value the translated function computes for the given inputs"""
    e = dict(env)
    acc = ev(parts["init"], e)
    for r in range(ev(parts["lo"], e), ev(parts["hi"], e)):
        e["r"], e["acc"] = r, acc
        for (n, a) in parts["lets"]:
            e[n] = ev(a, e)
        acc = ev(parts["step"], e)
    return acc


def emit(name, params, parts, doc):
    """Lean text of one translated loop function"""
    ptxt = " ".join(params)
    out = ["/-- %s -/" % doc,
           "def %s_init %s : Nat := %s" % (name, ptxt, lean(parts["init"])),
           "def %s_lo %s : Nat := %s" % (name, ptxt, lean(parts["lo"])),
           "def %s_hi %s : Nat := %s" % (name, ptxt, lean(parts["hi"])),
           "def %s_step %s (r acc : Nat) : Nat :=" % (name, ptxt)]
    for (n, a) in parts["lets"]:
        out.append("  let %s := %s" % (n, lean(a)))
    out.append("  " + lean(parts["step"]))
    return "\n".join(out)


# ------------------------------------------------------------------------------------------------
# the functions
# ------------------------------------------------------------------------------------------------

P_OFF = ["(rank : Nat)", "(indices extent : Nat → Nat)"]
P_STR = ["(rank : Nat)", "(extent : Nat → Nat)", "(i : Nat)"]
P_PROD = ["(rank : Nat)", "(extent : Nat → Nat)"]
P_SIZE = ["(rank : Nat)", "(extent strides : Nat → Nat)"]
ENV_OFF = {"rank": "rank", "indices": "indices", "extent": "extent"}
ENV_PROD = {"rank": "rank", "extent": "extent"}
ENV_SIZE = {"rank": "rank", "extent": "extent", "strides": "strides"}


def tr_offset(src, name, doc):
    _, body = body_after(src, r"operator\s*\(\)\s*\(\s*Indices\s*\.\.\.\s*\w+\s*\)\s*const\s*(?:noexcept)?\s*\{")
    parts = loop_function(body, ENV_OFF, doc)
    return parts, {}, emit(name, P_OFF, parts, doc)


def tr_stride(src, name, doc):
    m, body = body_after(src, r"\bstride\s*\(\s*rank_type\s+(\w+)\s*\)\s*const\s*(?:noexcept)?\s*\{")
    env = dict(ENV_PROD)
    env[m.group(1)] = "i"
    parts = loop_function(body, env, doc)
    return parts, {}, emit(name, P_STR, parts, doc)


def tr_product(src, name, doc):
    _, body = body_after(src, r"\bproduct\s*\(\s*\)\s*const\s*(?:noexcept)?\s*\{")
    parts = loop_function(body, ENV_PROD, doc)
    return parts, {}, emit(name, P_PROD, parts, doc)


def tr_mdsize(src, name, doc):
    _, body = body_after(src, r"\bsize\s*\(\s*\)\s*const\s*(?:noexcept)?\s*\{")
    parts = loop_function(body, ENV_PROD, doc)
    return parts, {}, emit(name, P_PROD, parts, doc)


def tr_size(src, name, doc):
    m, body = body_after(src, r"\bsize\s*\(\s*const\s+\w+\s*&\s*(\w+)\s*,\s*const\s+\w+\s*&\s*(\w+)\s*\)\s*(?:noexcept)?\s*\{")
    ext, strd = m.group(1), m.group(2)
    flat = re.sub(r"\s+", " ", body)
    m0 = re.search(r"if\s+constexpr\s*\(\s*\w+::rank\(\)\s*==\s*0\s*\)\s*\{?\s*return\s+(\d+)\s*;", flat)
    m1 = re.search(r"if\s*\(\s*%s\.product\(\)\s*==\s*0\s*\)\s*\{?\s*return\s+(\d+)\s*;" % re.escape(ext), flat)
    if not m0 or not m1 or m0.start() > m1.start():
        raise TranslateError("%s: rank-0 / empty-product guards not found in this order" % doc)
    rest = flat[m1.end():]
    rest = re.sub(r"\b%s\.extent\(" % re.escape(ext), "extent(", rest)
    rest = re.sub(r"\b%s\[" % re.escape(strd), "strides[", rest)
    parts = loop_function(rest, ENV_SIZE, doc)
    consts = {"rank0": int(m0.group(1)), "empty": int(m1.group(1))}
    txt = ["/-- %s: value for rank 0 -/" % doc, "def %s_rank0 : Nat := %s" % (name, m0.group(1)),
           "/-- %s: value when the product of the extents is 0 -/" % doc, "def %s_empty : Nat := %s" % (name, m1.group(1)),
           emit(name, P_SIZE, parts, doc)]
    return parts, consts, "\n".join(txt)


# ------------------------------------------------------------------------------------------------
# mdarray(const mdspan& other [, const Alloc& a]): the member initialisers
# ------------------------------------------------------------------------------------------------

def balanced(s, i):
    """s[i] is an opening bracket: index behind its partner"""
    pairs = {"(": ")", "{": "}"}
    close = pairs[s[i]]
    depth, j = 0, i
    while j < len(s):
        if s[j] in "({":
            depth += 1
        elif s[j] in ")}":
            depth -= 1
            if depth == 0:
                if s[j] != close:
                    raise TranslateError("mismatched brackets")
                return j + 1
        j += 1
    raise TranslateError("unbalanced brackets")


def member_inits(src, start):
    """`: a_(x) , b_{y} {`  ->  ([(name, args)], index of the body's opening brace)"""
    i = start
    res = []
    while True:
        m = re.compile(r"\s*(\w+)\s*(?=[({])").match(src, i)
        if not m:
            raise TranslateError("member initialiser expected")
        j = balanced(src, m.end())
        res.append((m.group(1), re.sub(r"\s+", "", src[m.end() + 1:j - 1])))
        m2 = re.compile(r"\s*,").match(src, j)
        if m2:
            i = m2.end()
            continue
        m3 = re.compile(r"\s*\{").match(src, j)
        if not m3:
            raise TranslateError("constructor body expected")
        return res, m3.end() - 1


def unwrap(e):
    """strip redundant parentheses and size casts"""
    while True:
        m = re.fullmatch(r"(?:static_cast<(?:std::)?size_t>|(?:std::)?size_t|size_type|static_cast<size_type>)\((.*)\)", e)
        if m and balanced(e, e.index("(")) == len(e):
            e = m.group(1)
            continue
        if e.startswith("(") and balanced(e, 0) == len(e):
            e = e[1:-1]
            continue
        return e


def classify_count(e, other):
    e = unwrap(e)
    o = re.escape(other)
    if re.fullmatch(r"(?:mapping_type|typename\w+::mapping_type)[({]%s\.mapping\(\)[)}]\.required_span_size\(\)" % o, e):
        return "span"
    if re.fullmatch(r"%s\.mapping\(\)\.required_span_size\(\)" % o, e):
        return "ospan"
    if re.fullmatch(r"%s\.size\(\)" % o, e):
        return "size"
    raise TranslateError("element count %r of the container is not one of the known forms" % e)


def tr_from_mdspan(src, name, doc):
    head = re.compile(r"constexpr\s+mdarray\s*\(\s*const\s+mdspan\s*<[^>]*>\s*&\s*(\w+)\s*(?:,\s*const\s+\w+\s*&\s*(\w+)\s*)?\)\s*(?:noexcept)?\s*:")
    found = {}
    for m in head.finditer(src):
        other, alloc = m.group(1), m.group(2)
        inits, b = member_inits(src, m.end())
        d = dict(inits)
        if [n for n, _ in inits] != ["container_", "mapping_"]:
            raise TranslateError("%s: member initialisers %s" % (doc, [n for n, _ in inits]))
        if d["mapping_"] != other + ".mapping()":
            raise TranslateError("%s: mapping_ is initialised with %r" % (doc, d["mapping_"]))
        body = re.sub(r"\s+", "", src[b:balanced(src, b)])
        if body != "{init_from_mdspan(%s);}" % other:
            raise TranslateError("%s: constructor body %r" % (doc, body[:80]))
        c = d["container_"]
        if alloc is None:
            mm = re.fullmatch(r"construct_container<\w+>\((.*)\)", c)
            if not mm:
                raise TranslateError("%s: container_ is initialised with %r" % (doc, c))
            found["plain"] = classify_count(mm.group(1), other)
        else:
            if not c.endswith("," + alloc):
                raise TranslateError("%s: container_ is initialised with %r" % (doc, c))
            found["alloc"] = classify_count(c[:-len(alloc) - 1], other)
    if sorted(found) != ["alloc", "plain"]:
        raise TranslateError("%s: expected the constructor with and without allocator, found %s" % (doc, sorted(found)))
    txt = ["/-- %s: the number of elements `container_` is created with, as a function of" % doc,
           "    `span = mapping_type(other.mapping()).required_span_size()`, `ospan = other.mapping().required_span_size()`,",
           "    `size = other.size()`; `mapping_(other.mapping())`, body `init_from_mdspan(other)` -/",
           "def %s_csize (span ospan size : Nat) : Nat := %s" % (name, found["plain"]),
           "/-- the same for `mdarray(const mdspan& other, const Alloc& a)` -/",
           "def %s_alloc_csize (span ospan size : Nat) : Nat := %s" % (name, found["alloc"])]
    return found, {}, "\n".join(txt)


def tr_from_mapping(src, name, doc):
    """the four constructors from a mapping: (m) (m, v) (m, a) (m, v, a)"""
    head = re.compile(r"constexpr\s+mdarray\s*\(\s*const\s+mapping_type\s*&\s*(\w+)\s*"
                      r"(?:,\s*const\s+value_type\s*&\s*(\w+)\s*)?(?:,\s*const\s+Alloc\s*&\s*(\w+)\s*)?\)\s*(?:noexcept)?\s*:")
    found = {}
    for m in head.finditer(src):
        mp, val, alloc = m.group(1), m.group(2), m.group(3)
        inits, b = member_inits(src, m.end())
        d = dict(inits)
        if [n for n, _ in inits] != ["container_", "mapping_"]:
            raise TranslateError("%s: member initialisers %s" % (doc, [n for n, _ in inits]))
        if d["mapping_"] != mp:
            raise TranslateError("%s: mapping_ is initialised with %r" % (doc, d["mapping_"]))
        if re.sub(r"\s+", "", src[b:balanced(src, b)]) != "{}":
            raise TranslateError("%s: constructor body is not empty" % doc)
        c = d["container_"]
        tail = "".join("," + x for x in (val, alloc) if x)
        if alloc is None:
            mm = re.fullmatch(r"construct_container<\w+>\((.*)\)", c)
            if not mm:
                raise TranslateError("%s: container_ is initialised with %r" % (doc, c))
            c = mm.group(1)
        if tail and not c.endswith(tail):
            raise TranslateError("%s: container_ is initialised with %r" % (doc, c))
        e = unwrap(c[:len(c) - len(tail)] if tail else c)
        key = ("val" if val else "") + ("alloc" if alloc else "") or "plain"
        if e == mp + ".required_span_size()":
            found[key] = "span"
        elif e in (mp + ".extents().product()", "construct_size(%s)" % mp):
            found[key] = "size"
        else:
            raise TranslateError("%s: element count %r of the container is not one of the known forms" % (doc, e))
    if sorted(found) != ["alloc", "plain", "val", "valalloc"]:
        raise TranslateError("%s: expected four constructors from a mapping, found %s" % (doc, sorted(found)))
    worst = "size" if "size" in found.values() else "span"
    txt = ["/-- %s: the number of elements `container_` is created with, as a function of" % doc,
           "    `span = m.required_span_size()` and `size = m.extents().product()`; `mapping_(m)`, empty body",
           "    (%s) -/" % ", ".join("%s: %s" % (k, found[k]) for k in sorted(found)),
           "def %s_csize (span size : Nat) : Nat := %s" % (name, worst)]
    return found, {}, "\n".join(txt)


def tr_stride_fold(src, name, doc):
    """layout_stride::mapping::operator()(Indices... ii): the fold expression `((T(ii) * strides_[r]) + ... + INIT)`"""
    m, body = body_after(src, r"operator\s*\(\)\s*\(\s*Indices\s*\.\.\.\s*(\w+)\s*\)\s*const\s*(?:noexcept)?\s*\{")
    pack = m.group(1)
    flat = re.sub(r"\s+", "", body)
    mm = re.fullmatch(r"returnunpackIntegerSequence\(\[&\]\(auto\.\.\.(\w+)\)\{return(.*);\},"
                      r"std::make_index_sequence<(?:rank_|extents_type::rank\(\)|rank\(\))>\{\}\);", flat)
    if not mm:
        raise TranslateError("%s: not a fold expression inside unpackIntegerSequence over make_index_sequence<rank_>" % doc)
    rv, fold = mm.group(1), unwrap(mm.group(2))
    if fold.count("+...+") != 1:
        raise TranslateError("%s: not a binary fold over +: %r" % (doc, fold))
    a, b = fold.split("+...+")
    term, init = (a, b) if pack in re.findall(r"\w+", a) else (b, a)   # right or left fold: + is associative and commutative
    if pack in re.findall(r"\w+", init) or pack not in re.findall(r"\w+", term):
        raise TranslateError("%s: fold %r" % (doc, fold))
    term = re.sub(r"(?:static_cast<index_type>|index_type)\(%s\)" % re.escape(pack), "i", term)
    term = re.sub(r"\b%s\b" % re.escape(pack), "i", term)
    term, n = re.subn(r"\bstrides_\[%s\]" % re.escape(rv), "s", term)
    if n == 0 or re.search(r"\b%s\b" % re.escape(rv), term):
        raise TranslateError("%s: term %r" % (doc, term))
    init = re.sub(r"(?:static_cast<index_type>|index_type)\((\d+)\)", r"\1", init)
    env = {"i": "i", "s": "s"}
    parts = dict(term=Expr(term, env).parse(), init=Expr(init, {}).parse())
    txt = ["/-- %s: one summand of the fold expression, as a function of the index `i` and `strides_[r]` = `s` -/" % doc,
           "def %s_term (i s : Nat) : Nat := %s" % (name, lean(parts["term"])),
           "/-- the initial value of the fold -/",
           "def %s_init : Nat := %s" % (name, lean(parts["init"]))]
    return parts, {}, "\n".join(txt)


# ------------------------------------------------------------------------------------------------
# span.hh: the sub-view functions first / last / subspan (run-time and template forms) and subspan_extent
# ------------------------------------------------------------------------------------------------

CTOK = re.compile(r"(\d+)|([A-Za-z_][A-Za-z_0-9]*)|(<=|>=|==|!=|&&|\|\||[-+*()<>?:!])")


class CExpr:
    """C++ expression over + - * comparisons && || ! ?: numbers and variables -> typed AST
       ('num', n) ('var', name) ('bin', op, l, r) ('not', x) ('ite', c, a, b)"""

    def __init__(self, text, names):
        self.text = text
        self.names = names
        self.toks = []
        pos = 0
        while pos < len(text):
            m = CTOK.match(text, pos)
            if not m:
                raise TranslateError("cannot tokenise %r at %d" % (text, pos))
            self.toks.append(m.group(0))
            pos = m.end()
        self.i = 0

    def peek(self):
        return self.toks[self.i] if self.i < len(self.toks) else None

    def eat(self, t=None):
        x = self.peek()
        if x is None or (t is not None and x != t):
            raise TranslateError("expected %r in %r" % (t, self.text))
        self.i += 1
        return x

    def parse(self):
        r = self.cond()
        if self.peek() is not None:
            raise TranslateError("trailing tokens in %r" % self.text)
        return r

    def cond(self):
        c = self.lor()
        if self.peek() == "?":
            self.eat()
            a = self.cond()
            self.eat(":")
            b = self.cond()
            return ("ite", c, a, b)
        return c

    def lor(self):
        l = self.land()
        while self.peek() == "||":
            self.eat()
            l = ("bin", "||", l, self.land())
        return l

    def land(self):
        l = self.cmp()
        while self.peek() == "&&":
            self.eat()
            l = ("bin", "&&", l, self.cmp())
        return l

    def cmp(self):
        l = self.add()
        if self.peek() in ("<=", "<", ">=", ">", "==", "!="):
            op = self.eat()
            return ("bin", op, l, self.add())
        return l

    def add(self):
        l = self.mul()
        while self.peek() in ("+", "-"):
            op = self.eat()
            l = ("bin", op, l, self.mul())
        return l

    def mul(self):
        l = self.unary()
        while self.peek() == "*":
            self.eat()
            l = ("bin", "*", l, self.unary())
        return l

    def unary(self):
        if self.peek() == "!":
            self.eat()
            return ("not", self.unary())
        t = self.eat()
        if t == "(":
            r = self.cond()
            self.eat(")")
            return r
        if t.isdigit():
            return ("num", int(t))
        if t == "not":
            return ("not", self.unary())
        if t in self.names:
            return ("var", self.names[t])
        raise TranslateError("unknown identifier %r in %r" % (t, self.text))


BOOLOPS = ("<=", "<", ">=", ">", "==", "!=", "&&", "||")


def is_bool(a):
    return a[0] == "not" or (a[0] == "bin" and a[1] in BOOLOPS) or (a[0] == "ite" and is_bool(a[2]))


def clean(a, want_bool):
    """type check"""
    k = a[0]
    if k in ("num", "var"):
        if want_bool:
            raise TranslateError("number used as condition")
        return
    if k == "not":
        if not want_bool:
            raise TranslateError("condition used as number")
        clean(a[1], True)
        return
    if k == "ite":
        clean(a[1], True)
        clean(a[2], want_bool)
        clean(a[3], want_bool)
        return
    op = a[1]
    if op in ("&&", "||"):
        if not want_bool:
            raise TranslateError("condition used as number")
        clean(a[2], True)
        clean(a[3], True)
    elif op in BOOLOPS:
        if not want_bool:
            raise TranslateError("condition used as number")
        clean(a[2], False)
        clean(a[3], False)
    else:
        if want_bool:
            raise TranslateError("number used as condition")
        clean(a[2], False)
        clean(a[3], False)


LEANCMP = {"<=": "≤", "<": "<", ">=": "≥", ">": ">", "==": "=", "!=": "≠"}


def clean_lean(a):
    k = a[0]
    if k == "num":
        return str(a[1])
    if k == "var":
        return a[1]
    if k == "not":
        return "(!%s)" % clean_lean(a[1])
    if k == "ite":
        return "(if %s = true then %s else %s)" % (clean_lean(a[1]), clean_lean(a[2]), clean_lean(a[3]))
    op = a[1]
    if op in ("&&", "||"):
        return "(%s %s %s)" % (clean_lean(a[2]), op, clean_lean(a[3]))
    if op in LEANCMP:
        return "(decide (%s %s %s))" % (clean_lean(a[2]), LEANCMP[op], clean_lean(a[3]))
    return "(%s %s %s)" % (clean_lean(a[2]), op, clean_lean(a[3]))


def cev(a, env):
    """value over the naturals (truncated subtraction like Lean's Nat) / booleans"""
    k = a[0]
    if k == "num":
        return a[1]
    if k == "var":
        return env[a[1]]
    if k == "not":
        return not cev(a[1], env)
    if k == "ite":
        return cev(a[2], env) if cev(a[1], env) else cev(a[3], env)
    op = a[1]
    if op == "&&":
        return cev(a[2], env) and cev(a[3], env)
    if op == "||":
        return cev(a[2], env) or cev(a[3], env)
    x, y = cev(a[2], env), cev(a[3], env)
    return {"<=": x <= y, "<": x < y, ">=": x >= y, ">": x > y, "==": x == y, "!=": x != y,
            "+": x + y, "*": x * y, "-": max(x - y, 0)}[op]


DYN = 18446744073709551615
SPAN_PARAMS = "(dyn ext size offset count : Nat)"


def span_text(e):
    e = re.sub(r"\s+", " ", e).strip()
    e = re.sub(r"\bsize\s*\(\s*\)", "size", e)
    e = re.sub(r"\bdata\s*\(\s*\)", "data", e)
    e = re.sub(r"\b(?:Std::|std::|Dune::Std::)?dynamic_extent\b", "dyn", e)
    return e.replace(" ", "")


def top_split(s, sep=","):
    out, depth, cur = [], 0, ""
    for c in s:
        if c in "({[":
            depth += 1
        elif c in ")}]":
            depth -= 1
        if c == sep and depth == 0:
            out.append(cur)
            cur = ""
        else:
            cur += c
    out.append(cur)
    return out


SPAN_FUNCS = {
    # name: (regex of the function head up to the opening brace; groups = parameter names: [offset,] count)
    "span_tfirst": r"template\s*<\s*std::size_t\s+(\w+)\s*>\s*constexpr\s+span\s*<[^;{}]*>\s*first\s*\(\s*\)\s*const\s*(?:noexcept)?\s*\{",
    "span_tlast": r"template\s*<\s*std::size_t\s+(\w+)\s*>\s*constexpr\s+span\s*<[^;{}]*>\s*last\s*\(\s*\)\s*const\s*(?:noexcept)?\s*\{",
    "span_tsub": r"template\s*<\s*std::size_t\s+(\w+)\s*,\s*std::size_t\s+(\w+)\s*=\s*(?:Std::)?dynamic_extent\s*>\s*constexpr\s+span\s*<[^;{}]*>\s*subspan\s*\(\s*\)\s*const\s*(?:noexcept)?\s*\{",
    "span_first": r"constexpr\s+span\s*<[^;{}]*>\s*first\s*\(\s*size_type\s+(\w+)\s*\)\s*const\s*(?:noexcept)?\s*\{",
    "span_last": r"constexpr\s+span\s*<[^;{}]*>\s*last\s*\(\s*size_type\s+(\w+)\s*\)\s*const\s*(?:noexcept)?\s*\{",
    "span_sub": r"constexpr\s+span\s*<[^;{}]*>\s*subspan\s*\(\s*size_type\s+(\w+)\s*,\s*size_type\s+(\w+)\s*=\s*(?:Std::)?dynamic_extent\s*\)\s*const\s*(?:noexcept)?\s*\{",
}


def tr_span(src, name, doc):
    m, body = body_after(src, SPAN_FUNCS[name])
    names = {"size": "size", "dyn": "dyn", "data": "data", "Extent": "ext"}
    if m.lastindex == 2:
        names[m.group(1)] = "offset"
        names[m.group(2)] = "count"
    else:
        names[m.group(1)] = "count"
    pre = None
    ret = None
    for st in [x.strip() for x in top_split(body, ";") if x.strip()]:
        if st.startswith("static_assert"):
            continue
        ma = re.fullmatch(r"assert\s*\((.*)\)", st, flags=re.S)
        if ma:
            if pre is not None or ret is not None:
                raise TranslateError("%s: more than one assertion / assertion after return" % doc)
            pre = ma.group(1)
            continue
        mr = re.fullmatch(r"return\s*(?:span\s*<.*>\s*)?\{(.*)\}", st, flags=re.S)
        if mr and ret is None:
            ret = mr.group(1)
            continue
        raise TranslateError("%s: statement outside the grammar: %r" % (doc, st[:80]))
    if pre is None or ret is None:
        raise TranslateError("%s: assertion or return missing" % doc)
    args = top_split(ret)
    if len(args) != 2:
        raise TranslateError("%s: the returned span is not built from (pointer, size)" % doc)
    p_pre = CExpr(span_text(pre), names).parse()
    p_ptr = CExpr(span_text(args[0]), names).parse()
    p_size = CExpr(span_text(args[1]), names).parse()

    def has_data(a):
        return a == ("var", "data") or any(has_data(x) for x in a[1:] if isinstance(x, tuple))
    if p_ptr == ("var", "data"):
        p_off = ("num", 0)
    elif p_ptr[0] == "bin" and p_ptr[1] == "+" and p_ptr[2] == ("var", "data") and not has_data(p_ptr[3]):
        p_off = p_ptr[3]
    elif p_ptr[0] == "bin" and p_ptr[1] == "+" and p_ptr[3] == ("var", "data") and not has_data(p_ptr[2]):
        p_off = p_ptr[2]
    else:
        raise TranslateError("%s: pointer of the returned span is not data() + offset" % doc)
    if has_data(p_pre) or has_data(p_size):
        raise TranslateError("%s: data() outside the pointer argument" % doc)
    clean(p_pre, True)
    clean(p_off, False)
    clean(p_size, False)
    parts = dict(pre=p_pre, off=p_off, size=p_size)
    txt = ["/-- %s: the asserted precondition, and offset (relative to `data()`) and size of the returned span;" % doc,
           "    `dyn` = `Std::dynamic_extent`, `ext` = the static `Extent` of the span (`dyn` or equal to `size`), `size` = `size()` -/",
           "def %s_pre %s : Bool := %s" % (name, SPAN_PARAMS, clean_lean(p_pre)),
           "def %s_off %s : Nat := %s" % (name, SPAN_PARAMS, clean_lean(p_off)),
           "def %s_size %s : Nat := %s" % (name, SPAN_PARAMS, clean_lean(p_size))]
    return parts, {}, "\n".join(txt)


def tr_subspan_extent(src, name, doc):
    m, body = body_after(src, r"subspan_extent\s*\(\s*std::size_t\s+(\w+)\s*,\s*std::size_t\s+(\w+)\s*\)\s*(?:noexcept)?\s*\{")
    names = {"dyn": "dyn", "Extent": "ext", m.group(1): "offset", m.group(2): "count"}
    mr = re.fullmatch(r"\s*return\s+(.*);\s*", body, flags=re.S)
    if not mr:
        raise TranslateError("%s: not a single return statement" % doc)
    a = CExpr(span_text(mr.group(1)), names).parse()
    clean(a, False)
    txt = ["/-- %s: static extent of `subspan<Offset,Count>()` of a span with static extent `ext` (`dyn` = dynamic) -/" % doc,
           "def %s (dyn ext offset count : Nat) : Nat := %s" % (name, clean_lean(a))]
    return dict(val=a), {}, "\n".join(txt)


def same_span(name, pn, pr):
    vals = list(range(0, 8)) + [DYN]
    if name == "span_subspan_extent":
        for ext in vals:
            for o in range(0, 6):
                for c in vals:
                    e = {"dyn": DYN, "ext": ext, "offset": o, "count": c}
                    if ext != DYN and o > ext:
                        continue  # static_assert(Offset <= Extent)
                    if cev(pn["val"], e) != cev(pr["val"], e):
                        return False
        return True
    for size in range(0, 8):
        for ext in (size, DYN):  # a static extent equals size()
            for o in range(0, 9):
                for c in vals:
                    e = {"dyn": DYN, "ext": ext, "size": size, "offset": o, "count": c}
                    a, b = cev(pn["pre"], e), cev(pr["pre"], e)
                    if a != b:
                        return False
                    if a and (cev(pn["off"], e) != cev(pr["off"], e) or cev(pn["size"], e) != cev(pr["size"], e)):
                        return False
    return True


FUNCS = [
    ("left", "dune/common/std/layout_left.hh", tr_offset, "layout_left::mapping::operator()(Indices...)"),
    ("left_stride", "dune/common/std/layout_left.hh", tr_stride, "layout_left::mapping::stride(i)"),
    ("right", "dune/common/std/layout_right.hh", tr_offset, "layout_right::mapping::operator()(Indices...)"),
    ("right_stride", "dune/common/std/layout_right.hh", tr_stride, "layout_right::mapping::stride(i)"),
    ("product", "dune/common/std/extents.hh", tr_product, "extents::product()"),
    ("stride_size", "dune/common/std/layout_stride.hh", tr_size, "layout_stride::mapping::size(extents,strides)"),
    ("stride_fold", "dune/common/std/layout_stride.hh", tr_stride_fold, "layout_stride::mapping::operator()(Indices...)"),
    ("mdspan_size", "dune/common/std/mdspan.hh", tr_mdsize, "mdspan::size()"),
    ("mdarray_size", "dune/common/std/mdarray.hh", tr_mdsize, "mdarray::size()"),
    ("mdarray_from_mapping", "dune/common/std/mdarray.hh", tr_from_mapping, "mdarray(const mapping_type& m[, const value_type& v][, const Alloc& a])"),
    ("mdarray_from_mdspan", "dune/common/std/mdarray.hh", tr_from_mdspan, "mdarray(const mdspan& other[, const Alloc& a])"),
    ("span_first", "dune/common/std/span.hh", tr_span, "span::first(count)"),
    ("span_last", "dune/common/std/span.hh", tr_span, "span::last(count)"),
    ("span_sub", "dune/common/std/span.hh", tr_span, "span::subspan(offset, count)"),
    ("span_tfirst", "dune/common/std/span.hh", tr_span, "span::first<Count>()"),
    ("span_tlast", "dune/common/std/span.hh", tr_span, "span::last<Count>()"),
    ("span_tsub", "dune/common/std/span.hh", tr_span, "span::subspan<Offset,Count>()"),
    ("span_subspan_extent", "dune/common/std/span.hh", tr_subspan_extent, "span::subspan_extent(O, C)"),
]

# The reference: the functions as they read when the theorems were written.
REFERENCE = {
    "left": """
  constexpr index_type operator() (Indices... ii) const noexcept
  {
    const std::array indices{index_type(std::move(ii))...};
    index_type value = indices.back();
    for (rank_type r = 1; r < extents_type::rank(); ++r) {
      const rank_type j = extents_type::rank()-r;
      value = indices[j-1] + extents_.extent(j-1) * value;
    }
    return value;
  }""",
    "left_stride": """
  constexpr index_type stride (rank_type i) const noexcept
  {
    assert(i < extents_type::rank());
    index_type prod = 1;
    for (rank_type r = 0; r < i; ++r)
      prod *= extents().extent(r);
    return prod;
  }""",
    "right": """
  constexpr index_type operator() (Indices... ii) const noexcept
  {
    const std::array indices{index_type(std::move(ii))...};
    index_type value = indices.front();
    for (rank_type j = 0; j < extents_type::rank()-1; ++j) {
      value = indices[j+1] + extents_.extent(j+1) * value;
    }
    return value;
  }""",
    "right_stride": """
  constexpr index_type stride (rank_type i) const noexcept
  {
    assert(i < extents_type::rank());
    index_type prod = 1;
    for (rank_type r = i+1; r < extents_type::rank(); ++r)
      prod *= extents().extent(r);
    return prod;
  }""",
    "product": """
  constexpr size_type product () const noexcept
  {
    size_type prod = 1;
    for (rank_type i = 0; i < rank(); ++i)
      prod *= extent(i);
    return prod;
  }""",
    "stride_size": """
  static constexpr index_type size (const E& extents, const S& strides) noexcept
  {
    if constexpr (E::rank() == 0)
      return 1;
    else {
      if (extents.product() == 0)
        return 0;
      else {
        index_type result = 1;
        for (rank_type r = 0; r < E::rank(); ++r)
          result += (extents.extent(r)-1) * strides[r];
        return result;
      }
    }
  }""",
    "mdspan_size": """
  constexpr size_type size () const noexcept
  {
    size_type s = 1;
    for (rank_type r = 0; r < rank(); ++r)
      s *= extent(r);
    return s;
  }""",
    "mdarray_size": """
  constexpr size_type size () const noexcept
  {
    size_type s = 1;
    for (rank_type r = 0; r < rank(); ++r)
      s *= extent(r);
    return s;
  }""",
}

REFERENCE["mdarray_from_mdspan"] = """
  constexpr mdarray (const mdspan<OtherElementType,OtherExtents,OtherLayoutPolicy,Accessor>& other)
    : container_(construct_container<container_type>(mapping_type(other.mapping()).required_span_size()))
    , mapping_(other.mapping())
  {
    init_from_mdspan(other);
  }
  constexpr mdarray (const mdspan<V,E,L,A>& other, const Alloc& a)
    : container_(mapping_type(other.mapping()).required_span_size(), a)
    , mapping_(other.mapping())
  {
    init_from_mdspan(other);
  }"""

REFERENCE["span_tfirst"] = """
  template <std::size_t Count>
  constexpr span<element_type, Count> first () const
  {
    static_assert(Count <= Extent);
    assert(Count <= size());
    return span<element_type, Count>{data(), Count};
  }"""
REFERENCE["span_tlast"] = """
  template <std::size_t Count>
  constexpr span<element_type, Count> last () const
  {
    static_assert(Count <= Extent);
    assert(Count <= size());
    return span<element_type, Count>{data()+ (size() - Count), Count};
  }"""
REFERENCE["span_subspan_extent"] = """
  static constexpr std::size_t subspan_extent (std::size_t O, std::size_t C) noexcept
  {
    return (C != Std::dynamic_extent) ? C :
      (Extent != Std::dynamic_extent) ? Extent - O : Std::dynamic_extent;
  }"""
REFERENCE["span_tsub"] = """
  template <std::size_t Offset, std::size_t Count = Std::dynamic_extent>
  constexpr span<element_type, subspan_extent(Offset,Count)> subspan () const
  {
    static_assert(Offset <= Extent && (Count == Std::dynamic_extent || Count <= Extent - Offset));
    assert(Offset <= size() && (Count == Std::dynamic_extent || Count <= size() - Offset));
    return span<element_type, subspan_extent(Offset,Count)>{
      data() + Offset, Count != Std::dynamic_extent ? Count : size() - Offset};
  }"""
REFERENCE["span_first"] = """
  constexpr span<element_type, Std::dynamic_extent> first (size_type count) const
  {
    assert(count <= size());
    return span<element_type, Std::dynamic_extent>{data(), count};
  }"""
REFERENCE["span_last"] = """
  constexpr span<element_type, Std::dynamic_extent> last (size_type count) const
  {
    assert(count <= size());
    return span<element_type, Std::dynamic_extent>{data()+ (size() - count), count};
  }"""
REFERENCE["span_sub"] = """
  constexpr span<element_type, Std::dynamic_extent> subspan (size_type offset, size_type count = Std::dynamic_extent) const
  {
    assert(offset <= size() && (count == Std::dynamic_extent || count <= size() - offset));
    return span<element_type, Std::dynamic_extent>{
      data() + offset, count == Std::dynamic_extent ? size() - offset : count};
  }"""

REFERENCE["stride_fold"] = """
  constexpr index_type operator() (Indices... ii) const noexcept
  {
    return unpackIntegerSequence([&](auto... r) {
      return ((static_cast<index_type>(ii)*strides_[r]) + ... + 0); },
      std::make_index_sequence<rank_>{});
  }"""

REFERENCE["mdarray_from_mapping"] = """
  explicit constexpr mdarray (const mapping_type& m)
    : container_(construct_container<C>(m.required_span_size()))
    , mapping_(m)
  {}
  constexpr mdarray (const mapping_type& m, const value_type& v)
    : container_(construct_container<C>(m.required_span_size(), v))
    , mapping_(m)
  {}
  constexpr mdarray (const mapping_type& m, const Alloc& a)
    : container_(m.required_span_size(), a)
    , mapping_(m)
  {}
  constexpr mdarray (const mapping_type& m, const value_type& v, const Alloc& a)
    : container_(m.required_span_size(), v, a)
    , mapping_(m)
  {}"""

GEN = "DuneVerif/Gen/C14.lean"
HEADER = ("-- GENERATED by tools/translators/tr_c14.py from dune/common/std/{layout_left,layout_right,layout_stride,extents,mdspan,mdarray,span}.hh"
          " -- do not edit\n")


def same_function(name, new, ref, samples=3000):
    """do the two translations compute the same values?  (ranks 1..5, small extents incl. 0 and 1, valid indices where
       the index space is not empty, any strides)"""
    pn, cn, _ = new
    pr, cr, _ = ref
    if cn != cr:
        return False
    if name.startswith("span_"):
        return same_span(name, pn, pr)
    if name == "stride_fold":
        for i in range(12):
            for st in range(12):
                e = {"i": i, "s": st}
                if ev(pn["term"], e) != ev(pr["term"], e) or ev(pn["init"], e) != ev(pr["init"], e):
                    return False
        return True
    if name in ("mdarray_from_mdspan", "mdarray_from_mapping"):  # data, not a loop: equal iff the same classification
        return pn == pr
    rng = random.Random(14)
    for _ in range(samples):
        rank = rng.randint(1, 5)
        if name in ("left", "right", "stride_size"):  # only called for non-empty index spaces
            E = [rng.randint(1, 5) for _ in range(rank)]
        else:
            E = [rng.choice((0, 1, 1, 2, 3, 4, 5)) if rng.random() < 0.3 else rng.randint(1, 5) for _ in range(rank)]
        I = [rng.randint(0, max(e - 1, 0)) for e in E]
        S = [rng.randint(0, 9) for _ in range(rank)]
        env = {"rank": rank, "i": rng.randint(0, rank - 1),
               "extent": (lambda k, E=E: E[k] if 0 <= k < len(E) else 0),
               "indices": (lambda k, I=I: I[k] if 0 <= k < len(I) else 0),
               "strides": (lambda k, S=S: S[k] if 0 <= k < len(S) else 0)}
        try:
            if run_loop(pn, env) != run_loop(pr, env):
                return False
        except Exception:
            return False
    return True


def translate(repo):
    out = [HEADER + "set_option linter.unusedVariables false\nnamespace DV.C14.Gen"]
    for (name, path, fn, doc) in FUNCS:
        ref = fn(strip_comments(REFERENCE[name]), name, doc)
        tag = ""
        try:
            src = strip_comments(open(os.path.join(repo, path)).read())
            new = fn(src, name, doc)
            if new[2] == ref[2]:
                block = new[2]
            elif same_function(name, new, ref):
                block = ref[2]
                tag = " (canonicalised: the source reads differently but computes the reference values on all samples)"
            else:
                block = new[2]
                tag = " (differs from the reference)"
                sys.stderr.write("tr_c14: %s computes different values than the reference translation\n" % doc)
        except (TranslateError, OSError) as ex:
            sys.stderr.write("tr_c14: %s is outside the translator's grammar (%s); keeping the reference translation, "
                             "the differential run remains the tie\n" % (doc, str(ex)[:200]))
            block = ref[2]
            tag = " (kept: source outside the translator's grammar)"
        out.append("-- BEGIN %s%s\n%s\n-- END %s" % (name, tag, block, name))
    out.append("end DV.C14.Gen")
    return [(GEN, "\n\n".join(out) + "\n")]


if __name__ == "__main__":
    for p, c in translate(sys.argv[1] if len(sys.argv) > 1 else os.environ.get("VERIF_REPO", "/repo")):
        sys.stdout.write(c)
