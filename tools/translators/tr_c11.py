"""Translator for C11 (round four): the straight-line index arithmetic of dune/common/arraylist.hh and the block
addressing of dune/common/bitsetvector.hh are re-read from the source on every run and emitted as
lean/DuneVerif/Gen/C11.lean; Props/C11.lean proves (`gen_*_tied`) that every generated definition is the formula the
hand-written model uses, and re-states the central refinement facts through the generated definitions.  Changing a
formula, a condition, a loop bound or the order of the statements of one of these functions therefore changes what the
theorems have to prove.

How a function body is read: a small symbolic executor over straight-line code.  Locals are inlined (renaming a local
is quiet), members are updated in statement order (`x = e`, `x += e`, `x -= e`, `++x`, `--x`, a pre-increment inside an
expression), the result of a function is the tuple of final member values / the returned expression / the argument of
the one call the function forwards to, as Lean `Nat` (or `Int`) expressions in the *initial* member values.  `assert`s are
dropped after checking that their argument is free of side effects.  Anything else (an unknown statement, an unknown
identifier, a call, a shift, a cast, ...) is outside the grammar: TranslateError, which check.py reports as a broken
obligation and follows by a search for a failing input.  Commuted operands and re-associated sums change the generated
text but not the truth of the `gen_*_tied` theorems (they are closed by normalising tactics), so they are quiet.
"""
import ast
import os
import re


class TranslateError(Exception):
    pass


def _strip_comments(src):
    src = re.sub(r"/\*.*?\*/", " ", src, flags=re.S)
    return re.sub(r"//[^\n]*", "", src)


def _body_after(src, pos, what):
    """the text of the brace block that starts at the first `{` at or after pos"""
    i = src.find("{", pos)
    if i < 0:
        raise TranslateError("%s: no body" % what)
    depth = 0
    for j in range(i, len(src)):
        if src[j] == "{":
            depth += 1
        elif src[j] == "}":
            depth -= 1
            if depth == 0:
                return src[i + 1:j]
    raise TranslateError("%s: unbalanced braces" % what)


def _find_bodies(src, sig_re, what, count):
    ms = list(re.finditer(sig_re, src))
    if len(ms) != count:
        raise TranslateError("%s: expected %d definition(s), found %d" % (what, count, len(ms)))
    out = []
    for m in ms:
        # nothing but an initialiser list / whitespace may stand between the signature and the body
        out.append((m, _body_after(src, m.end(), what)))
    return out


_PREFIX = re.compile(r"\b(?:list_\s*->|this\s*->|other\s*\.\s*(?=position_))")


class Sym:
    """symbolic straight-line execution; values are Lean expression strings over the parameter names"""

    def __init__(self, what, params, ty="Nat"):
        self.what = what
        self.env = dict((k, v) for k, v in params.items())
        self.ty = ty
        self.assigned = []

    # ---- expressions ----
    def expr(self, e):
        e0 = e
        e = e.strip()
        e = re.sub(r"\blist_\s*->\s*", "", e)
        e = re.sub(r"\bthis\s*->\s*", "", e)
        e = re.sub(r"\bother\s*\.\s*position_", "other__position_", e)
        # pre-increment of a variable inside the expression: evaluated first
        for m in list(re.finditer(r"\+\+\s*([A-Za-z_]\w*)", e)):
            self.update(m.group(1), "(%s + 1)" % self.lookup(m.group(1)))
        e = re.sub(r"\+\+\s*([A-Za-z_]\w*)", r"\1", e)
        if "--" in e or "++" in e:
            raise TranslateError("%s: increment/decrement inside %r is outside the grammar" % (self.what, e0))
        e = re.sub(r"\b(\d+)[uUlL]*\b", r"\1", e)
        e = re.sub(r"!\s*(?!=)", " not ", e)
        e = re.sub(r"\s+", " ", e).strip()
        if not re.fullmatch(r"[\w\s+\-*/%()<>=!]+", e):
            raise TranslateError("%s: expression outside the grammar: %r" % (self.what, e0))
        try:
            tree = ast.parse(e.replace("/", "//"), mode="eval")
        except SyntaxError:
            raise TranslateError("%s: expression outside the grammar: %r" % (self.what, e0))
        return self._ev(tree.body, e0)

    def lookup(self, name):
        if name not in self.env:
            raise TranslateError("%s: unknown identifier %r" % (self.what, name))
        return self.env[name]

    def _ev(self, n, e0):
        if isinstance(n, ast.Constant) and isinstance(n.value, int) and not isinstance(n.value, bool):
            return str(n.value)
        if isinstance(n, ast.Name):
            return self.lookup(n.id)
        if isinstance(n, ast.BinOp):
            ops = {ast.Add: "+", ast.Sub: "-", ast.Mult: "*", ast.FloorDiv: "/", ast.Mod: "%"}
            if type(n.op) not in ops:
                raise TranslateError("%s: operator outside the grammar in %r" % (self.what, e0))
            return "(%s %s %s)" % (self._ev(n.left, e0), ops[type(n.op)], self._ev(n.right, e0))
        if isinstance(n, ast.Compare) and len(n.ops) == 1:
            ops = {ast.Eq: "==", ast.NotEq: "!=", ast.Lt: "<", ast.LtE: "<=", ast.Gt: ">", ast.GtE: ">="}
            o = ops.get(type(n.ops[0]))
            if o is None:
                raise TranslateError("%s: comparison outside the grammar in %r" % (self.what, e0))
            a, b = self._ev(n.left, e0), self._ev(n.comparators[0], e0)
            if o in ("==", "!="):
                return "(%s %s %s)" % (a, o, b)
            return "(decide (%s %s %s))" % (a, {"<": "<", "<=": "≤", ">": ">", ">=": "≥"}[o], b)
        if isinstance(n, ast.UnaryOp) and isinstance(n.op, ast.Not):
            return "(!%s)" % self._ev(n.operand, e0)
        if isinstance(n, ast.UnaryOp) and isinstance(n.op, ast.USub) and self.ty == "Int":
            return "(-%s)" % self._ev(n.operand, e0)
        raise TranslateError("%s: expression outside the grammar: %r" % (self.what, e0))

    # ---- statements ----
    def update(self, name, val):
        name = re.sub(r"^(?:list_\s*->|this\s*->)\s*", "", name.strip())
        if name not in self.env:
            raise TranslateError("%s: assignment to unknown %r" % (self.what, name))
        self.env[name] = val
        self.assigned.append(name)

    def stmt(self, s):
        """returns True when the statement was one of the generic forms"""
        s = s.strip()
        if not s:
            return True
        m = re.fullmatch(r"assert\s*\((.*)\)", s, flags=re.S)
        if m:
            a = m.group(1)
            if re.search(r"\+\+|--|[^=!<>]=[^=]", a):
                raise TranslateError("%s: assert with a side effect: %r" % (self.what, s))
            return True
        m = re.fullmatch(r"(?:const\s+)?(?:std::)?(?:size_t|size_type|auto|difference_type)\s+(?:const\s+)?([A-Za-z_]\w*)\s*=\s*(.+)", s, flags=re.S)
        if m:
            if m.group(1) in self.env:
                raise TranslateError("%s: local %r shadows a known name" % (self.what, m.group(1)))
            self.env[m.group(1)] = self.expr(m.group(2))
            return True
        m = re.fullmatch(r"((?:list_\s*->\s*)?[A-Za-z_]\w*)\s*(\+|-|\*|/|%|)=\s*([^=].*)", s, flags=re.S)
        if m:
            rhs = self.expr(m.group(3))
            name = re.sub(r"^list_\s*->\s*", "", m.group(1))
            if m.group(2):
                rhs = "(%s %s %s)" % (self.lookup(name), m.group(2), rhs)
            self.update(name, rhs)
            return True
        m = re.fullmatch(r"(\+\+|--)\s*((?:list_\s*->\s*)?[A-Za-z_]\w*)", s) or None
        if m:
            name = re.sub(r"^list_\s*->\s*", "", m.group(2))
            self.update(name, "(%s %s 1)" % (self.lookup(name), "+" if m.group(1) == "++" else "-"))
            return True
        m = re.fullmatch(r"((?:list_\s*->\s*)?[A-Za-z_]\w*)\s*(\+\+|--)", s)
        if m:
            name = re.sub(r"^list_\s*->\s*", "", m.group(1))
            self.update(name, "(%s %s 1)" % (self.lookup(name), "+" if m.group(2) == "++" else "-"))
            return True
        return False


def _stmts(body):
    """top-level `;`-separated statements of a body without nested blocks"""
    if "{" in body or "}" in body:
        raise TranslateError("nested block where straight-line code was expected: %r" % body.strip()[:80])
    return [s.strip() for s in body.split(";") if s.strip()]


_T = r"template\s*<\s*class\s+T\s*,\s*int\s+N\s*,\s*class\s+A\s*>\s*"
_AL = r"ArrayList\s*<\s*T\s*,\s*N\s*,\s*A\s*>\s*::\s*"
_IT = r"ArrayListIterator\s*<\s*T\s*,\s*N\s*,\s*A\s*>\s*::\s*"
_CIT = r"ConstArrayListIterator\s*<\s*T\s*,\s*N\s*,\s*A\s*>\s*::\s*"


def _single_return(body, what):
    st = _stmts(body)
    st = [s for s in st if not re.match(r"assert\s*\(", s) and not re.match(r"DUNE_ASSERT_BOUNDS\s*\(", s)]
    if len(st) != 1 or not st[0].startswith("return"):
        raise TranslateError("%s: expected a single return statement, got %r" % (what, st))
    return st[0][len("return"):].strip()


def _defn(name, params, ty, val, doc=None):
    ps = " ".join("(%s : %s)" % (p, t) for p, t in params)
    return ("/-- %s -/\n" % doc if doc else "") + "def %s %s : %s := %s" % (name, ps, ty, val)


def _arraylist(repo, out):
    src = _strip_comments(open(os.path.join(repo, "dune/common/arraylist.hh")).read())

    # ---- chunkSize_ : all three classes must define it, identically ----
    cs = re.findall(r"constexpr\s+static\s+int\s+chunkSize_\s*=\s*([^;]+);|static\s+constexpr\s+int\s+chunkSize_\s*=\s*([^;]+);", src)
    cs = [re.sub(r"\s+", "", a or b) for a, b in cs]
    if len(cs) != 3 or len(set(cs)) != 1:
        raise TranslateError("chunkSize_: expected three identical definitions, got %r" % cs)
    m = re.fullmatch(r"\(?\(?N>(\d+)\)?\?N:(\d+)\)?", cs[0]) or re.fullmatch(r"\(?\(?(\d+)<N\)?\?N:(\d+)\)?", cs[0])
    if not m:
        raise TranslateError("chunkSize_ formula outside the grammar: %r" % cs[0])
    out.append(_defn("chunkSize", [("N", "Int")], "Nat", "if N > %s then N.toNat else %s" % (m.group(1), m.group(2)),
                     "`chunkSize_` of ArrayList and of both iterator classes"))

    nat = "Nat"

    # ---- ArrayList::elementAt (mutable and const): chunks_[E1]->operator[](E2) ----
    bodies = _find_bodies(src, _T + r"typename\s+ArrayList<T,N,A>::(?:const_)?reference\s+" + _AL + r"elementAt\s*\(\s*size_type\s+(\w+)\s*\)\s*(?:const)?", "ArrayList::elementAt", 2)
    for (m, body), suf in zip(bodies, ("", "C")):
        r = _single_return(body, "ArrayList::elementAt")
        mm = re.fullmatch(r"(?:\(\s*\*\s*chunks_\s*\[(.+)\]\s*\)\s*\[(.+)\]|chunks_\s*\[(.+)\]\s*->\s*operator\[\]\s*\((.+)\)|chunks_\s*\[(.+)\]\s*->\s*at\s*\((.+)\))", r, flags=re.S)
        if not mm:
            raise TranslateError("ArrayList::elementAt: return expression outside the grammar: %r" % r)
        g = [x for x in mm.groups() if x is not None]
        sy = Sym("ArrayList::elementAt", {m.group(1): "i", "chunkSize_": "cs"})
        out.append(_defn("alElemChunk" + suf, [("cs", nat), ("i", nat)], nat, sy.expr(g[0]),
                         "ArrayList::elementAt(i)%s: index into chunks_" % (" const" if suf else "")))
        out.append(_defn("alElemOffset" + suf, [("cs", nat), ("i", nat)], nat, sy.expr(g[1]),
                         "ArrayList::elementAt(i)%s: index inside the chunk" % (" const" if suf else "")))

    # ---- operator[] (2): return elementAt(E) ----
    bodies = _find_bodies(src, _T + r"typename\s+ArrayList<T,N,A>::(?:const_)?reference\s+" + _AL + r"operator\[\]\s*\(\s*size_type\s+(\w+)\s*\)\s*(?:const)?", "ArrayList::operator[]", 2)
    for (m, body), suf in zip(bodies, ("", "C")):
        r = _single_return(body, "ArrayList::operator[]")
        mm = re.fullmatch(r"elementAt\s*\((.+)\)", r, flags=re.S)
        if not mm:
            raise TranslateError("ArrayList::operator[]: expected `return elementAt(...)`, got %r" % r)
        sy = Sym("ArrayList::operator[]", {m.group(1): "i", "start_": "start", "size_": "size", "capacity_": "capacity", "chunkSize_": "cs"})
        out.append(_defn("alIndexArg" + suf, [("cs", nat), ("start", nat), ("size", nat), ("capacity", nat), ("i", nat)], nat, sy.expr(mm.group(1)),
                         "ArrayList::operator[](i)%s: the absolute index handed to elementAt" % (" const" if suf else "")))

    # ---- begin / end (4): XIterator<T,N,A>(*this, E) ----
    for fn, lean in (("begin", "alBegin"), ("end", "alEnd")):
        bodies = _find_bodies(src, _T + r"(?:Const)?ArrayListIterator<T,N,A>\s+" + _AL + fn + r"\s*\(\s*\)\s*(?:const)?", "ArrayList::" + fn, 2)
        for (m, body), suf in zip(bodies, ("", "C")):
            r = _single_return(body, "ArrayList::" + fn)
            mm = re.fullmatch(r"(?:Const)?ArrayListIterator\s*<\s*T\s*,\s*N\s*,\s*A\s*>\s*\(\s*\*this\s*,(.+)\)", r, flags=re.S)
            if not mm:
                raise TranslateError("ArrayList::%s: return expression outside the grammar: %r" % (fn, r))
            sy = Sym("ArrayList::" + fn, {"start_": "start", "size_": "size", "capacity_": "capacity", "chunkSize_": "cs"})
            out.append(_defn(lean + suf, [("cs", nat), ("start", nat), ("size", nat), ("capacity", nat)], nat, sy.expr(mm.group(1)),
                             "position_ of ArrayList::%s()%s" % (fn, " const" if suf else "")))

    # ---- size() ----
    bodies = _find_bodies(src, _T + r"size_t\s+" + _AL + r"size\s*\(\s*\)\s*const", "ArrayList::size", 1)
    sy = Sym("ArrayList::size", {"start_": "start", "size_": "size", "capacity_": "capacity", "chunkSize_": "cs"})
    out.append(_defn("alSize", [("cs", nat), ("start", nat), ("size", nat), ("capacity", nat)], nat,
                     sy.expr(_single_return(bodies[0][1], "ArrayList::size")), "ArrayList::size()"))

    # ---- iterator elementAt / dereference (2 + 2): list_->elementAt(E) ----
    for cls, sig, suf in (("ArrayListIterator", _IT, ""), ("ConstArrayListIterator", _CIT, "C")):
        bodies = _find_bodies(src, _T + r"typename\s+" + cls + r"<T,N,A>::reference\s+" + sig + r"elementAt\s*\(\s*size_type\s+(\w+)\s*\)\s*const", cls + "::elementAt", 1)
        m, body = bodies[0]
        r = _single_return(body, cls + "::elementAt")
        mm = re.fullmatch(r"list_\s*->\s*elementAt\s*\((.+)\)", r, flags=re.S)
        if not mm:
            raise TranslateError("%s::elementAt: expected `return list_->elementAt(...)`, got %r" % (cls, r))
        sy = Sym(cls + "::elementAt", {m.group(1): "i", "position_": "pos", "chunkSize_": "cs"})
        out.append(_defn("itElemArg" + suf, [("cs", nat), ("pos", nat), ("i", nat)], nat, sy.expr(mm.group(1)),
                         "%s::elementAt(i) = operator[] of an iterator: the absolute index handed to the list" % cls))
        bodies = _find_bodies(src, _T + r"typename\s+" + cls + r"<T,N,A>::reference\s+" + sig + r"dereference\s*\(\s*\)\s*const", cls + "::dereference", 1)
        r = _single_return(bodies[0][1], cls + "::dereference")
        mm = re.fullmatch(r"list_\s*->\s*elementAt\s*\((.+)\)", r, flags=re.S)
        if not mm:
            raise TranslateError("%s::dereference: expected `return list_->elementAt(...)`, got %r" % (cls, r))
        sy = Sym(cls + "::dereference", {"position_": "pos", "chunkSize_": "cs"})
        out.append(_defn("itDerefArg" + suf, [("cs", nat), ("pos", nat)], nat, sy.expr(mm.group(1)), "%s::dereference()" % cls))

    # ---- iterator distanceTo (2), equals (3), advance / increment / decrement (2 each): Int / Bool ----
    intp = {"position_": "pos", "other__position_": "other"}
    for cls, sig, suf in (("ArrayListIterator", _IT, ""), ("ConstArrayListIterator", _CIT, "C")):
        bodies = _find_bodies(src, _T + r"typename\s+" + cls + r"<T,N,A>::difference_type\s+" + sig + r"distanceTo\s*\(\s*const\s+" + cls + r"<T,N,A>&\s*other\s*\)\s*const", cls + "::distanceTo", 1)
        sy = Sym(cls + "::distanceTo", intp)
        out.append(_defn("itDistanceTo" + suf, [("pos", "Int"), ("other", "Int")], "Int", sy.expr(_single_return(bodies[0][1], cls + "::distanceTo")),
                         "%s::distanceTo(other)" % cls))
        for fn, lean, params, sigargs in (("advance", "itAdvance", [("pos", "Int"), ("n", "Int")], r"difference_type\s+(\w+)"),
                                          ("increment", "itIncrement", [("pos", "Int")], ""),
                                          ("decrement", "itDecrement", [("pos", "Int")], "")):
            bodies = _find_bodies(src, _T + r"void\s+" + sig + fn + r"\s*\(\s*" + sigargs + r"\s*\)", cls + "::" + fn, 1)
            m, body = bodies[0]
            env = {"position_": "pos"}
            if sigargs:
                env[m.group(1)] = "n"
            sy = Sym(cls + "::" + fn, env)
            for s in _stmts(body):
                if not sy.stmt(s):
                    raise TranslateError("%s::%s: statement outside the grammar: %r" % (cls, fn, s))
            out.append(_defn(lean + suf, params, "Int", sy.env["position_"], "%s::%s: the new position_" % (cls, fn)))
    eqs = _find_bodies(src, _T + r"bool\s+(?:Const)?ArrayListIterator<T,N,A>::equals\s*\(\s*const\s+(?:Const)?ArrayListIterator<MemberType,N,A>&\s*other\s*\)\s*const", "equals", 3)
    for (m, body), suf in zip(eqs, ("", "M", "C")):
        sy = Sym("equals", {"position_": "pos", "other__position_": "other"})
        out.append(_defn("itEquals" + suf, [("pos", nat), ("other", nat)], "Bool", sy.expr(_single_return(body, "equals")),
                         "equals: iterator/iterator, iterator/const_iterator, const_iterator/const_iterator (in source order)"))

    mem = {"start_": "start", "size_": "size", "capacity_": "capacity", "chunkSize_": "cs"}
    P4 = [("cs", nat), ("start", nat), ("size", nat), ("capacity", nat)]

    # ---- clear ----
    bodies = _find_bodies(src, _T + r"void\s+" + _AL + r"clear\s*\(\s*\)", "ArrayList::clear", 1)
    sy = Sym("ArrayList::clear", mem)
    cleared = 0
    for s in _stmts(bodies[0][1]):
        if re.fullmatch(r"chunks_\s*\.\s*clear\s*\(\s*\)", s):
            cleared += 1
        elif not sy.stmt(s):
            raise TranslateError("ArrayList::clear: statement outside the grammar: %r" % s)
    if cleared != 1:
        raise TranslateError("ArrayList::clear: chunks_.clear() expected exactly once")
    for mname, lean in (("capacity_", "clearCapacity"), ("size_", "clearSize"), ("start_", "clearStart")):
        out.append(_defn(lean, P4, nat, sy.env[mname], "ArrayList::clear(): %s afterwards (chunks_ is cleared)" % mname))

    # ---- push_back ----
    bodies = _find_bodies(src, _T + r"void\s+" + _AL + r"push_back\s*\(\s*const_reference\s+(\w+)\s*\)", "ArrayList::push_back", 1)
    m, body = bodies[0]
    entry = m.group(1)
    mm = re.fullmatch(r"(.*?)\bif\s*\((.*?)\)\s*\{(.*?)\}(.*)", body, flags=re.S)
    if not mm:
        raise TranslateError("ArrayList::push_back: expected `...; if(cond) { ... } ...`")
    sy = Sym("ArrayList::push_back", mem)
    for s in _stmts(mm.group(1)):
        if not sy.stmt(s):
            raise TranslateError("ArrayList::push_back: statement outside the grammar: %r" % s)
    cond = sy.expr(mm.group(2))
    before = dict(sy.env)
    grown = 0
    for s in _stmts(mm.group(3)):
        if re.fullmatch(r"chunks_\s*\.\s*(?:push_back|emplace_back)\s*\(\s*std::make_shared\s*<\s*std::array\s*<\s*MemberType\s*,\s*chunkSize_\s*>\s*>\s*\(\s*\)\s*\)", s):
            grown += 1
        elif not sy.stmt(s):
            raise TranslateError("ArrayList::push_back: statement outside the grammar: %r" % s)
    if grown != 1:
        raise TranslateError("ArrayList::push_back: exactly one chunk must be appended when the list grows")
    if set(k for k in sy.env if sy.env[k] != before.get(k)) - {"capacity_"}:
        raise TranslateError("ArrayList::push_back: the growing branch may change capacity_ only")
    capgrown = sy.env["capacity_"]
    sy.env = before
    sy.env["capacity_"] = "capacity"      # the tail is translated for a given capacity (either branch)
    wrote = None
    for s in _stmts(mm.group(4)):
        w = re.fullmatch(r"elementAt\s*\((.+)\)\s*=\s*%s" % re.escape(entry), s, flags=re.S)
        if w:
            if wrote is not None:
                raise TranslateError("ArrayList::push_back: two writes")
            if "size_" in sy.assigned:
                raise TranslateError("ArrayList::push_back: size_ changed before the element is written")
            wrote = sy.expr(w.group(1))
        elif not sy.stmt(s):
            raise TranslateError("ArrayList::push_back: statement outside the grammar: %r" % s)
    if wrote is None:
        raise TranslateError("ArrayList::push_back: no `elementAt(index)=entry`")
    out.append(_defn("pushGrow", P4, "Bool", cond, "push_back: a new chunk is appended iff"))
    out.append(_defn("pushGrownCapacity", P4, nat, capgrown, "push_back: capacity_ after appending a chunk"))
    out.append(_defn("pushWriteIndex", P4, nat, wrote, "push_back: absolute index the entry is written to"))
    out.append(_defn("pushSize", P4, nat, sy.env["size_"], "push_back: size_ afterwards"))
    out.append(_defn("pushStart", P4, nat, sy.env["start_"], "push_back: start_ afterwards"))

    # ---- purge ----
    bodies = _find_bodies(src, _T + r"void\s+" + _AL + r"purge\s*\(\s*\)", "ArrayList::purge", 1)
    body = bodies[0][1]
    mm = re.fullmatch(r"(.*?)\bif\s*\((.*?)\)\s*\{(.*)\}\s*", body, flags=re.S)
    if not mm:
        raise TranslateError("ArrayList::purge: expected `...; if(cond) { ... }`")
    sy = Sym("ArrayList::purge", mem)
    for s in _stmts(mm.group(1)):
        if not sy.stmt(s):
            raise TranslateError("ArrayList::purge: statement outside the grammar: %r" % s)
    if sy.assigned:
        raise TranslateError("ArrayList::purge: a member changes outside the guarded block")
    cond = sy.expr(mm.group(2))
    cfrom = cto = rsz = None
    for s in _stmts(mm.group(3)):
        c = re.fullmatch(r"std::(?:copy|move)\s*\(\s*chunks_\s*\.\s*begin\s*\(\s*\)\s*\+(.+?),\s*chunks_\s*\.\s*begin\s*\(\s*\)\s*\+(.+),\s*chunks_\s*\.\s*begin\s*\(\s*\)\s*\)", s, flags=re.S)
        r = re.fullmatch(r"chunks_\s*\.\s*resize\s*\((.+)\)", s, flags=re.S)
        if c:
            if cfrom is not None or rsz is not None:
                raise TranslateError("ArrayList::purge: copy must come once, before resize")
            cfrom, cto = sy.expr(c.group(1)), sy.expr(c.group(2))
        elif r:
            if rsz is not None or cfrom is None:
                raise TranslateError("ArrayList::purge: resize must come once, after the copy")
            rsz = sy.expr(r.group(1))
        elif not sy.stmt(s):
            raise TranslateError("ArrayList::purge: statement outside the grammar: %r" % s)
    if cfrom is None or rsz is None:
        raise TranslateError("ArrayList::purge: copy/resize of chunks_ not found")
    out.append(_defn("purgeCond", P4, "Bool", cond, "purge: something is done iff"))
    out.append(_defn("purgeCopyFrom", P4, nat, cfrom, "purge: first chunk index copied to the front"))
    out.append(_defn("purgeCopyTo", P4, nat, cto, "purge: end of the copied chunk range"))
    out.append(_defn("purgeResize", P4, nat, rsz, "purge: number of chunk pointers kept"))
    out.append(_defn("purgeStart", P4, nat, sy.env["start_"], "purge: start_ afterwards"))
    out.append(_defn("purgeCapacity", P4, nat, sy.env["capacity_"], "purge: capacity_ afterwards"))
    out.append(_defn("purgeSize", P4, nat, sy.env["size_"], "purge: size_ afterwards"))

    # ---- eraseToHere ----
    bodies = _find_bodies(src, _T + r"void\s+" + _IT + r"eraseToHere\s*\(\s*\)", "eraseToHere", 1)
    body = bodies[0][1]
    mm = re.fullmatch(r"(.*?)\bfor\s*\(\s*(?:std::)?size_t\s+(\w+)\s*=\s*0\s*;\s*(\w+)\s*<\s*([^;]+);\s*(?:\+\+\s*(\w+)|(\w+)\s*\+\+)\s*\)\s*\{(.*?)\}(.*)", body, flags=re.S)
    if not mm:
        raise TranslateError("eraseToHere: expected `...; for(size_t c=0; c<bound; c++) { ... } ...`")
    v = mm.group(2)
    if mm.group(3) != v or (mm.group(5) or mm.group(6)) != v:
        raise TranslateError("eraseToHere: loop header outside the grammar")
    sy = Sym("eraseToHere", dict(mem, position_="pos"))
    for s in _stmts(mm.group(1)):
        if not sy.stmt(s):
            raise TranslateError("eraseToHere: statement outside the grammar: %r" % s)
    bound = sy.expr(mm.group(4))
    lb = _stmts(mm.group(7))
    lm = None
    if len(lb) == 2:
        a = re.fullmatch(r"--\s*(\w+)", lb[0])
        b = re.fullmatch(r"list_\s*->\s*chunks_\s*\[\s*(\w+)\s*\]\s*\.\s*reset\s*\(\s*\)", lb[1])
        if a and b and a.group(1) == b.group(1):
            lm = a.group(1)
    elif len(lb) == 1:
        b = re.fullmatch(r"list_\s*->\s*chunks_\s*\[\s*--\s*(\w+)\s*\]\s*\.\s*reset\s*\(\s*\)", lb[0])
        if b:
            lm = b.group(1)
    if lm is None or lm == v or lm in mem or lm == "position_":
        raise TranslateError("eraseToHere: loop body outside the grammar: %r" % lb)
    first = sy.lookup(lm)
    for s in _stmts(mm.group(8)):
        if not sy.stmt(s):
            raise TranslateError("eraseToHere: statement outside the grammar: %r" % s)
    P5 = P4 + [("pos", nat)]
    out.append(_defn("erasePos", P5, nat, sy.env["position_"], "eraseToHere: position_ afterwards"))
    out.append(_defn("eraseSize", P5, nat, sy.env["size_"], "eraseToHere: size_ afterwards"))
    out.append(_defn("eraseStart", P5, nat, sy.env["start_"], "eraseToHere: start_ afterwards"))
    out.append(_defn("eraseCapacity", P5, nat, sy.env["capacity_"], "eraseToHere: capacity_ afterwards"))
    out.append(_defn("eraseLoopFirst", P5, nat, first, "eraseToHere: the chunk index the freeing loop counts down from (exclusive)"))
    out.append(_defn("eraseLoopCount", P5, nat, bound, "eraseToHere: number of chunk pointers reset"))


def _bitsetvector(repo, out):
    src = _strip_comments(open(os.path.join(repo, "dune/common/bitsetvector.hh")).read())
    nat = "Nat"
    k = src.find("class BitSetVector :")
    if k < 0:
        k = src.find("class BitSetVector:")
    if k < 0:
        raise TranslateError("class BitSetVector not found")
    cls = src[k:]
    # getBit (2)
    bodies = _find_bodies(cls, r"typename\s+std::vector<bool>::(?:const_)?reference\s+getBit\s*\(\s*size_type\s+(\w+)\s*,\s*size_type\s+(\w+)\s*\)\s*(?:const)?", "BitSetVector::getBit", 2)
    for (m, body), suf in zip(bodies, ("", "C")):
        r = _single_return(body, "BitSetVector::getBit")
        mm = re.fullmatch(r"BlocklessBaseClass::operator\[\]\s*\((.+)\)", r, flags=re.S)
        if not mm:
            raise TranslateError("BitSetVector::getBit: return expression outside the grammar: %r" % r)
        sy = Sym("BitSetVector::getBit", {m.group(1): "i", m.group(2): "j", "block_size": "B"})
        out.append(_defn("bvAddr" + suf, [("B", nat), ("i", nat), ("j", nat)], nat, sy.expr(mm.group(1)),
                         "BitSetVector::getBit(i,j)%s: index into the vector<bool>" % (" const" if suf else "")))
    # constructors (n), (n,v), resize, size, the vector<bool> constructor's test
    m = re.search(r"explicit\s+BitSetVector\s*\(\s*int\s+(\w+)\s*\)\s*:\s*BlocklessBaseClass\s*\(([^,()]+)\)\s*\{\s*\}", cls)
    if not m:
        raise TranslateError("BitSetVector(int n) outside the grammar")
    out.append(_defn("bvCtorLen", [("B", nat), ("n", nat)], nat, Sym("BitSetVector(n)", {m.group(1): "n", "block_size": "B"}).expr(m.group(2)), "BitSetVector(n): bits allocated"))
    m = re.search(r"BitSetVector\s*\(\s*int\s+(\w+)\s*,\s*bool\s+(\w+)\s*\)\s*:\s*BlocklessBaseClass\s*\(([^,()]+),\s*(\w+)\s*\)\s*\{\s*\}", cls)
    if not m or m.group(4) != m.group(2):
        raise TranslateError("BitSetVector(int n, bool v) outside the grammar")
    out.append(_defn("bvCtorLenV", [("B", nat), ("n", nat)], nat, Sym("BitSetVector(n,v)", {m.group(1): "n", "block_size": "B"}).expr(m.group(3)), "BitSetVector(n,v): bits allocated"))
    m = re.search(r"void\s+resize\s*\(\s*int\s+(\w+)\s*,\s*bool\s+(\w+)\s*=\s*bool\s*\(\s*\)\s*\)\s*\{\s*BlocklessBaseClass::resize\s*\(([^,()]+),\s*(\w+)\s*\)\s*;\s*\}", cls)
    if not m or m.group(4) != m.group(2):
        raise TranslateError("BitSetVector::resize outside the grammar")
    out.append(_defn("bvResizeLen", [("B", nat), ("n", nat)], nat, Sym("BitSetVector::resize", {m.group(1): "n", "block_size": "B"}).expr(m.group(3)), "resize(n,v): new number of bits"))
    m = re.search(r"size_type\s+size\s*\(\s*\)\s*const\s*\{\s*return\s+([^;]+);\s*\}", cls)
    if not m:
        raise TranslateError("BitSetVector::size outside the grammar")
    e = re.sub(r"BlocklessBaseClass::size\s*\(\s*\)", "len__", m.group(1))
    out.append(_defn("bvSize", [("B", nat), ("len", nat)], nat, Sym("BitSetVector::size", {"len__": "len", "block_size": "B"}).expr(e), "size(): number of blocks of a vector<bool> of `len` bits"))
    m = re.search(r"BitSetVector\s*\(\s*const\s+BlocklessBaseClass\s*&\s*(\w+)\s*\)\s*:\s*BlocklessBaseClass\s*\(\s*(\w+)\s*\)\s*\{\s*if\s*\((.+?)\)\s*DUNE_THROW\s*\(\s*RangeError\s*,", cls, flags=re.S)
    if not m or m.group(1) != m.group(2):
        raise TranslateError("BitSetVector(const vector<bool>&) outside the grammar")
    e = re.sub(r"\b%s\s*\.\s*size\s*\(\s*\)" % re.escape(m.group(1)), "len__", m.group(3))
    e = re.sub(r"(?:BlocklessBaseClass::|this\s*->\s*)size\s*\(\s*\)", "len__", e)
    out.append(_defn("bvCtorReject", [("B", nat), ("len", nat)], "Bool", Sym("BitSetVector(vector<bool>)", {"len__": "len", "block_size": "B"}).expr(e),
                     "BitSetVector(const vector<bool>&) throws RangeError iff"))


def _strip_noexcept(src):
    out, i = [], 0
    for m in re.finditer(r"\bnoexcept\b", src):
        if m.start() < i:
            continue
        out.append(src[i:m.start()])
        j = m.end()
        k = j
        while k < len(src) and src[k].isspace():
            k += 1
        if k < len(src) and src[k] == "(":
            depth = 0
            while k < len(src):
                if src[k] == "(":
                    depth += 1
                elif src[k] == ")":
                    depth -= 1
                    if depth == 0:
                        break
                k += 1
            j = k + 1
        i = j
    out.append(src[i:])
    return "".join(out)


def _reservedvector(repo, out):
    src = _strip_noexcept(_strip_comments(open(os.path.join(repo, "dune/common/reservedvector.hh")).read()))
    k = src.find("class ReservedVector")
    if k < 0:
        raise TranslateError("class ReservedVector not found")
    cls = src[k:]
    nat = "Nat"
    P = [("n", nat), ("size", nat)]
    PI = P + [("i", nat)]

    def env(extra=None):
        e = {"size_": "size", "n": "n"}
        e.update(extra or {})
        return e

    def norm(e):
        e = re.sub(r"\b(?:this\s*->\s*)?size\s*\(\s*\)", "size_", e)
        e = re.sub(r"\b(?:this\s*->\s*)?empty\s*\(\s*\)", "(size_==0)", e)
        return e

    def bodies(name_re, args_re, count, what, const=None):
        rx = r"(?:constexpr\s+|static\s+|inline\s+)*[\w:&<>\s\*]*?\b" + name_re + r"\s*\(\s*" + args_re + r"\s*\)\s*(const\b)?\s*(?=\{)"
        ms = [m for m in re.finditer(rx, cls)]
        if len(ms) != count:
            raise TranslateError("ReservedVector::%s: expected %d definition(s), found %d" % (what, count, len(ms)))
        return [(m, _body_after(cls, m.end(), what)) for m in ms]

    def split_checks(body, what, e):
        """-> (list of CHECKSIZE conditions as Lean, remaining statements)"""
        checks, rest = [], []
        for st in _stmts(re.sub(r"CHECKSIZE\s*\(([^;]*)\)\s*;", r"CHECKSIZE(\1);", body)):
            m = re.fullmatch(r"CHECKSIZE\s*\((.*)\)", st, flags=re.S)
            if m:
                checks.append(Sym(what, e).expr(norm(m.group(1))))
            else:
                rest.append(st)
        return checks, rest

    def accessor(name_re, args_re, lean, what, has_i):
        for (m, body), suf in zip(bodies(name_re, args_re, 2, what), ("", "C")):
            e = env({m.group(1): "i"} if has_i else None)
            checks, rest = split_checks(body, what, e)
            if len(rest) != 1 or len(checks) != 1:
                raise TranslateError("ReservedVector::%s: expected CHECKSIZE + one return" % what)
            r = re.fullmatch(r"return\s+storage_\s*\[(.+)\]", rest[0], flags=re.S)
            if not r:
                raise TranslateError("ReservedVector::%s: return outside the grammar: %r" % (what, rest[0]))
            out.append(_defn(lean + suf, PI if has_i else P, nat, Sym(what, e).expr(norm(r.group(1))), "ReservedVector::%s%s: slot read" % (what, " const" if suf else "")))
            out.append(_defn(lean + "Check" + suf, PI if has_i else P, "Bool", checks[0], "ReservedVector::%s%s: what CHECKSIZE asserts" % (what, " const" if suf else "")))

    accessor(r"operator\[\]", r"size_type\s+(\w+)", "rvIndex", "operator[]", True)
    accessor(r"front", r"", "rvFront", "front", False)
    accessor(r"back", r"", "rvBack", "back", False)

    # at (2): if (cond) throw ...; return storage_[E];
    for (m, body), suf in zip(bodies(r"at", r"size_type\s+(\w+)", 2, "at"), ("", "C")):
        e = env({m.group(1): "i"})
        r = re.fullmatch(r"\s*if\s*\((.+?)\)\s*throw\s+std::out_of_range\s*\([^;]*\)\s*;\s*return\s+storage_\s*\[(.+?)\]\s*;\s*", body, flags=re.S)
        if not r:
            raise TranslateError("ReservedVector::at outside the grammar")
        out.append(_defn("rvAtThrow" + suf, PI, "Bool", Sym("at", e).expr(norm(r.group(1))), "ReservedVector::at(i)%s throws std::out_of_range iff" % (" const" if suf else "")))
        out.append(_defn("rvAtIndex" + suf, PI, nat, Sym("at", e).expr(norm(r.group(2))), "ReservedVector::at(i)%s: slot read" % (" const" if suf else "")))

    # size / empty / capacity / max_size
    for name, lean, ty in (("size", "rvSize", nat), ("empty", "rvEmpty", "Bool"), ("capacity", "rvCapacity", nat), ("max_size", "rvMaxSize", nat)):
        (m, body), = bodies(name, r"", 1, name)
        out.append(_defn(lean, P, ty, Sym(name, env()).expr(_single_return(body, "ReservedVector::" + name)), "ReservedVector::%s()" % name))

    # clear / resize
    (m, body), = bodies(r"clear", r"", 1, "clear")
    sy = Sym("ReservedVector::clear", env())
    for st in _stmts(body):
        if not sy.stmt(st):
            raise TranslateError("ReservedVector::clear: statement outside the grammar: %r" % st)
    out.append(_defn("rvClearSize", P, nat, sy.env["size_"], "ReservedVector::clear(): size_ afterwards"))
    (m, body), = bodies(r"resize", r"size_type\s+(\w+)", 1, "resize")
    e = env({m.group(1): "i"})
    checks, rest = split_checks(body, "resize", e)
    sy = Sym("ReservedVector::resize", e)
    for st in rest:
        if not sy.stmt(st):
            raise TranslateError("ReservedVector::resize: statement outside the grammar: %r" % st)
    if len(checks) != 1:
        raise TranslateError("ReservedVector::resize: one CHECKSIZE expected")
    out.append(_defn("rvResizeSize", PI, nat, sy.env["size_"], "ReservedVector::resize(i): size_ afterwards"))
    out.append(_defn("rvResizeCheck", PI, "Bool", checks[0], "ReservedVector::resize(i): what CHECKSIZE asserts"))

    # push_back (2) and emplace_back: the slot written and the new size
    def push(body, what, lean):
        e = env()
        checks, rest = split_checks(body.split("p->~value_type")[0] if "p->~value_type" in body else body, what, e)
        if len(checks) != 1:
            raise TranslateError("ReservedVector::%s: one CHECKSIZE expected" % what)
        sy = Sym("ReservedVector::" + what, e)
        idx = None
        for st in rest:
            r = re.fullmatch(r"(?:value_type\s*\*\s*\w+\s*=\s*&\s*)?storage_\s*\[(.+?)\](?:\s*=\s*(?:\w+|std::move\s*\(\s*\w+\s*\)))?", st, flags=re.S)
            if r:
                if idx is not None:
                    raise TranslateError("ReservedVector::%s: two slot accesses" % what)
                ix = r.group(1).strip()
                pm = re.fullmatch(r"size_\s*\+\+", ix)
                if pm:
                    idx = sy.expr("size_")
                    sy.update("size_", "(%s + 1)" % sy.lookup("size_"))
                else:
                    idx = sy.expr(ix)
            elif not sy.stmt(st):
                raise TranslateError("ReservedVector::%s: statement outside the grammar: %r" % (what, st))
        if idx is None:
            raise TranslateError("ReservedVector::%s: no slot access" % what)
        out.append(_defn(lean + "Index", P, nat, idx, "ReservedVector::%s: slot written" % what))
        out.append(_defn(lean + "Size", P, nat, sy.env["size_"], "ReservedVector::%s: size_ afterwards" % what))
        out.append(_defn(lean + "Check", P, "Bool", checks[0], "ReservedVector::%s: what CHECKSIZE asserts" % what))
    pb = bodies(r"push_back", r"(?:const\s+value_type\s*&|value_type\s*&&)\s*\w+", 2, "push_back")
    push(pb[0][1], "push_back(const&)", "rvPush")
    push(pb[1][1], "push_back(&&)", "rvPushR")
    (m, body), = bodies(r"emplace_back", r"Args\s*&&\s*\.\.\.\s*\w+", 1, "emplace_back")
    push(body, "emplace_back", "rvEmplace")

    # pop_back: if (cond) stmt;
    (m, body), = bodies(r"pop_back", r"", 1, "pop_back")
    r = re.fullmatch(r"\s*if\s*\((.+)\)\s*([^;{}]+);\s*", body, flags=re.S)
    if not r:
        raise TranslateError("ReservedVector::pop_back outside the grammar")
    sy = Sym("ReservedVector::pop_back", env())
    cond = sy.expr(norm(r.group(1)))
    if not sy.stmt(r.group(2)):
        raise TranslateError("ReservedVector::pop_back: statement outside the grammar: %r" % r.group(2))
    out.append(_defn("rvPopCond", P, "Bool", cond, "ReservedVector::pop_back(): something is removed iff"))
    out.append(_defn("rvPopSize", P, nat, sy.env["size_"], "ReservedVector::pop_back(): size_ afterwards when something is removed"))

    # the iterator ranges: begin/cbegin at offset 0, end/cend/rbegin/crbegin at the generated offset, rend at 0
    def offset(r, what):
        r = r.strip()
        r = re.sub(r"^(?:const_)?reverse_iterator\s*\((.*)\)$", r"\1", r, flags=re.S).strip()
        mm = re.fullmatch(r"(?:storage_\s*\.\s*c?begin\s*\(\s*\)|c?begin\s*\(\s*\))\s*(?:\+(.+))?", r, flags=re.S)
        if not mm:
            raise TranslateError("ReservedVector::%s: return outside the grammar: %r" % (what, r))
        return Sym(what, env()).expr(norm(mm.group(1))) if mm.group(1) else "0"
    for name, cnt, lean in (("begin", 2, "rvBeginOff"), ("cbegin", 1, "rvCbeginOff"), ("end", 2, "rvEndOff"), ("cend", 1, "rvCendOff"),
                            ("rbegin", 2, "rvRbeginOff"), ("crbegin", 1, "rvCrbeginOff"), ("rend", 2, "rvRendOff"), ("crend", 1, "rvCrendOff")):
        for (m, body), suf in zip(bodies(name, r"", cnt, name), ("", "C")):
            body = re.sub(r"((?:const_)?reverse_iterator)\s*\{([^{}]*)\}", r"\1(\2)", body)
            out.append(_defn(lean + suf, P, nat, offset(_single_return(body, "ReservedVector::" + name), name),
                             "ReservedVector::%s()%s: offset into storage_" % (name, " const" if suf else "")))

    # fill: for (size_type i=0; i<BOUND; ++i) storage_[IDX] = value;
    (m, body), = bodies(r"fill", r"const\s+value_type\s*&\s*(\w+)", 1, "fill")
    r = re.fullmatch(r"\s*for\s*\(\s*size_type\s+(\w+)\s*=\s*0\s*;\s*(\w+)\s*<\s*([^;]+);\s*(?:\+\+\s*\w+|\w+\s*\+\+)\s*\)\s*\{?\s*storage_\s*\[(.+?)\]\s*=\s*%s\s*;\s*\}?\s*" % re.escape(m.group(1)), body, flags=re.S)
    if not r or r.group(1) != r.group(2):
        raise TranslateError("ReservedVector::fill outside the grammar")
    out.append(_defn("rvFillBound", P, nat, Sym("fill", env()).expr(norm(r.group(3))), "ReservedVector::fill: loop bound"))
    out.append(_defn("rvFillIndex", PI, nat, Sym("fill", env({r.group(1): "i"})).expr(norm(r.group(4))), "ReservedVector::fill: slot written in round i"))

    # hash_value: hash_range(v.storage_.data(), v.storage_.data()+E)
    r = re.search(r"hash_value\s*\(\s*const\s+ReservedVector\s*&\s*(\w+)\s*\)\s*\{\s*return\s+hash_range\s*\(\s*\1\.storage_\.data\(\)\s*,\s*\1\.storage_\.data\(\)\s*\+([^;]+)\)\s*;\s*\}", cls)
    if not r:
        raise TranslateError("hash_value(ReservedVector) outside the grammar")
    e = re.sub(r"\b%s\s*\.\s*size_\b" % re.escape(r.group(1)), "size_", r.group(2))
    e = re.sub(r"\b%s\s*\.\s*size\s*\(\s*\)" % re.escape(r.group(1)), "size_", e)
    out.append(_defn("rvHashEnd", P, nat, Sym("hash_value", env()).expr(e), "hash_value: number of slots hashed"))


def _class_text(src, name):
    m = re.search(r"\bclass\s+%s\b\s*\{" % name, src)
    if not m:
        raise TranslateError("class %s not found" % name)
    return _body_after(src, m.start(), name)


_SELF = re.compile(r"static_cast\s*<\s*(?:const\s+DerivedType|DerivedType\s+const|DerivedType)\s*\*\s*>\s*\(\s*this\s*\)\s*->")
_RETSELF = re.compile(r"return\s+\*\s*static_cast\s*<\s*DerivedType\s*\*\s*>\s*\(\s*this\s*\)")
_COPY = re.compile(r"DerivedType\s+(\w+)\s*\(\s*static_cast\s*<\s*(?:DerivedType\s+const|const\s+DerivedType)\s*&\s*>\s*\(\s*\*this\s*\)\s*\)")


def _member_op(cls, op_re, args_re, what):
    ms = list(re.finditer(r"operator\s*" + op_re + r"\s*\(\s*" + args_re + r"\s*\)\s*(?:const)?\s*(?=\{)", cls))
    if len(ms) != 1:
        raise TranslateError("%s: expected one definition, found %d" % (what, len(ms)))
    return ms[0], _stmts(_body_after(cls, ms[0].end(), what))


def _facade(repo, out):
    src = _strip_comments(open(os.path.join(repo, "dune/common/iteratorfacades.hh")).read())
    ra = _class_text(src, "RandomAccessIteratorFacade")
    fw = _class_text(src, "ForwardIteratorFacade")
    out.append("/-- the primitive of the derived iterator class a facade operator forwards to -/")
    out.append("inductive Prim where\n  | increment | decrement | advance\n  deriving Repr, DecidableEq")

    def pre(cls, op_re, lean, what):
        m, st = _member_op(cls, op_re, r"", what)
        if len(st) != 2 or not _RETSELF.fullmatch(st[1]):
            raise TranslateError("%s: expected `derived.prim(); return derived;`, got %r" % (what, st))
        c = re.fullmatch(_SELF.pattern + r"\s*(increment|decrement)\s*\(\s*\)", st[0])
        if not c:
            raise TranslateError("%s: call outside the grammar: %r" % (what, st[0]))
        out.append(_defn(lean, [], "Prim", "." + c.group(1), "%s forwards to" % what))

    def post(cls, op, lean, what):
        m, st = _member_op(cls, re.escape(op), r"int", what)
        if len(st) != 3:
            raise TranslateError("%s: expected three statements, got %r" % (what, st))
        call = r"this\s*->\s*operator\s*" + re.escape(op) + r"\s*\(\s*\)"
        if _COPY.fullmatch(st[0]) and re.fullmatch(call, st[1]) and st[2] == "return " + _COPY.fullmatch(st[0]).group(1):
            old = "true"
        elif re.fullmatch(call, st[0]) and _COPY.fullmatch(st[1]) and st[2] == "return " + _COPY.fullmatch(st[1]).group(1):
            old = "false"
        else:
            raise TranslateError("%s: statements outside the grammar: %r" % (what, st))
        out.append(_defn(lean, [], "Bool", old, "%s: the copy that is returned is taken before the step" % what))

    pre(ra, r"\+\+", "facPreInc", "RandomAccessIteratorFacade::operator++()")
    pre(ra, r"--", "facPreDec", "RandomAccessIteratorFacade::operator--()")
    post(ra, "++", "facPostIncReturnsOld", "RandomAccessIteratorFacade::operator++(int)")
    post(ra, "--", "facPostDecReturnsOld", "RandomAccessIteratorFacade::operator--(int)")
    pre(fw, r"\+\+", "fwdPreInc", "ForwardIteratorFacade::operator++()")
    post(fw, "++", "fwdPostIncReturnsOld", "ForwardIteratorFacade::operator++(int)")

    # operator[](n), += n, -= n, + n, - n : the argument handed to elementAt / advance
    m, st = _member_op(ra, r"\[\]", r"DifferenceType\s+(\w+)", "RandomAccessIteratorFacade::operator[]")
    c = len(st) == 1 and re.fullmatch(r"return\s+" + _SELF.pattern + r"\s*elementAt\s*\((.+)\)", st[0], flags=re.S)
    if not c:
        raise TranslateError("RandomAccessIteratorFacade::operator[] outside the grammar: %r" % st)
    out.append(_defn("facIndexArg", [("n", "Int")], "Int", Sym("operator[]", {m.group(1): "n"}, "Int").expr(c.group(1)), "it[n] = derived.elementAt(this)"))
    # `+= n` must call advance directly; `-= n`, `+ n`, `- n` may call advance or forward (one level) to `+=` / `-=`
    compound = {}   # "+=" / "-=" -> (parameter name, C++ argument expression handed to advance)

    def moved(callee, arg, param, what):
        """the Lean argument advance() finally receives when `callee` is applied to the C++ expression `arg`"""
        inner = Sym(what, {param: "n"}, "Int").expr(arg)
        if callee == "advance":
            return inner
        if callee not in compound:
            raise TranslateError("%s: forwards to operator%s, which is not translated yet" % (what, callee))
        p2, e2 = compound[callee]
        return Sym(what, {p2: inner}, "Int").expr(e2)

    for op, lean, what in (("+=", "facPlusEqArg", "operator+="), ("-=", "facMinusEqArg", "operator-=")):
        m, st = _member_op(ra, re.escape(op), r"DifferenceType\s+(\w+)", "RandomAccessIteratorFacade::" + what)
        if len(st) != 2 or not _RETSELF.fullmatch(st[1]):
            raise TranslateError("RandomAccessIteratorFacade::%s outside the grammar: %r" % (what, st))
        c = re.fullmatch(_SELF.pattern + r"\s*advance\s*\((.+)\)", st[0], flags=re.S)
        f = re.fullmatch(r"(?:this\s*->\s*operator\s*(\+=|-=)\s*\((.+)\)|\(?\s*\*\s*this\s*\)?\s*(\+=|-=)\s*(.+))", st[0], flags=re.S)
        if c:
            val = moved("advance", c.group(1), m.group(1), what)
            compound[op] = (m.group(1), c.group(1))
        elif f and (f.group(1) or f.group(3)) != op:
            val = moved(f.group(1) or f.group(3), f.group(2) or f.group(4), m.group(1), what)
        else:
            raise TranslateError("RandomAccessIteratorFacade::%s outside the grammar: %r" % (what, st))
        out.append(_defn(lean, [("n", "Int")], "Int", val, "%s n: the argument derived.advance() receives" % what))
    for op_re, lean, what in ((r"\+", "facPlusArg", "operator+"), (r"-", "facMinusArg", "operator-")):
        ms = [x for x in re.finditer(r"operator\s*" + op_re + r"\s*\(\s*DifferenceType\s+(\w+)\s*\)\s*const\s*(?=\{)", ra)]
        if len(ms) != 1:
            raise TranslateError("RandomAccessIteratorFacade::%s(n): expected one definition" % what)
        st = _stmts(_body_after(ra, ms[0].end(), what))
        cp = len(st) == 3 and _COPY.fullmatch(st[0])
        if not cp or st[2] != "return " + cp.group(1):
            raise TranslateError("RandomAccessIteratorFacade::%s(n) outside the grammar: %r" % (what, st))
        t = re.escape(cp.group(1))
        c = re.fullmatch(t + r"\s*\.\s*advance\s*\((.+)\)", st[1], flags=re.S)
        f = re.fullmatch(t + r"\s*(\+=|-=)\s*(.+)", st[1], flags=re.S) or re.fullmatch(t + r"\s*\.\s*operator\s*(\+=|-=)\s*\((.+)\)", st[1], flags=re.S)
        if c:
            val = moved("advance", c.group(1), ms[0].group(1), what)
        elif f:
            val = moved(f.group(1), f.group(2), ms[0].group(1), what)
        else:
            raise TranslateError("RandomAccessIteratorFacade::%s(n) outside the grammar: %r" % (what, st))
        out.append(_defn(lean, [("n", "Int")], "Int", val, "it %s n: the argument copy.advance() receives" % what[-1]))

    # the free operators: `if(is_convertible<T2,T1>) return E1; else return E2;` over lhs.distanceTo(rhs) / rhs.distanceTo(lhs)
    k = src.find("class RandomAccessIteratorFacade")
    free = src[k:]
    LR = r"static_cast\s*<\s*const\s+T1\s*&\s*>\s*\(\s*lhs\s*\)\s*\.\s*%s\s*\(\s*static_cast\s*<\s*const\s+T2\s*&\s*>\s*\(\s*rhs\s*\)\s*\)"
    RL = r"static_cast\s*<\s*const\s+T2\s*&\s*>\s*\(\s*rhs\s*\)\s*\.\s*%s\s*\(\s*static_cast\s*<\s*const\s+T1\s*&\s*>\s*\(\s*lhs\s*\)\s*\)"
    for op, lean, prim, ty in (("==", "facEq", "equals", "Bool"), ("!=", "facNe", "equals", "Bool"), ("<", "facLt", "distanceTo", "Bool"),
                               ("<=", "facLe", "distanceTo", "Bool"), (">", "facGt", "distanceTo", "Bool"), (">=", "facGe", "distanceTo", "Bool"),
                               ("-", "facDiff", "distanceTo", "Int")):
        m = re.search(r"operator\s*" + re.escape(op) + r"\s*\(\s*const\s+RandomAccessIteratorFacade\s*<\s*T1\s*,\s*V1\s*,\s*R1\s*,\s*D\s*>\s*&\s*lhs\s*,\s*const\s+RandomAccessIteratorFacade\s*<\s*T2\s*,\s*V2\s*,\s*R2\s*,\s*D\s*>\s*&\s*rhs\s*\)\s*(?=\{)", free)
        if not m:
            raise TranslateError("RandomAccessIteratorFacade free operator%s not found" % op)
        body = _body_after(free, m.end(), "operator" + op)
        b = re.fullmatch(r"\s*if\s*(?:constexpr\s*)?\(\s*std::is_convertible(?:_v)?\s*<\s*T2\s*,\s*T1\s*>\s*(?:::value)?\s*\)\s*return\s+([^;]+);\s*else\s+return\s+([^;]+);\s*", body, flags=re.S)
        if not b:
            raise TranslateError("free operator%s outside the grammar" % op)
        for e, suf in ((b.group(1), "1"), (b.group(2), "2")):
            e = re.sub(LR % prim, "pLR", e)
            e = re.sub(RL % prim, "pRL", e)
            if prim == "equals":
                env = {"pLR": "(eq l r)", "pRL": "(eq r l)"}
                params = [("eq", "Nat → Nat → Bool"), ("l", "Nat"), ("r", "Nat")]
            else:
                env = {"pLR": "(dist l r)", "pRL": "(dist r l)"}
                params = [("dist", "Int → Int → Int"), ("l", "Int"), ("r", "Int")]
            out.append(_defn(lean + suf, params, ty, Sym("operator" + op, env, "Int").expr(e),
                             "lhs %s rhs, %s branch (`l`, `r` = the positions of lhs, rhs)" % (op, "convertible" if suf == "1" else "other")))


def translate(repo):
    out = ["-- GENERATED by tools/translators/tr_c11.py from dune/common/arraylist.hh, bitsetvector.hh, reservedvector.hh, iteratorfacades.hh -- do not edit",
           "set_option linter.unusedVariables false", "namespace DV.C11.Gen", ""]
    _arraylist(repo, out)
    _bitsetvector(repo, out)
    _reservedvector(repo, out)
    _facade(repo, out)
    out.append("")
    out.append("end DV.C11.Gen")
    return [("DuneVerif/Gen/C11.lean", "\n".join(out) + "\n")]


if __name__ == "__main__":
    import sys
    for p, c in translate(sys.argv[1] if len(sys.argv) > 1 else "/repo"):
        print(c)
