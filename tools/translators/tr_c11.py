"""Translator for C11 (round four, reworked in round five): the member functions of dune/common/arraylist.hh,
bitsetvector.hh, reservedvector.hh and the operators of iteratorfacades.hh named in tools/checks/c11.py are re-read from
the source on every run and emitted as lean/DuneVerif/Gen/C11.lean; Props/C11.lean proves (`gen_*_tied`) that every
generated definition is the formula the hand-written model uses, and re-states the central refinement facts through the
generated definitions.  Changing a formula, a condition, a loop bound or the order of dependent statements of one of these
functions therefore changes what the theorems have to prove.

Round five: most functions are no longer matched as text shapes but *executed symbolically* (tokenizer, expression and
statement parser, class Exec below): a function is read as what it does - per path the final member values, the ordered
effects on the opaque state (`chunks_`: append a chunk / copy a pointer range to the front / resize / clear / reset k
pointers downwards from index f / write the argument to element i; `storage_`: write the argument to slot i / fill slots),
the CHECKSIZE conditions, the value returned or `throws` - as Lean `Nat`/`Int`/`Bool` expressions in the *initial* member
values and the parameters.  Values are computed eagerly in program order, so all of the following spellings give the same
translation (up to arithmetic that the tie lemmas normalise): renamed / hoisted / `const` locals (also iterator and
reference locals such as `chunks_.begin()+d` or `static_cast<const T1&>(lhs)`), a compound expression split into sequenced
statements (`x -= ++p - s`), guard clause vs. `if` block, `if/return` vs. `?:`, `a>b` vs. `b<a`, counting loops whose
counter the body does not read in any direction (`for(c=0;c<n;c++)`, `c!=n`, `for(r=n;r>0;--r)`, `while(n-- > 0)`,
`while(n!=0){..;--n;}`), braces, `this->`, `(*p)[k]` vs. `p->operator[](k)`, `std::copy`/`std::copy_n`/`std::move`,
index loop vs. `std::fill`/`std::fill_n` (ReservedVector::fill), calls of the class's own nullary accessors (`size()`,
`empty()`, `begin()`, `end()` ... are inlined: the callee's body is executed on the caller's state), reordering of
independent statements.  Anything the executor does not know (an unknown call or statement kind, a cast of a number, a
pointer or reference local to a number, a shift, a loop of another shape, two operands with side effects, an effect
sequence of another shape, ...) is a TranslateError, which check.py reports as a broken obligation and follows by a search
for a failing input: the translator never guesses.  Still read as text shapes (class Sym, round four): the facade's member
operators (++ -- += -= + - []), BitSetVector's constructors / resize / size / rejection test, ReservedVector::emplace_back
and hash_value, chunkSize_.
"""
import ast
import os
import re


class TranslateError(Exception):
    pass


def _strip_comments(src):
    src = re.sub(r"/\*.*?\*/", " ", src, flags=re.S)
    return re.sub(r"//[^\n]*", "", src)


def _body_after(src, pos, what):
    """the text of the brace block that starts at the first `{` at or after pos"""
    i = src.find("{", pos)
    if i < 0:
        raise TranslateError("%s: no body" % what)
    depth = 0
    for j in range(i, len(src)):
        if src[j] == "{":
            depth += 1
        elif src[j] == "}":
            depth -= 1
            if depth == 0:
                return src[i + 1:j]
    raise TranslateError("%s: unbalanced braces" % what)


def _find_bodies(src, sig_re, what, count):
    ms = list(re.finditer(sig_re, src))
    if len(ms) != count:
        raise TranslateError("%s: expected %d definition(s), found %d" % (what, count, len(ms)))
    out = []
    for m in ms:
        # nothing but an initialiser list / whitespace may stand between the signature and the body
        out.append((m, _body_after(src, m.end(), what)))
    return out


_PREFIX = re.compile(r"\b(?:list_\s*->|this\s*->|other\s*\.\s*(?=position_))")


class Sym:
    """symbolic straight-line execution; values are Lean expression strings over the parameter names"""

    def __init__(self, what, params, ty="Nat"):
        self.what = what
        self.env = dict((k, v) for k, v in params.items())
        self.ty = ty
        self.assigned = []

    # ---- expressions ----
    def expr(self, e):
        e0 = e
        e = e.strip()
        e = re.sub(r"\blist_\s*->\s*", "", e)
        e = re.sub(r"\bthis\s*->\s*", "", e)
        e = re.sub(r"\bother\s*\.\s*position_", "other__position_", e)
        # pre-increment of a variable inside the expression: evaluated first
        for m in list(re.finditer(r"\+\+\s*([A-Za-z_]\w*)", e)):
            self.update(m.group(1), "(%s + 1)" % self.lookup(m.group(1)))
        e = re.sub(r"\+\+\s*([A-Za-z_]\w*)", r"\1", e)
        if "--" in e or "++" in e:
            raise TranslateError("%s: increment/decrement inside %r is outside the grammar" % (self.what, e0))
        e = re.sub(r"\b(\d+)[uUlL]*\b", r"\1", e)
        e = re.sub(r"!\s*(?!=)", " not ", e)
        e = re.sub(r"\s+", " ", e).strip()
        if not re.fullmatch(r"[\w\s+\-*/%()<>=!]+", e):
            raise TranslateError("%s: expression outside the grammar: %r" % (self.what, e0))
        try:
            tree = ast.parse(e.replace("/", "//"), mode="eval")
        except SyntaxError:
            raise TranslateError("%s: expression outside the grammar: %r" % (self.what, e0))
        return self._ev(tree.body, e0)

    def lookup(self, name):
        if name not in self.env:
            raise TranslateError("%s: unknown identifier %r" % (self.what, name))
        return self.env[name]

    def _ev(self, n, e0):
        if isinstance(n, ast.Constant) and isinstance(n.value, int) and not isinstance(n.value, bool):
            return str(n.value)
        if isinstance(n, ast.Name):
            return self.lookup(n.id)
        if isinstance(n, ast.BinOp):
            ops = {ast.Add: "+", ast.Sub: "-", ast.Mult: "*", ast.FloorDiv: "/", ast.Mod: "%"}
            if type(n.op) not in ops:
                raise TranslateError("%s: operator outside the grammar in %r" % (self.what, e0))
            return "(%s %s %s)" % (self._ev(n.left, e0), ops[type(n.op)], self._ev(n.right, e0))
        if isinstance(n, ast.Compare) and len(n.ops) == 1:
            ops = {ast.Eq: "==", ast.NotEq: "!=", ast.Lt: "<", ast.LtE: "<=", ast.Gt: ">", ast.GtE: ">="}
            o = ops.get(type(n.ops[0]))
            if o is None:
                raise TranslateError("%s: comparison outside the grammar in %r" % (self.what, e0))
            a, b = self._ev(n.left, e0), self._ev(n.comparators[0], e0)
            if o in ("==", "!="):
                return "(%s %s %s)" % (a, o, b)
            return "(decide (%s %s %s))" % (a, {"<": "<", "<=": "≤", ">": ">", ">=": "≥"}[o], b)
        if isinstance(n, ast.UnaryOp) and isinstance(n.op, ast.Not):
            return "(!%s)" % self._ev(n.operand, e0)
        if isinstance(n, ast.UnaryOp) and isinstance(n.op, ast.USub) and self.ty == "Int":
            return "(-%s)" % self._ev(n.operand, e0)
        raise TranslateError("%s: expression outside the grammar: %r" % (self.what, e0))

    # ---- statements ----
    def update(self, name, val):
        name = re.sub(r"^(?:list_\s*->|this\s*->)\s*", "", name.strip())
        if name not in self.env:
            raise TranslateError("%s: assignment to unknown %r" % (self.what, name))
        self.env[name] = val
        self.assigned.append(name)

    def stmt(self, s):
        """returns True when the statement was one of the generic forms"""
        s = s.strip()
        if not s:
            return True
        m = re.fullmatch(r"assert\s*\((.*)\)", s, flags=re.S)
        if m:
            a = m.group(1)
            if re.search(r"\+\+|--|[^=!<>]=[^=]", a):
                raise TranslateError("%s: assert with a side effect: %r" % (self.what, s))
            return True
        m = re.fullmatch(r"(?:const\s+)?(?:std::)?(?:size_t|size_type|auto|difference_type)\s+(?:const\s+)?([A-Za-z_]\w*)\s*=\s*(.+)", s, flags=re.S)
        if m:
            if m.group(1) in self.env:
                raise TranslateError("%s: local %r shadows a known name" % (self.what, m.group(1)))
            self.env[m.group(1)] = self.expr(m.group(2))
            return True
        m = re.fullmatch(r"((?:list_\s*->\s*)?[A-Za-z_]\w*)\s*(\+|-|\*|/|%|)=\s*([^=].*)", s, flags=re.S)
        if m:
            rhs = self.expr(m.group(3))
            name = re.sub(r"^list_\s*->\s*", "", m.group(1))
            if m.group(2):
                rhs = "(%s %s %s)" % (self.lookup(name), m.group(2), rhs)
            self.update(name, rhs)
            return True
        m = re.fullmatch(r"(\+\+|--)\s*((?:list_\s*->\s*)?[A-Za-z_]\w*)", s) or None
        if m:
            name = re.sub(r"^list_\s*->\s*", "", m.group(2))
            self.update(name, "(%s %s 1)" % (self.lookup(name), "+" if m.group(1) == "++" else "-"))
            return True
        m = re.fullmatch(r"((?:list_\s*->\s*)?[A-Za-z_]\w*)\s*(\+\+|--)", s)
        if m:
            name = re.sub(r"^list_\s*->\s*", "", m.group(1))
            self.update(name, "(%s %s 1)" % (self.lookup(name), "+" if m.group(2) == "++" else "-"))
            return True
        return False


def _stmts(body):
    """top-level `;`-separated statements of a body without nested blocks"""
    if "{" in body or "}" in body:
        raise TranslateError("nested block where straight-line code was expected: %r" % body.strip()[:80])
    return [s.strip() for s in body.split(";") if s.strip()]


_T = r"template\s*<\s*class\s+T\s*,\s*int\s+N\s*,\s*class\s+A\s*>\s*"
_AL = r"ArrayList\s*<\s*T\s*,\s*N\s*,\s*A\s*>\s*::\s*"
_IT = r"ArrayListIterator\s*<\s*T\s*,\s*N\s*,\s*A\s*>\s*::\s*"
_CIT = r"ConstArrayListIterator\s*<\s*T\s*,\s*N\s*,\s*A\s*>\s*::\s*"


def _single_return(body, what):
    st = _stmts(body)
    st = [s for s in st if not re.match(r"assert\s*\(", s) and not re.match(r"DUNE_ASSERT_BOUNDS\s*\(", s)]
    if len(st) != 1 or not st[0].startswith("return"):
        raise TranslateError("%s: expected a single return statement, got %r" % (what, st))
    return st[0][len("return"):].strip()


def _defn(name, params, ty, val, doc=None):
    ps = " ".join("(%s : %s)" % (p, t) for p, t in params)
    return ("/-- %s -/\n" % doc if doc else "") + "def %s %s : %s := %s" % (name, ps, ty, val)


# ---------------------------------------------------------------------------------------------------------------------
# Round five: a small C++ front end (tokenizer, expression / statement parser) and a symbolic executor with eager
# evaluation, opaque values and an effect trace.  Functions are read as *what they do* (final member values, ordered
# effects on chunks_, returned value, per path), not as text shapes, so hoisted / renamed locals, split compound
# statements, guard clauses, `?:` vs if/return, respelled counting loops, braces, `this->`, commuted comparisons are
# all the same translation result (up to arithmetic the tie lemmas normalise).
# ---------------------------------------------------------------------------------------------------------------------
_TOKRE = re.compile(r"\s*(?:(\d+)[uUlL]*(?![\w.])|([A-Za-z_]\w*)|(\"(?:[^\"\\]|\\.)*\")|(->|\+\+|--|<=|>=|==|!=|&&|\|\||\+=|-=|\*=|/=|%=|::|[-+*/%<>=!&|^~?:;,.()\[\]{}]))")

# names after which `<` opens a template argument list inside an expression
_TEMPLATES = {"static_cast", "make_shared", "array", "is_convertible", "is_convertible_v", "ArrayListIterator",
              "ConstArrayListIterator", "ArrayList", "shared_ptr", "is_same", "is_same_v"}
_NOT_TYPES = {"delete", "new", "return", "throw", "goto", "case", "else", "do", "if", "for", "while", "this", "operator",
              "static_cast", "const_cast", "reinterpret_cast", "dynamic_cast", "sizeof", "assert"}


def _tokenize(text, what):
    out, pos = [], 0
    text = text.rstrip()
    while pos < len(text):
        m = _TOKRE.match(text, pos)
        if not m or m.end() == pos:
            raise TranslateError("%s: cannot tokenize %r" % (what, text[pos:pos + 40]))
        if m.group(1) is not None:
            out.append(("num", m.group(1)))
        elif m.group(2) is not None:
            out.append(("id", m.group(2)))
        elif m.group(3) is not None:
            out.append(("str", m.group(3)))
        else:
            out.append(("op", m.group(4)))
        pos = m.end()
    return out


def _join(toks):
    s = ""
    for k, v in toks:
        if s and (s[-1].isalnum() or s[-1] == "_") and (v[0].isalnum() or v[0] == "_"):
            s += " "
        s += v
    return s


class _Parser:
    def __init__(self, toks, what):
        self.t, self.i, self.what = toks, 0, what

    def err(self, msg):
        raise TranslateError("%s: %s near %r" % (self.what, msg, _join(self.t[max(0, self.i - 3):self.i + 6])))

    def peek(self, k=0):
        return self.t[self.i + k] if self.i + k < len(self.t) else ("eof", "")

    def isop(self, v, k=0):
        return self.peek(k) == ("op", v)

    def isid(self, v, k=0):
        return self.peek(k) == ("id", v)

    def eat(self, v):
        if not self.isop(v):
            self.err("expected %r" % v)
        self.i += 1

    # ---- names ----
    def targs(self, strict):
        """at `<`: the balanced template argument list as normalised text, or None (position restored)"""
        save, depth, j = self.i, 0, self.i
        while j < len(self.t):
            k, v = self.t[j]
            if (k, v) == ("op", "<"):
                depth += 1
            elif (k, v) == ("op", ">"):
                depth -= 1
                if depth == 0:
                    txt = _join(self.t[self.i:j + 1])
                    self.i = j + 1
                    return txt
            elif k == "op" and v not in ("::", ",", "&", "*", "&&") and not (not strict and v in ("(", ")")):
                break
            elif k in ("str",):
                break
            j += 1
        self.i = save
        return None

    def qname(self, in_type):
        """qualified (template-)name as normalised text"""
        parts = []
        while True:
            k, v = self.peek()
            if k != "id":
                self.err("identifier expected")
            self.i += 1
            if v == "operator":
                k2, v2 = self.peek()
                if k2 != "op":
                    self.err("operator symbol expected")
                self.i += 1
                if v2 in ("[", "("):
                    self.eat("]" if v2 == "[" else ")")
                    v2 += "]" if v2 == "[" else ")"
                parts.append("operator" + v2)
                break
            if self.isop("<") and (in_type or v in _TEMPLATES):
                ta = self.targs(strict=in_type)
                if ta is not None:
                    v += ta
                elif v in _TEMPLATES:
                    self.err("template argument list expected")
            parts.append(v)
            if self.isop("::"):
                self.i += 1
                continue
            break
        return "::".join(parts)

    # ---- expressions ----
    def expr(self):
        return self.assign()

    def assign(self):
        l = self.cond()
        k, v = self.peek()
        if k == "op" and v in ("=", "+=", "-=", "*=", "/=", "%="):
            self.i += 1
            return ("assign", v, l, self.assign())
        return l

    def cond(self):
        c = self.binary(0)
        if self.isop("?"):
            self.i += 1
            a = self.expr()
            self.eat(":")
            b = self.assign()
            return ("cond", c, a, b)
        return c

    _LEVELS = [("||",), ("&&",), ("==", "!="), ("<", ">", "<=", ">="), ("+", "-"), ("*", "/", "%")]

    def binary(self, lvl):
        if lvl == len(self._LEVELS):
            return self.unary()
        l = self.binary(lvl + 1)
        while self.peek()[0] == "op" and self.peek()[1] in self._LEVELS[lvl]:
            op = self.peek()[1]
            self.i += 1
            l = ("bin", op, l, self.binary(lvl + 1))
        return l

    def unary(self):
        k, v = self.peek()
        if k == "op" and v in ("++", "--"):
            self.i += 1
            return ("pre", v, self.unary())
        if k == "op" and v in ("!", "-", "+", "*", "&"):
            self.i += 1
            return ("un", v, self.unary())
        return self.postfix()

    def args(self, close):
        a = []
        if self.isop(close):
            self.i += 1
            return a
        while True:
            a.append(self.assign())
            if self.isop(","):
                self.i += 1
                continue
            self.eat(close)
            return a

    def postfix(self):
        e = self.primary()
        while True:
            k, v = self.peek()
            if k != "op":
                return e
            if v == "(":
                self.i += 1
                e = ("call", e, self.args(")"))
            elif v == "{" and e[0] == "name":
                self.i += 1
                e = ("call", e, self.args("}"))
            elif v == "[":
                self.i += 1
                ix = self.expr()
                self.eat("]")
                e = ("idx", e, ix)
            elif v in (".", "->"):
                self.i += 1
                if self.isid("template"):
                    self.i += 1
                e = ("mem", e, v, self.qname(False))
            elif v in ("++", "--"):
                self.i += 1
                e = ("post", v, e)
            else:
                return e

    def primary(self):
        k, v = self.peek()
        if k == "num":
            self.i += 1
            return ("num", v)
        if k == "str":
            self.i += 1
            return ("str", v)
        if k == "op" and v == "(":
            self.i += 1
            e = self.expr()
            self.eat(")")
            return e
        if k == "id":
            if v == "typename":
                self.i += 1
            return ("name", self.qname(False))
        self.err("unexpected token")

    # ---- statements ----
    def try_decl(self):
        save = self.i
        const = False
        while self.peek()[0] == "id" and self.peek()[1] in ("const", "constexpr", "static", "typename", "volatile", "inline"):
            const = const or self.peek()[1] in ("const", "constexpr")
            self.i += 1
        if self.peek()[0] != "id" or self.peek()[1] in _NOT_TYPES:
            self.i = save
            return None
        try:
            ty = self.qname(True)
        except TranslateError:
            self.i = save
            return None
        ref = ptr = False
        while True:
            if self.isid("const"):
                const = True
                self.i += 1
            elif self.isop("&") or self.isop("&&"):
                ref = True
                self.i += 1
            elif self.isop("*"):
                ptr = True
                const = False     # constness of the pointee says nothing about the variable
                self.i += 1
            else:
                break
        if self.peek()[0] != "id" or self.peek()[1] in _NOT_TYPES:
            self.i = save
            return None
        name = self.peek()[1]
        nk, nv = self.peek(1)
        if nk != "op" or nv not in ("=", "(", "{", ";"):
            self.i = save
            return None
        self.i += 2
        if nv == ";":
            self.i -= 1
            init = None
        elif nv == "=":
            init = self.assign()
        else:
            a = self.args(")" if nv == "(" else "}")
            if len(a) != 1:
                self.err("declaration with %d constructor arguments" % len(a))
            init = a[0]
        if self.isop(","):
            self.err("several declarators in one declaration")
        return ("decl", ty, name, init, dict(const=const, ref=ref, ptr=ptr))

    def simple(self):
        """declaration or expression, without the terminating `;`"""
        d = self.try_decl()
        if d is not None:
            return d
        return ("expr", self.expr())

    def stmt(self):
        k, v = self.peek()
        if k == "op" and v == "{":
            self.i += 1
            items = []
            while not self.isop("}"):
                if self.peek()[0] == "eof":
                    self.err("unbalanced braces")
                items.append(self.stmt())
            self.i += 1
            return ("block", items)
        if k == "op" and v == ";":
            self.i += 1
            return ("block", [])
        if k == "id" and v == "if":
            self.i += 1
            if self.isid("constexpr"):
                self.i += 1
            self.eat("(")
            c = self.expr()
            self.eat(")")
            th = self.stmt()
            el = ("block", [])
            if self.isid("else"):
                self.i += 1
                el = self.stmt()
            return ("if", c, th, el)
        if k == "id" and v == "for":
            self.i += 1
            self.eat("(")
            if self.isop(":", 0):
                self.err("range-for")
            init = ("block", []) if self.isop(";") else self.simple()
            if self.isop(":"):
                self.err("range-based for loop is outside the grammar")
            self.eat(";")
            c = None if self.isop(";") else self.expr()
            self.eat(";")
            step = None if self.isop(")") else self.expr()
            self.eat(")")
            return ("for", init, c, step, self.stmt())
        if k == "id" and v == "while":
            self.i += 1
            self.eat("(")
            c = self.expr()
            self.eat(")")
            return ("while", c, self.stmt())
        if k == "id" and v == "return":
            self.i += 1
            e = None if self.isop(";") else self.expr()
            self.eat(";")
            return ("return", e)
        if k == "id" and v == "throw":
            self.i += 1
            e = None if self.isop(";") else self.expr()
            self.eat(";")
            return ("throw", e)
        if k == "id" and v in ("typedef", "using"):
            while not self.isop(";"):
                if self.peek()[0] == "eof":
                    self.err("unterminated typedef")
                self.i += 1
            self.i += 1
            return ("block", [])
        if k == "id" and v in ("do", "switch", "goto", "try", "break", "continue", "case", "default"):
            self.err("statement kind %r is outside the grammar" % v)
        s = self.simple()
        self.eat(";")
        return s


def _parse_body(body, what):
    p = _Parser(_tokenize(body, what), what)
    items = []
    while p.peek()[0] != "eof":
        items.append(p.stmt())
    return items


def _walk(n):
    """all tuple nodes of an AST"""
    if isinstance(n, tuple):
        yield n
        for c in n:
            for x in _walk(c):
                yield x
    elif isinstance(n, list):
        for c in n:
            for x in _walk(c):
                yield x


_PURE_CALLS = {"begin", "cbegin", "end", "cend", "size", "empty", "get", "position"}


def _impure(n):
    """may evaluating the expression / executing the statement change anything?"""
    for x in _walk(n):
        if x and x[0] in ("assign", "pre", "post", "decl"):
            return True
        if x and x[0] == "call":
            f = x[1]
            nm = f[1] if f[0] == "name" else (f[3] if f[0] == "mem" else None)
            if nm is None or not (nm.split("<")[0].split("::")[-1] in _PURE_CALLS or nm.startswith("static_cast<")
                                  or nm.startswith("std::is_") or nm in ("elementAt", "operator[]", "at", "distanceTo", "equals")):
                return True
    return False


def _names(n):
    return set(x[1] for x in _walk(n) if x and x[0] == "name") | set(x[3] for x in _walk(n) if x and x[0] == "mem")


class _State:
    def __init__(self, env):
        self.env, self.effects, self.conds, self.ret, self.done, self.threw = dict(env), [], [], None, False, False
        self.checks = []

    def copy(self):
        s = _State(self.env)
        s.effects, s.conds, s.ret, s.done, s.threw = list(self.effects), list(self.conds), self.ret, self.done, self.threw
        s.checks = list(self.checks)
        return s


class Exec:
    """symbolic executor: arithmetic values are Lean expression strings over the initial member values / parameters,
    everything else is a tagged tuple; effects on opaque state are appended to the trace in program order"""

    def __init__(self, what, env, ty="Nat", prefixes=("list_", "this")):
        self.what, self.ty, self.env0 = what, ty, env
        self.prefixes = prefixes

    def err(self, msg):
        raise TranslateError("%s: %s" % (self.what, msg))

    # ---- l-values ----
    def lname(self, n):
        """the env key an l-value expression denotes"""
        if n[0] == "name":
            return n[1]
        if n[0] == "mem" and n[1][0] == "name" and n[1][1] in self.prefixes and n[2] == "->":
            return n[3]
        if n[0] == "mem" and n[1] == ("un", "*", ("name", "this")) and n[2] == ".":
            return n[3]
        if n[0] == "mem" and n[1][0] == "name" and n[2] == ".":
            return n[1][1] + "." + n[3]
        return None

    def get(self, key):
        if key not in self.st.env:
            self.err("unknown identifier %r" % key)
        v = self.st.env[key]
        if v is None:
            self.err("%r is read before it has a value" % key)
        return v

    def put(self, key, v):
        if key not in self.st.env:
            self.err("assignment to unknown %r" % key)
        if key in self.readonly:
            self.err("assignment to %r, which is read-only here" % key)
        if not isinstance(v, str):
            self.err("non-arithmetic value assigned to %r" % key)
        self.st.env[key] = v

    def num(self, v, ctx):
        if not isinstance(v, str):
            self.err("arithmetic value expected in %s, got %r" % (ctx, v))
        return v

    # ---- expressions ----
    def ev(self, n):
        k = n[0]
        if k == "num":
            return n[1]
        if k == "str":
            self.err("string literal in an evaluated expression")
        if k == "name":
            if n[1] == "this":
                return ("thisptr",)
            return self.get(n[1])
        if k == "mem":
            key = self.lname(n)
            if key is not None and key in self.st.env:
                return self.get(key)
            self.err("member access outside the grammar: %r" % (n,))
        if k == "bin":
            op = n[1]
            if op in ("&&", "||"):
                if _impure(n[3]):
                    self.err("side effect on the right of %s" % op)
                a, b = self.num(self.ev(n[2]), op), self.num(self.ev(n[3]), op)
                return "(%s %s %s)" % (a, op, b)
            if _impure(n[2]) and _impure(n[3]):
                self.err("two operands with side effects (unsequenced)")
            for x, y in ((n[2], n[3]), (n[3], n[2])):
                if _impure(x) and (self.assigned_in(x) & _names(y)):
                    self.err("an operand reads what the other operand changes (unsequenced)")
            a, b = self.ev(n[2]), self.ev(n[3])
            if op == "-" and isinstance(a, tuple) and a[0] in ("storit", "chunkit") and isinstance(b, str):
                return (a[0], "(%s - %s)" % (a[1], b))
            if op == "+" and isinstance(a, tuple) and a[0] == "storit" and isinstance(b, str):
                return ("storit", b if a[1] == "0" else "(%s + %s)" % (a[1], b))
            if op == "+" and isinstance(b, tuple) and b[0] == "storit" and isinstance(a, str):
                return ("storit", a if b[1] == "0" else "(%s + %s)" % (a, b[1]))
            if op == "+" and isinstance(a, tuple) and a[0] == "chunkit" and isinstance(b, str):
                return ("chunkit", b if a[1] == "0" else "(%s + %s)" % (a[1], b))
            if op == "+" and isinstance(b, tuple) and b[0] == "chunkit" and isinstance(a, str):
                return ("chunkit", a if b[1] == "0" else "(%s + %s)" % (a, b[1]))
            a, b = self.num(a, op), self.num(b, op)
            if op in ("+", "-", "*", "/", "%"):
                return "(%s %s %s)" % (a, op, b)
            if op in ("==", "!="):
                return "(%s %s %s)" % (a, op, b)
            return "(decide (%s %s %s))" % (a, {"<": "<", "<=": "≤", ">": ">", ">=": "≥"}[op], b)
        if k == "un":
            if n[1] == "*":
                v = self.ev(n[2])
                if v == ("thisptr",):
                    return ("self",)
                if isinstance(v, tuple) and v[0] == "chunkptr":
                    return ("chunkobj", v[1])
                if isinstance(v, tuple) and v[0] == "storit":
                    return ("slot", v[1])
                self.err("dereference outside the grammar")
            v = self.num(self.ev(n[2]), n[1])
            if n[1] == "!":
                return "(!%s)" % v
            if n[1] == "+":
                return v
            if n[1] == "-" and self.ty == "Int":
                return "(-%s)" % v
            self.err("unary %s outside the grammar" % n[1])
        if k in ("pre", "post"):
            key = self.lname(n[2])
            if key is None:
                self.err("%s on something that is not a variable" % n[1])
            old = self.num(self.get(key), n[1])
            new = "(%s %s 1)" % (old, "+" if n[1] == "++" else "-")
            self.put(key, new)
            return new if k == "pre" else old
        if k == "assign":
            key = self.lname(n[2])
            if key is not None and key in self.st.env:
                rhs = self.num(self.ev(n[3]), "assignment")
                if n[1] != "=":
                    rhs = "(%s %s %s)" % (self.num(self.get(key), n[1]), n[1][0], rhs)
                self.put(key, rhs)
                return rhs
            tgt = self.ev(n[2])
            if isinstance(tgt, tuple) and tgt[0] == "slot" and n[1] == "=":
                if self.ev(n[3]) != ("entry",):
                    self.err("slot written with something other than the argument")
                self.st.effects.append(("slotwrite", tgt[1]))
                return tgt
            if isinstance(tgt, tuple) and tgt[0] == "elemref" and n[1] == "=":
                rhs = self.ev(n[3])
                if rhs != ("entry",):
                    self.err("element written with something other than the argument")
                self.st.effects.append(("write", tgt[1]))
                return tgt
            self.err("assignment target outside the grammar: %r" % (n[2],))
        if k == "cond":
            if _impure(n[2]) or _impure(n[3]):
                self.err("side effect inside ?:")
            c = self.num(self.ev(n[1]), "?:")
            a, b = self.ev(n[2]), self.ev(n[3])
            if a == b:
                return a
            return "(if %s then %s else %s)" % (c, self.num(a, "?:"), self.num(b, "?:"))
        if k == "idx":
            base = self.ev(n[1])
            ix = self.num(self.ev(n[2]), "subscript")
            if base == ("chunks",):
                return ("chunkptr", ix)
            if base == ("storage",):
                return ("slot", ix)
            if isinstance(base, tuple) and base[0] == "storit":
                return ("slot", "(%s + %s)" % (base[1], ix))
            if isinstance(base, tuple) and base[0] == "chunkobj":
                return ("chunkelem", base[1], ix)
            if isinstance(base, tuple) and base[0] == "chunkit":
                return ("chunkptr", "(%s + %s)" % (base[1], ix))
            self.err("subscript outside the grammar")
        if k == "call":
            return self.call(n)
        self.err("expression outside the grammar: %r" % (n,))

    def assigned_in(self, n):
        return set(self.lname(x[2]) for x in _walk(n) if x and x[0] in ("assign", "pre", "post")) - {None}

    def call(self, n):
        f, args = n[1], n[2]
        if sum(1 for a in args if _impure(a)) > 1:
            self.err("several call arguments with side effects (unsequenced)")
        own = None
        if f[0] == "name":
            own = f[1]
        elif f[0] == "mem" and ((f[1] == ("name", "this") and f[2] == "->") or (f[1] == ("un", "*", ("name", "this")) and f[2] == ".")):
            own = f[3]
        if own in self.own:
            return self.own[own](self, args)
        if f[0] == "name":
            nm = f[1]
            if nm in ("assert", "DUNE_ASSERT_BOUNDS"):
                if len(args) != 1 or _impure(args[0]):
                    self.err("assert with a side effect")
                return ("void",)
            if nm == "elementAt" and len(args) == 1 and self.own_element_at:
                return ("elemref", self.num(self.ev(args[0]), "elementAt"))
            if re.fullmatch(r"(?:std::)?make_shared<(?:std::)?array<MemberType,chunkSize_>>", nm) and not args:
                return ("newchunk",)
            if re.fullmatch(r"(?:Const)?ArrayListIterator<T,N,A>|(?:const_)?iterator", nm) and len(args) == 2:
                if self.ev(args[0]) != ("self",):
                    self.err("iterator constructed over another list")
                return ("iter", self.num(self.ev(args[1]), "iterator position"))
            if nm in ("std::copy", "std::move") and len(args) == 3:
                a = [self.ev(x) for x in args]
                if not all(isinstance(x, tuple) and x[0] == "chunkit" for x in a):
                    self.err("std::copy over something other than chunks_ iterators")
                self.st.effects.append(("copy", a[0][1], a[1][1], a[2][1]))
                return ("void",)
            if nm == "std::copy_n" and len(args) == 3:
                a, cnt, c = self.ev(args[0]), self.num(self.ev(args[1]), "copy_n"), self.ev(args[2])
                if not all(isinstance(x, tuple) and x[0] == "chunkit" for x in (a, c)):
                    self.err("std::copy_n over something other than chunks_ iterators")
                self.st.effects.append(("copy", a[1], "(%s + %s)" % (a[1], cnt), c[1]))
                return ("void",)
            if nm in ("std::fill", "std::fill_n") and len(args) == 3 and self.indexed_loops:
                a, b, v = self.ev(args[0]), self.ev(args[1]), self.ev(args[2])
                if v != ("entry",) or not (isinstance(a, tuple) and a[0] == "storit"):
                    self.err("std::fill outside the grammar")
                if nm == "std::fill":
                    if not (isinstance(b, tuple) and b[0] == "storit"):
                        self.err("std::fill outside the grammar")
                    cnt = b[1] if a[1] == "0" else "(%s - %s)" % (b[1], a[1])
                else:
                    cnt = self.num(b, "fill_n")
                self.st.effects.append(("fill", cnt, "i" if a[1] == "0" else "(%s + i)" % a[1]))
                return ("void",)
            if nm == "std::move" and len(args) == 1:
                v = self.ev(args[0])
                if v == ("entry",):
                    return v
            if nm in ("std::next", "std::begin", "std::cbegin") and args:
                a = self.ev(args[0])
                if nm == "std::next" and isinstance(a, tuple) and a[0] == "chunkit" and len(args) == 2:
                    return ("chunkit", "(%s + %s)" % (a[1], self.num(self.ev(args[1]), "std::next")))
                if nm != "std::next" and a == ("chunks",) and len(args) == 1:
                    return ("chunkit", "0")
            m = re.fullmatch(r"static_cast<(.*)>", nm)
            if m and len(args) == 1:
                v = self.ev(args[0])
                if isinstance(v, tuple) and v[0] == "obj" and re.fullmatch(r"const T[12]&|T[12] const&", m.group(1)):
                    return v
                self.err("cast outside the grammar: %s" % nm)
            self.err("call of %r is outside the grammar" % nm)
        if f[0] == "mem":
            meth = f[3]
            key = self.lname(f)
            # a method of the list itself, called through list_-> / this-> / (*this).
            if key == "elementAt" and len(args) == 1 and (self.own_element_at or f[1] == ("name", "list_")):
                return ("elemref", self.num(self.ev(args[0]), "elementAt"))
            base = self.ev(f[1])
            if base == ("storage",) and meth in ("begin", "cbegin") and f[2] == "." and not args:
                return ("storit", "0")
            if base == ("storage",) and meth == "at" and f[2] == "." and len(args) == 1:
                self.err("storage_.at() (throws on its own) is outside the grammar")
            if base == ("chunks",):
                if meth in ("begin", "cbegin") and not args:
                    return ("chunkit", "0")
                if meth == "clear" and not args:
                    self.st.effects.append(("clear",))
                    return ("void",)
                if meth == "resize" and len(args) == 1:
                    self.st.effects.append(("resize", self.num(self.ev(args[0]), "resize")))
                    return ("void",)
                if meth in ("push_back", "emplace_back") and len(args) == 1 and self.ev(args[0]) == ("newchunk",):
                    self.st.effects.append(("grow",))
                    return ("void",)
            if isinstance(base, tuple) and base[0] == "chunkptr":
                if meth == "reset" and f[2] == "." and not args:
                    self.st.effects.append(("reset", base[1]))
                    return ("void",)
                if meth == "get" and f[2] == "." and not args:
                    return base
                if meth in ("operator[]", "at") and f[2] == "->" and len(args) == 1:
                    return ("chunkelem", base[1], self.num(self.ev(args[0]), "chunk subscript"))
            if isinstance(base, tuple) and base[0] == "chunkobj" and meth in ("operator[]", "at") and f[2] == "." and len(args) == 1:
                return ("chunkelem", base[1], self.num(self.ev(args[0]), "chunk subscript"))
            if isinstance(base, tuple) and base[0] == "obj" and meth in self.prims and f[2] == "." and len(args) == 1:
                a = self.ev(args[0])
                if isinstance(a, tuple) and a[0] == "obj":
                    return "(%s %s %s)" % (self.prims[meth], base[1], a[1])
            self.err("call of method %r is outside the grammar" % meth)
        self.err("call outside the grammar")

    own_element_at = False
    indexed_loops = False
    prims = {}
    readonly = ()
    own = {}        # calls of the class's own (translated or trusted) functions: name -> handler(executor, argument ASTs)

    # ---- statements ----
    def run(self, items):
        """-> the list of paths (final states)"""
        live = [_State(self.env0)]
        return self.block(items, live)

    def block(self, items, states):
        for s in items:
            nxt = []
            for st in states:
                if st.done:
                    nxt.append(st)
                else:
                    nxt.extend(self.stmt(s, st))
            states = nxt
        return states

    def stmt(self, s, st):
        self.st = st
        k = s[0]
        if k == "block":
            locals_before = set(st.env)
            out = self.block(s[1], [st])
            for o in out:       # block scope ends
                for nm in set(o.env) - locals_before:
                    del o.env[nm]
            return out
        if k == "expr":
            self.ev(s[1])
            return [st]
        if k == "decl":
            _, ty, name, init, q = s
            if name in st.env:
                self.err("local %r shadows a known name" % name)
            v = None if init is None else self.ev(init)
            if q["ref"] and isinstance(v, str):
                self.err("reference local %r to an arithmetic object (aliasing is outside the grammar)" % name)
            if q["ptr"]:
                self.err("pointer local %r" % name)
            if isinstance(v, str) and not re.fullmatch(r"(?:std::)?(?:size_t|size_type|difference_type|ptrdiff_t|auto|bool|DifferenceType|D)", ty):
                self.err("local %r of type %r (conversions are outside the grammar)" % (name, ty))
            st.env[name] = v
            return [st]
        if k == "return":
            if s[1] is not None and s[1][0] == "cond" and not _impure(s[1]):
                return self.stmt(("if", s[1][1], ("return", s[1][2]), ("return", s[1][3])), st)
            st.ret = ("void",) if s[1] is None else self.ev(s[1])
            st.done = True
            return [st]
        if k == "throw":
            st.done = st.threw = True
            return [st]
        if k == "if":
            c = self.num(self.ev(s[1]), "if")
            a, b = st, st.copy()
            a.conds.append((c, True))
            b.conds.append((c, False))
            return self.stmt(s[2], a) + self.stmt(s[3], b)
        if k == "for":
            return self.loop(s, st)
        if k == "while":
            return self.wloop(s, st)
        self.err("statement outside the grammar: %s" % k)

    def loop(self, s, st):
        """`for` loops that repeat their body a number of times known on entry, with a counter the body does not touch"""
        _, init, c, step, body = s
        if init[0] != "decl" or init[3] is None or c is None or step is None:
            self.err("loop header outside the grammar")
        v = init[2]
        if v in st.env:
            self.err("loop counter %r shadows a known name" % v)
        if not re.fullmatch(r"(?:std::)?(?:size_t|size_type)", init[1]):
            self.err("loop counter of type %r" % init[1])
        indexed = v in _names(body)
        if indexed and not self.indexed_loops:
            self.err("the loop body uses the counter %r" % v)
        if c[0] != "bin" or c[1] not in ("<", ">", "!="):
            self.err("loop condition outside the grammar")
        if c[2] == ("name", v):
            op, other = c[1], c[3]
        elif c[3] == ("name", v):
            op, other = {"<": ">", ">": "<", "!=": "!="}[c[1]], c[2]
        else:
            self.err("loop condition does not test the counter")
        if _impure(other) or _impure(init[3]) or v in _names(other):
            self.err("loop bound with a side effect")
        up = step in (("pre", "++", ("name", v)), ("post", "++", ("name", v)), ("assign", "+=", ("name", v), ("num", "1")))
        down = step in (("pre", "--", ("name", v)), ("post", "--", ("name", v)), ("assign", "-=", ("name", v), ("num", "1")))
        assigned = set(self.lname(x[2]) for x in _walk(body) if x and x[0] in ("assign", "pre", "post"))
        if (_names(other) | _names(init[3])) & assigned:
            self.err("the loop body changes its own bound")
        a, b = self.num(self.ev(init[3]), "loop start"), self.num(self.ev(other), "loop bound")
        if up and op in ("<", "!="):
            lo, hi = a, b
        elif down and op in (">", "!="):
            lo, hi = b, a
        else:
            self.err("loop direction outside the grammar")
        if op == "!=" and lo != "0":
            self.err("`!=` loop whose lower end is not the literal 0 (may not terminate)")
        count = hi if lo == "0" else "(%s - %s)" % (hi, lo)
        if indexed:
            # the body is executed for counter = 0, 1, ..., count-1 in this order: one symbolic round with the counter `i`
            if not up or lo != "0":
                self.err("a loop that uses its counter must count up from 0")
            if self.assigned_in(body):
                self.err("a loop that uses its counter changes a variable")
            probe = st.copy()
            probe.effects = []
            probe.env[v] = "i"
            outs = self.stmt(body, probe)
            self.st = st
            if len(outs) != 1 or outs[0].done or len(outs[0].effects) != 1 or outs[0].effects[0][0] != "slotwrite" or outs[0].checks != st.checks:
                self.err("indexed loop body outside the grammar")
            st.effects.append(("fill", count, outs[0].effects[0][1]))
            return [st]
        return self.repeat(body, count, st)

    def wloop(self, s, st):
        """`while` loops that count a local down to zero: `while(v-- > 0) body`, `while(v--) body`, `while(v != 0) { body; --v; }`"""
        _, c, body = s
        dec_in_cond = False
        if c[0] == "bin" and c[1] in (">", "!=") and c[3] == ("num", "0"):
            t = c[2]
        elif c[0] == "bin" and c[1] in ("<", "!=") and c[2] == ("num", "0"):
            t = c[3]
        else:
            t = c
        if t[0] == "post" and t[1] == "--" and t[2][0] == "name":
            v, dec_in_cond = t[2][1], True
        elif t[0] == "name" and t is not c:
            v = t[1]
        else:
            self.err("while condition outside the grammar")
        if v not in st.env or v in self.env0:
            self.err("while loop counts something that is not a local")
        if not dec_in_cond:
            items = body[1] if body[0] == "block" else [body]
            decs = (("expr", ("pre", "--", ("name", v))), ("expr", ("post", "--", ("name", v))), ("expr", ("assign", "-=", ("name", v), ("num", "1"))))
            if not items or items[-1] not in decs:
                self.err("while loop body does not end with the decrement of its counter")
            body = ("block", items[:-1])
        if v in _names(body):
            self.err("the loop body uses the counter %r" % v)
        count = self.num(st.env[v], "loop count")
        out = self.repeat(body, count, st)
        # `while(v--)` leaves the counter wrapped around, `while(v != 0) {..; --v;}` leaves 0
        st.env[v] = None if dec_in_cond else "0"
        return out

    def repeat(self, body, count, st):
        """the statement `body` executed `count` times (count is a Lean expression fixed on entry)"""
        assigned = set(self.lname(x[2]) for x in _walk(body) if x and x[0] in ("assign", "pre", "post"))
        # one symbolic round of the body: which locals change how, and which effects happen
        changed = sorted(x for x in assigned if x is not None)
        for x in changed:
            if x not in st.env or x in self.env0:
                self.err("the loop body changes %r" % x)
        probe = st.copy()
        probe.effects = []
        for x in changed:
            probe.env[x] = "§" + x
        outs = self.stmt(body, probe)
        self.st = st
        if len(outs) != 1 or outs[0].done:
            self.err("branching / return inside the loop body")
        o = outs[0]
        if len(changed) == 1 and o.env[changed[0]] == "(§%s - 1)" % changed[0] and o.effects == [("reset", "(§%s - 1)" % changed[0])]:
            first = self.num(st.env[changed[0]], "loop")
            st.effects.append(("resetdown", first, count))
            st.env[changed[0]] = "(%s - %s)" % (first, count)
            return [st]
        self.err("loop body outside the grammar (one round: %r, %r)" % (dict((x, o.env[x]) for x in changed), o.effects))


def _tree(paths, get, depth=0):
    """the value `get(path)` as one Lean expression: nested `if` over the path conditions"""
    vals = [get(p) for p in paths]
    if all(v == vals[0] for v in vals):
        return vals[0]
    if any(len(p.conds) <= depth for p in paths):
        raise TranslateError("paths cannot be merged")
    c = paths[0].conds[depth][0]
    if any(p.conds[depth][0] != c for p in paths):
        raise TranslateError("paths cannot be merged")
    t = [p for p in paths if p.conds[depth][1]]
    f = [p for p in paths if not p.conds[depth][1]]
    if not t or not f:
        return _tree(paths, get, depth + 1)
    for v in vals:
        if not isinstance(v, str):
            raise TranslateError("non-arithmetic values differ between paths")
    return "(if %s then %s else %s)" % (c, _tree(t, get, depth + 1), _tree(f, get, depth + 1))


def _path_cond(p):
    """conjunction of a path's conditions as a Lean Bool"""
    cs = [c if pol else "(!%s)" % c for c, pol in p.conds]
    if not cs:
        return "true"
    out = cs[0]
    for c in cs[1:]:
        out = "(%s && %s)" % (out, c)
    return out


def _run(what, body, env, ty="Nat", **kw):
    ex = Exec(what, env, ty)
    for k, v in kw.items():
        setattr(ex, k, v)
    paths = ex.run(_parse_body(body, what))
    if not paths:
        raise TranslateError("%s: no path" % what)
    return paths


def _unchanged(paths, env, what, keys=None):
    for p in paths:
        for k in (keys if keys is not None else env):
            if p.env.get(k) != env[k]:
                raise TranslateError("%s: %s changes where it must not" % (what, k))


def _ret(paths, what, tag=None, arity=0):
    """the returned value of a function all of whose paths return: a Lean expression (tag None) or the `arity` Lean
    components of a tagged value"""
    for p in paths:
        if not p.done or p.ret is None or p.threw:
            raise TranslateError("%s: a path ends without returning a value" % what)
        if tag is None and not isinstance(p.ret, str):
            raise TranslateError("%s: returned value outside the grammar: %r" % (what, p.ret))
        if tag is not None and not (isinstance(p.ret, tuple) and p.ret[0] == tag and len(p.ret) == arity + 1):
            raise TranslateError("%s: returned value outside the grammar: %r" % (what, p.ret))
    if tag is None:
        return _tree(paths, lambda p: p.ret)
    return [_tree(paths, lambda p, j=j: p.ret[j + 1]) for j in range(arity)]


def _same(paths, get, what, thing):
    vals = [get(p) for p in paths]
    if any(v != vals[0] for v in vals):
        raise TranslateError("%s: %s differs between the paths: %r" % (what, thing, vals))
    return vals[0]


def _which(paths, sel, what):
    """Lean Bool: the execution takes one of the paths in `sel`"""
    rest = [p for p in paths if p not in sel]
    if not sel or not rest:
        raise TranslateError("%s: expected both kinds of paths" % what)
    if len(paths) == 2 and len(sel[0].conds) == 1 and len(rest[0].conds) == 1:
        c, pol = sel[0].conds[0]
        return c if pol else "(!%s)" % c
    return _tree(paths, lambda p: "true" if p in sel else "false")


def _arraylist(repo, out):
    src = _strip_comments(open(os.path.join(repo, "dune/common/arraylist.hh")).read())

    # ---- chunkSize_ : all three classes must define it, identically ----
    cs = re.findall(r"constexpr\s+static\s+int\s+chunkSize_\s*=\s*([^;]+);|static\s+constexpr\s+int\s+chunkSize_\s*=\s*([^;]+);", src)
    cs = [re.sub(r"\s+", "", a or b) for a, b in cs]
    if len(cs) != 3 or len(set(cs)) != 1:
        raise TranslateError("chunkSize_: expected three identical definitions, got %r" % cs)
    m = re.fullmatch(r"\(?\(?N>(\d+)\)?\?N:(\d+)\)?", cs[0]) or re.fullmatch(r"\(?\(?(\d+)<N\)?\?N:(\d+)\)?", cs[0])
    if not m:
        raise TranslateError("chunkSize_ formula outside the grammar: %r" % cs[0])
    out.append(_defn("chunkSize", [("N", "Int")], "Nat", "if N > %s then N.toNat else %s" % (m.group(1), m.group(2)),
                     "`chunkSize_` of ArrayList and of both iterator classes"))

    nat = "Nat"
    mem = {"start_": "start", "size_": "size", "capacity_": "capacity", "chunkSize_": "cs", "chunks_": ("chunks",)}
    memkeys = ("start_", "size_", "capacity_", "chunkSize_")
    P4 = [("cs", nat), ("start", nat), ("size", nat), ("capacity", nat)]
    ro = ("chunkSize_",)

    def accessor(what, body, env, **kw):
        """a function that only computes: no effect, no member changes"""
        paths = _run(what, body, env, readonly=tuple(k for k in env if isinstance(env[k], str)), **kw)
        for p in paths:
            if p.effects:
                raise TranslateError("%s: an accessor with an effect on chunks_" % what)
        return paths

    # ---- ArrayList::elementAt (mutable and const): the element (chunk index, offset) ----
    bodies = _find_bodies(src, _T + r"typename\s+ArrayList<T,N,A>::(?:const_)?reference\s+" + _AL + r"elementAt\s*\(\s*size_type\s+(\w+)\s*\)\s*(?:const)?", "ArrayList::elementAt", 2)
    for (m, body), suf in zip(bodies, ("", "C")):
        env = {m.group(1): "i", "chunkSize_": "cs", "chunks_": ("chunks",)}
        a, b = _ret(accessor("ArrayList::elementAt", body, env), "ArrayList::elementAt", "chunkelem", 2)
        out.append(_defn("alElemChunk" + suf, [("cs", nat), ("i", nat)], nat, a,
                         "ArrayList::elementAt(i)%s: index into chunks_" % (" const" if suf else "")))
        out.append(_defn("alElemOffset" + suf, [("cs", nat), ("i", nat)], nat, b,
                         "ArrayList::elementAt(i)%s: index inside the chunk" % (" const" if suf else "")))

    # ---- operator[] (2): the absolute index handed to elementAt ----
    bodies = _find_bodies(src, _T + r"typename\s+ArrayList<T,N,A>::(?:const_)?reference\s+" + _AL + r"operator\[\]\s*\(\s*size_type\s+(\w+)\s*\)\s*(?:const)?", "ArrayList::operator[]", 2)
    for (m, body), suf in zip(bodies, ("", "C")):
        env = dict(mem)
        env[m.group(1)] = "i"
        a, = _ret(accessor("ArrayList::operator[]", body, env, own_element_at=True), "ArrayList::operator[]", "elemref", 1)
        out.append(_defn("alIndexArg" + suf, P4 + [("i", nat)], nat, a,
                         "ArrayList::operator[](i)%s: the absolute index handed to elementAt" % (" const" if suf else "")))

    # ---- begin / end (4): the position_ of the iterator over *this that is returned ----
    for fn, lean in (("begin", "alBegin"), ("end", "alEnd")):
        bodies = _find_bodies(src, _T + r"(?:Const)?ArrayListIterator<T,N,A>\s+" + _AL + fn + r"\s*\(\s*\)\s*(?:const)?", "ArrayList::" + fn, 2)
        for (m, body), suf in zip(bodies, ("", "C")):
            a, = _ret(accessor("ArrayList::" + fn, body, dict(mem)), "ArrayList::" + fn, "iter", 1)
            out.append(_defn(lean + suf, P4, nat, a, "position_ of ArrayList::%s()%s" % (fn, " const" if suf else "")))

    # ---- size() ----
    bodies = _find_bodies(src, _T + r"size_t\s+" + _AL + r"size\s*\(\s*\)\s*const", "ArrayList::size", 1)
    out.append(_defn("alSize", P4, nat, _ret(accessor("ArrayList::size", bodies[0][1], dict(mem)), "ArrayList::size"), "ArrayList::size()"))

    # ---- iterator elementAt / dereference (2 + 2): the absolute index handed to list_->elementAt ----
    for cls, sig, suf in (("ArrayListIterator", _IT, ""), ("ConstArrayListIterator", _CIT, "C")):
        bodies = _find_bodies(src, _T + r"typename\s+" + cls + r"<T,N,A>::reference\s+" + sig + r"elementAt\s*\(\s*size_type\s+(\w+)\s*\)\s*const", cls + "::elementAt", 1)
        m, body = bodies[0]
        a, = _ret(accessor(cls + "::elementAt", body, {m.group(1): "i", "position_": "pos", "chunkSize_": "cs"}), cls + "::elementAt", "elemref", 1)
        out.append(_defn("itElemArg" + suf, [("cs", nat), ("pos", nat), ("i", nat)], nat, a,
                         "%s::elementAt(i) = operator[] of an iterator: the absolute index handed to the list" % cls))
        bodies = _find_bodies(src, _T + r"typename\s+" + cls + r"<T,N,A>::reference\s+" + sig + r"dereference\s*\(\s*\)\s*const", cls + "::dereference", 1)
        a, = _ret(accessor(cls + "::dereference", bodies[0][1], {"position_": "pos", "chunkSize_": "cs"}), cls + "::dereference", "elemref", 1)
        out.append(_defn("itDerefArg" + suf, [("cs", nat), ("pos", nat)], nat, a, "%s::dereference()" % cls))

    # ---- iterator distanceTo (2), equals (3), advance / increment / decrement (2 each): Int / Bool ----
    for cls, sig, suf in (("ArrayListIterator", _IT, ""), ("ConstArrayListIterator", _CIT, "C")):
        bodies = _find_bodies(src, _T + r"typename\s+" + cls + r"<T,N,A>::difference_type\s+" + sig + r"distanceTo\s*\(\s*const\s+" + cls + r"<T,N,A>&\s*other\s*\)\s*const", cls + "::distanceTo", 1)
        v = _ret(accessor(cls + "::distanceTo", bodies[0][1], {"position_": "pos", "other.position_": "other"}, ty="Int"), cls + "::distanceTo")
        out.append(_defn("itDistanceTo" + suf, [("pos", "Int"), ("other", "Int")], "Int", v, "%s::distanceTo(other)" % cls))
        for fn, lean, params, sigargs in (("advance", "itAdvance", [("pos", "Int"), ("n", "Int")], r"difference_type\s+(\w+)"),
                                          ("increment", "itIncrement", [("pos", "Int")], ""),
                                          ("decrement", "itDecrement", [("pos", "Int")], "")):
            bodies = _find_bodies(src, _T + r"void\s+" + sig + fn + r"\s*\(\s*" + sigargs + r"\s*\)", cls + "::" + fn, 1)
            m, body = bodies[0]
            env = {"position_": "pos"}
            if sigargs:
                env[m.group(1)] = "n"
            paths = _run(cls + "::" + fn, body, env, ty="Int", readonly=tuple(k for k in env if k != "position_"))
            if any(p.effects or p.threw for p in paths):
                raise TranslateError("%s::%s: effect outside the grammar" % (cls, fn))
            out.append(_defn(lean + suf, params, "Int", _tree(paths, lambda p: p.env["position_"]), "%s::%s: the new position_" % (cls, fn)))
    eqs = _find_bodies(src, _T + r"bool\s+(?:Const)?ArrayListIterator<T,N,A>::equals\s*\(\s*const\s+(?:Const)?ArrayListIterator<MemberType,N,A>&\s*other\s*\)\s*const", "equals", 3)
    for (m, body), suf in zip(eqs, ("", "M", "C")):
        v = _ret(accessor("equals", body, {"position_": "pos", "other.position_": "other"}), "equals")
        out.append(_defn("itEquals" + suf, [("pos", nat), ("other", nat)], "Bool", v,
                         "equals: iterator/iterator, iterator/const_iterator, const_iterator/const_iterator (in source order)"))

    # ---- clear ----
    bodies = _find_bodies(src, _T + r"void\s+" + _AL + r"clear\s*\(\s*\)", "ArrayList::clear", 1)
    paths = _run("ArrayList::clear", bodies[0][1], dict(mem), readonly=ro)
    if any(p.effects != [("clear",)] or p.threw for p in paths):
        raise TranslateError("ArrayList::clear: chunks_.clear() expected exactly once")
    for mname, lean in (("capacity_", "clearCapacity"), ("size_", "clearSize"), ("start_", "clearStart")):
        out.append(_defn(lean, P4, nat, _tree(paths, lambda p: p.env[mname]), "ArrayList::clear(): %s afterwards (chunks_ is cleared)" % mname))

    # ---- push_back ----
    bodies = _find_bodies(src, _T + r"void\s+" + _AL + r"push_back\s*\(\s*const_reference\s+(\w+)\s*\)", "ArrayList::push_back", 1)
    m, body = bodies[0]
    env = dict(mem)
    env[m.group(1)] = ("entry",)
    what = "ArrayList::push_back"
    paths = _run(what, body, env, readonly=ro, own_element_at=True)
    grown, plain = [], []
    for p in paths:
        if len(p.effects) == 2 and p.effects[0] == ("grow",) and p.effects[1][0] == "write":
            grown.append(p)
        elif len(p.effects) == 1 and p.effects[0][0] == "write":
            plain.append(p)
        else:
            raise TranslateError("%s: expected [append one chunk,] write one element; got %r" % (what, p.effects))
        if p.threw:
            raise TranslateError("%s: throws" % what)
    _unchanged(plain, env, what + " (without growth)", ("capacity_",))
    widx = _same(paths, lambda p: p.effects[-1][1], what, "the index written")
    wsize = _same(paths, lambda p: p.env["size_"], what, "size_ afterwards")
    wstart = _same(paths, lambda p: p.env["start_"], what, "start_ afterwards")
    for e in (widx, wsize, wstart):
        if re.search(r"\bcapacity\b", e):
            raise TranslateError("%s: index / size_ / start_ depend on capacity_" % what)
    out.append(_defn("pushGrow", P4, "Bool", _which(paths, grown, what), "push_back: a new chunk is appended iff"))
    out.append(_defn("pushGrownCapacity", P4, nat, _tree(grown, lambda p: p.env["capacity_"]), "push_back: capacity_ after appending a chunk"))
    out.append(_defn("pushWriteIndex", P4, nat, widx, "push_back: absolute index the entry is written to"))
    out.append(_defn("pushSize", P4, nat, wsize, "push_back: size_ afterwards"))
    out.append(_defn("pushStart", P4, nat, wstart, "push_back: start_ afterwards"))

    # ---- purge ----
    bodies = _find_bodies(src, _T + r"void\s+" + _AL + r"purge\s*\(\s*\)", "ArrayList::purge", 1)
    what = "ArrayList::purge"
    paths = _run(what, bodies[0][1], dict(mem), readonly=ro)
    work, idle = [], []
    for p in paths:
        if p.threw:
            raise TranslateError("%s: throws" % what)
        if not p.effects:
            idle.append(p)
        elif len(p.effects) == 2 and p.effects[0][0] == "copy" and p.effects[0][3] == "0" and p.effects[1][0] == "resize":
            work.append(p)
        else:
            raise TranslateError("%s: expected copy of a chunk range to the front, then resize; got %r" % (what, p.effects))
    _unchanged(idle, mem, what + " (nothing to do)", memkeys)
    out.append(_defn("purgeCond", P4, "Bool", _which(paths, work, what), "purge: something is done iff"))
    out.append(_defn("purgeCopyFrom", P4, nat, _tree(work, lambda p: p.effects[0][1]), "purge: first chunk index copied to the front"))
    out.append(_defn("purgeCopyTo", P4, nat, _tree(work, lambda p: p.effects[0][2]), "purge: end of the copied chunk range"))
    out.append(_defn("purgeResize", P4, nat, _tree(work, lambda p: p.effects[1][1]), "purge: number of chunk pointers kept"))
    out.append(_defn("purgeStart", P4, nat, _tree(work, lambda p: p.env["start_"]), "purge: start_ afterwards"))
    out.append(_defn("purgeCapacity", P4, nat, _tree(work, lambda p: p.env["capacity_"]), "purge: capacity_ afterwards"))
    out.append(_defn("purgeSize", P4, nat, _tree(work, lambda p: p.env["size_"]), "purge: size_ afterwards"))

    # ---- eraseToHere ----
    bodies = _find_bodies(src, _T + r"void\s+" + _IT + r"eraseToHere\s*\(\s*\)", "eraseToHere", 1)
    what = "eraseToHere"
    env = dict(mem, position_="pos")
    paths = _run(what, bodies[0][1], env, readonly=ro)
    eff = _same(paths, lambda p: p.effects, what, "the effect on chunks_")
    if len(eff) != 1 or eff[0][0] != "resetdown" or any(p.threw for p in paths):
        raise TranslateError("%s: expected one loop resetting chunk pointers downwards; got %r" % (what, eff))
    P5 = P4 + [("pos", nat)]
    out.append(_defn("erasePos", P5, nat, _tree(paths, lambda p: p.env["position_"]), "eraseToHere: position_ afterwards"))
    out.append(_defn("eraseSize", P5, nat, _tree(paths, lambda p: p.env["size_"]), "eraseToHere: size_ afterwards"))
    out.append(_defn("eraseStart", P5, nat, _tree(paths, lambda p: p.env["start_"]), "eraseToHere: start_ afterwards"))
    out.append(_defn("eraseCapacity", P5, nat, _tree(paths, lambda p: p.env["capacity_"]), "eraseToHere: capacity_ afterwards"))
    out.append(_defn("eraseLoopFirst", P5, nat, eff[0][1], "eraseToHere: the chunk index the freeing loop counts down from (exclusive)"))
    out.append(_defn("eraseLoopCount", P5, nat, eff[0][2], "eraseToHere: number of chunk pointers reset"))


def _bitsetvector(repo, out):
    src = _strip_comments(open(os.path.join(repo, "dune/common/bitsetvector.hh")).read())
    nat = "Nat"
    k = src.find("class BitSetVector :")
    if k < 0:
        k = src.find("class BitSetVector:")
    if k < 0:
        raise TranslateError("class BitSetVector not found")
    cls = src[k:]
    # getBit (2)
    bodies = _find_bodies(cls, r"typename\s+std::vector<bool>::(?:const_)?reference\s+getBit\s*\(\s*size_type\s+(\w+)\s*,\s*size_type\s+(\w+)\s*\)\s*(?:const)?", "BitSetVector::getBit", 2)
    def _bit(ex, args):
        if len(args) != 1:
            ex.err("operator[] with %d arguments" % len(args))
        return ("bit", ex.num(ex.ev(args[0]), "bit index"))

    def _bvsize(ex, args):
        # size() is read as what its own translation (bvSize, tied below) says
        return "(%s / %s)" % (ex.get("len__"), ex.get("block_size"))
    for (m, body), suf in zip(bodies, ("", "C")):
        e = {m.group(1): "i", m.group(2): "j", "block_size": "B", "len__": "len__"}
        paths = _run("BitSetVector::getBit", body, e, readonly=tuple(e),
                     own={"BlocklessBaseClass::operator[]": _bit, "DUNE_ASSERT_BOUNDS": lambda ex, a: ("void",) if len(a) == 1 and not _impure(a[0]) else ex.err("assert with a side effect"),
                          "size": _bvsize})
        if any(p.effects for p in paths):
            raise TranslateError("BitSetVector::getBit: effect outside the grammar")
        v, = _ret(paths, "BitSetVector::getBit", "bit", 1)
        if "len__" in v:
            raise TranslateError("BitSetVector::getBit: the address depends on the size")
        out.append(_defn("bvAddr" + suf, [("B", nat), ("i", nat), ("j", nat)], nat, v,
                         "BitSetVector::getBit(i,j)%s: index into the vector<bool>" % (" const" if suf else "")))
    # constructors (n), (n,v), resize, size, the vector<bool> constructor's test
    m = re.search(r"explicit\s+BitSetVector\s*\(\s*int\s+(\w+)\s*\)\s*:\s*BlocklessBaseClass\s*\(([^,()]+)\)\s*\{\s*\}", cls)
    if not m:
        raise TranslateError("BitSetVector(int n) outside the grammar")
    out.append(_defn("bvCtorLen", [("B", nat), ("n", nat)], nat, Sym("BitSetVector(n)", {m.group(1): "n", "block_size": "B"}).expr(m.group(2)), "BitSetVector(n): bits allocated"))
    m = re.search(r"BitSetVector\s*\(\s*int\s+(\w+)\s*,\s*bool\s+(\w+)\s*\)\s*:\s*BlocklessBaseClass\s*\(([^,()]+),\s*(\w+)\s*\)\s*\{\s*\}", cls)
    if not m or m.group(4) != m.group(2):
        raise TranslateError("BitSetVector(int n, bool v) outside the grammar")
    out.append(_defn("bvCtorLenV", [("B", nat), ("n", nat)], nat, Sym("BitSetVector(n,v)", {m.group(1): "n", "block_size": "B"}).expr(m.group(3)), "BitSetVector(n,v): bits allocated"))
    m = re.search(r"void\s+resize\s*\(\s*int\s+(\w+)\s*,\s*bool\s+(\w+)\s*=\s*bool\s*\(\s*\)\s*\)\s*\{\s*BlocklessBaseClass::resize\s*\(([^,()]+),\s*(\w+)\s*\)\s*;\s*\}", cls)
    if not m or m.group(4) != m.group(2):
        raise TranslateError("BitSetVector::resize outside the grammar")
    out.append(_defn("bvResizeLen", [("B", nat), ("n", nat)], nat, Sym("BitSetVector::resize", {m.group(1): "n", "block_size": "B"}).expr(m.group(3)), "resize(n,v): new number of bits"))
    m = re.search(r"size_type\s+size\s*\(\s*\)\s*const\s*\{\s*return\s+([^;]+);\s*\}", cls)
    if not m:
        raise TranslateError("BitSetVector::size outside the grammar")
    e = re.sub(r"BlocklessBaseClass::size\s*\(\s*\)", "len__", m.group(1))
    out.append(_defn("bvSize", [("B", nat), ("len", nat)], nat, Sym("BitSetVector::size", {"len__": "len", "block_size": "B"}).expr(e), "size(): number of blocks of a vector<bool> of `len` bits"))
    m = re.search(r"BitSetVector\s*\(\s*const\s+BlocklessBaseClass\s*&\s*(\w+)\s*\)\s*:\s*BlocklessBaseClass\s*\(\s*(\w+)\s*\)\s*\{\s*if\s*\((.+?)\)\s*DUNE_THROW\s*\(\s*RangeError\s*,", cls, flags=re.S)
    if not m or m.group(1) != m.group(2):
        raise TranslateError("BitSetVector(const vector<bool>&) outside the grammar")
    e = re.sub(r"\b%s\s*\.\s*size\s*\(\s*\)" % re.escape(m.group(1)), "len__", m.group(3))
    e = re.sub(r"(?:BlocklessBaseClass::|this\s*->\s*)size\s*\(\s*\)", "len__", e)
    out.append(_defn("bvCtorReject", [("B", nat), ("len", nat)], "Bool", Sym("BitSetVector(vector<bool>)", {"len__": "len", "block_size": "B"}).expr(e),
                     "BitSetVector(const vector<bool>&) throws RangeError iff"))


def _strip_noexcept(src):
    out, i = [], 0
    for m in re.finditer(r"\bnoexcept\b", src):
        if m.start() < i:
            continue
        out.append(src[i:m.start()])
        j = m.end()
        k = j
        while k < len(src) and src[k].isspace():
            k += 1
        if k < len(src) and src[k] == "(":
            depth = 0
            while k < len(src):
                if src[k] == "(":
                    depth += 1
                elif src[k] == ")":
                    depth -= 1
                    if depth == 0:
                        break
                k += 1
            j = k + 1
        i = j
    out.append(src[i:])
    return "".join(out)


def _reservedvector(repo, out):
    src = _strip_noexcept(_strip_comments(open(os.path.join(repo, "dune/common/reservedvector.hh")).read()))
    k = src.find("class ReservedVector")
    if k < 0:
        raise TranslateError("class ReservedVector not found")
    cls = src[k:]
    nat = "Nat"
    P = [("n", nat), ("size", nat)]
    PI = P + [("i", nat)]

    def env(extra=None):
        e = {"size_": "size", "n": "n"}
        e.update(extra or {})
        return e

    def norm(e):
        e = re.sub(r"\b(?:this\s*->\s*)?size\s*\(\s*\)", "size_", e)
        e = re.sub(r"\b(?:this\s*->\s*)?empty\s*\(\s*\)", "(size_==0)", e)
        return e

    def bodies(name_re, args_re, count, what, const=None):
        rx = r"(?:constexpr\s+|static\s+|inline\s+)*[\w:&<>\s\*]*?\b" + name_re + r"\s*\(\s*" + args_re + r"\s*\)\s*(const\b)?\s*(?=\{)"
        ms = [m for m in re.finditer(rx, cls)]
        if len(ms) != count:
            raise TranslateError("ReservedVector::%s: expected %d definition(s), found %d" % (what, count, len(ms)))
        return [(m, _body_after(cls, m.end(), what)) for m in ms]

    def split_checks(body, what, e):
        """-> (list of CHECKSIZE conditions as Lean, remaining statements)"""
        checks, rest = [], []
        for st in _stmts(re.sub(r"CHECKSIZE\s*\(([^;]*)\)\s*;", r"CHECKSIZE(\1);", body)):
            m = re.fullmatch(r"CHECKSIZE\s*\((.*)\)", st, flags=re.S)
            if m:
                checks.append(Sym(what, e).expr(norm(m.group(1))))
            else:
                rest.append(st)
        return checks, rest

    # ---- round five: the functions below are symbolically executed (class Exec), not pattern matched ----
    def _noargs(f):
        def h(ex, args):
            if args:
                ex.err("unexpected arguments")
            return f(ex)
        return h

    def _check(ex, args):
        if len(args) != 1 or _impure(args[0]):
            ex.err("CHECKSIZE with a side effect")
        ex.st.checks.append(ex.num(ex.ev(args[0]), "CHECKSIZE"))
        return ("void",)

    def _rev(ex, args):
        v = ex.ev(args[0]) if len(args) == 1 else None
        if not (isinstance(v, tuple) and v[0] == "storit"):
            ex.err("reverse_iterator over something other than a storage_ iterator")
        return v

    # calls of the class's own nullary accessors are inlined: the callee's body is executed on the caller's current state
    # (all overloads of the name must give the same value, since the translator does not track constness of the caller)
    active = set()

    def inline(name, count):
        def h(ex, args):
            if args:
                ex.err("%s() called with arguments" % name)
            if name in active:
                ex.err("recursive call of %s()" % name)
            active.add(name)
            try:
                vals = []
                for (m, body) in bodies(name, r"", count, name):
                    sub = {"size_": ex.st.env["size_"], "n": ex.st.env["n"], "storage_": ("storage",)}
                    paths = _run("ReservedVector::%s (inlined)" % name, body, sub, own=rv_own, readonly=tuple(sub))
                    if any(p.effects or p.checks or p.threw or not p.done for p in paths):
                        ex.err("inlined %s() has an effect / a check / no value" % name)
                    rets = [p.ret for p in paths]
                    if all(isinstance(r, str) for r in rets):
                        vals.append(_tree(paths, lambda p: p.ret))
                    elif all(r == rets[0] for r in rets):
                        vals.append(rets[0])
                    else:
                        ex.err("the value of inlined %s() cannot be merged" % name)
            finally:
                active.discard(name)
            if any(v != vals[0] for v in vals):
                ex.err("the overloads of %s() differ" % name)
            return vals[0]
        return h

    rv_own = {"size": inline("size", 1), "empty": inline("empty", 1), "capacity": inline("capacity", 1), "max_size": inline("max_size", 1),
              "begin": inline("begin", 2), "cbegin": inline("cbegin", 1), "end": inline("end", 2), "cend": inline("cend", 1),
              "CHECKSIZE": _check, "reverse_iterator": _rev, "const_reverse_iterator": _rev}

    def rv_run(what, body, extra=None, writable=("size_",)):
        e = env(extra)
        e["storage_"] = ("storage",)
        return _run("ReservedVector::" + what, body, e, own=rv_own, readonly=tuple(k for k in e if k not in writable))

    def rv_pure(what, body, extra=None):
        paths = rv_run(what, body, extra, writable=())
        if any(p.effects for p in paths):
            raise TranslateError("ReservedVector::%s: effect outside the grammar" % what)
        return paths

    def accessor(name_re, args_re, lean, what, has_i):
        for (m, body), suf in zip(bodies(name_re, args_re, 2, what), ("", "C")):
            paths = rv_pure(what, body, {m.group(1): "i"} if has_i else None)
            chk = _same(paths, lambda p: p.checks, "ReservedVector::" + what, "the CHECKSIZE conditions")
            if len(chk) != 1:
                raise TranslateError("ReservedVector::%s: expected exactly one CHECKSIZE" % what)
            slot, = _ret(paths, "ReservedVector::" + what, "slot", 1)
            out.append(_defn(lean + suf, PI if has_i else P, nat, slot, "ReservedVector::%s%s: slot read" % (what, " const" if suf else "")))
            out.append(_defn(lean + "Check" + suf, PI if has_i else P, "Bool", chk[0], "ReservedVector::%s%s: what CHECKSIZE asserts" % (what, " const" if suf else "")))

    accessor(r"operator\[\]", r"size_type\s+(\w+)", "rvIndex", "operator[]", True)
    accessor(r"front", r"", "rvFront", "front", False)
    accessor(r"back", r"", "rvBack", "back", False)

    # at (2): throws iff ..., otherwise the slot read
    for (m, body), suf in zip(bodies(r"at", r"size_type\s+(\w+)", 2, "at"), ("", "C")):
        paths = rv_pure("at", body, {m.group(1): "i"})
        thr = [p for p in paths if p.threw]
        okp = [p for p in paths if not p.threw]
        if any(p.checks for p in paths):
            raise TranslateError("ReservedVector::at: CHECKSIZE in at()")
        out.append(_defn("rvAtThrow" + suf, PI, "Bool", _which(paths, thr, "ReservedVector::at"), "ReservedVector::at(i)%s throws std::out_of_range iff" % (" const" if suf else "")))
        out.append(_defn("rvAtIndex" + suf, PI, nat, _ret(okp, "ReservedVector::at", "slot", 1)[0], "ReservedVector::at(i)%s: slot read" % (" const" if suf else "")))

    # size / empty / capacity / max_size
    for name, lean, ty in (("size", "rvSize", nat), ("empty", "rvEmpty", "Bool"), ("capacity", "rvCapacity", nat), ("max_size", "rvMaxSize", nat)):
        (m, body), = bodies(name, r"", 1, name)
        own = dict((k, v) for k, v in rv_own.items() if k != name)      # a function is not read through itself
        e = env()
        paths = _run("ReservedVector::" + name, body, e, own=own, readonly=tuple(e))
        if any(p.effects or p.checks for p in paths):
            raise TranslateError("ReservedVector::%s: effect outside the grammar" % name)
        out.append(_defn(lean, P, ty, _ret(paths, "ReservedVector::" + name), "ReservedVector::%s()" % name))

    # clear / resize: size_ afterwards
    (m, body), = bodies(r"clear", r"", 1, "clear")
    paths = rv_run("clear", body)
    if any(p.effects or p.checks or p.threw for p in paths):
        raise TranslateError("ReservedVector::clear: effect outside the grammar")
    out.append(_defn("rvClearSize", P, nat, _tree(paths, lambda p: p.env["size_"]), "ReservedVector::clear(): size_ afterwards"))
    (m, body), = bodies(r"resize", r"size_type\s+(\w+)", 1, "resize")
    paths = rv_run("resize", body, {m.group(1): "i"})
    chk = _same(paths, lambda p: p.checks, "ReservedVector::resize", "the CHECKSIZE conditions")
    if len(chk) != 1 or any(p.effects or p.threw for p in paths):
        raise TranslateError("ReservedVector::resize: one CHECKSIZE expected")
    out.append(_defn("rvResizeSize", PI, nat, _tree(paths, lambda p: p.env["size_"]), "ReservedVector::resize(i): size_ afterwards"))
    out.append(_defn("rvResizeCheck", PI, "Bool", chk[0], "ReservedVector::resize(i): what CHECKSIZE asserts"))

    # push_back (2) and emplace_back: the slot written and the new size
    def push(body, what, lean):
        e = env()
        checks, rest = split_checks(body.split("p->~value_type")[0] if "p->~value_type" in body else body, what, e)
        if len(checks) != 1:
            raise TranslateError("ReservedVector::%s: one CHECKSIZE expected" % what)
        sy = Sym("ReservedVector::" + what, e)
        idx = None
        for st in rest:
            r = re.fullmatch(r"(?:value_type\s*\*\s*\w+\s*=\s*&\s*)?storage_\s*\[(.+?)\](?:\s*=\s*(?:\w+|std::move\s*\(\s*\w+\s*\)))?", st, flags=re.S)
            if r:
                if idx is not None:
                    raise TranslateError("ReservedVector::%s: two slot accesses" % what)
                ix = r.group(1).strip()
                pm = re.fullmatch(r"size_\s*\+\+", ix)
                if pm:
                    idx = sy.expr("size_")
                    sy.update("size_", "(%s + 1)" % sy.lookup("size_"))
                else:
                    idx = sy.expr(ix)
            elif not sy.stmt(st):
                raise TranslateError("ReservedVector::%s: statement outside the grammar: %r" % (what, st))
        if idx is None:
            raise TranslateError("ReservedVector::%s: no slot access" % what)
        out.append(_defn(lean + "Index", P, nat, idx, "ReservedVector::%s: slot written" % what))
        out.append(_defn(lean + "Size", P, nat, sy.env["size_"], "ReservedVector::%s: size_ afterwards" % what))
        out.append(_defn(lean + "Check", P, "Bool", checks[0], "ReservedVector::%s: what CHECKSIZE asserts" % what))
    pb = bodies(r"push_back", r"(?:const\s+value_type\s*&|value_type\s*&&)\s*(\w+)", 2, "push_back")
    for (m, body), what, lean in zip(pb, ("push_back(const&)", "push_back(&&)"), ("rvPush", "rvPushR")):
        paths = rv_run(what, body, {m.group(1): ("entry",)})
        eff = _same(paths, lambda p: p.effects, "ReservedVector::" + what, "the slot written")
        chk = _same(paths, lambda p: p.checks, "ReservedVector::" + what, "the CHECKSIZE conditions")
        if len(eff) != 1 or eff[0][0] != "slotwrite" or len(chk) != 1 or any(p.threw for p in paths):
            raise TranslateError("ReservedVector::%s: expected one CHECKSIZE and one slot write, got %r / %r" % (what, chk, eff))
        out.append(_defn(lean + "Index", P, nat, eff[0][1], "ReservedVector::%s: slot written" % what))
        out.append(_defn(lean + "Size", P, nat, _tree(paths, lambda p: p.env["size_"]), "ReservedVector::%s: size_ afterwards" % what))
        out.append(_defn(lean + "Check", P, "Bool", chk[0], "ReservedVector::%s: what CHECKSIZE asserts" % what))
    (m, body), = bodies(r"emplace_back", r"Args\s*&&\s*\.\.\.\s*\w+", 1, "emplace_back")
    push(body, "emplace_back", "rvEmplace")

    # pop_back: something is removed iff ..., and then size_ becomes ...
    (m, body), = bodies(r"pop_back", r"", 1, "pop_back")
    paths = rv_run("pop_back", body)
    if any(p.effects or p.checks or p.threw for p in paths):
        raise TranslateError("ReservedVector::pop_back: effect outside the grammar")
    work = [p for p in paths if p.env["size_"] != "size"]
    out.append(_defn("rvPopCond", P, "Bool", _which(paths, work, "ReservedVector::pop_back"), "ReservedVector::pop_back(): something is removed iff"))
    out.append(_defn("rvPopSize", P, nat, _tree(work, lambda p: p.env["size_"]), "ReservedVector::pop_back(): size_ afterwards when something is removed"))

    # the iterator ranges: begin/cbegin at offset 0, end/cend/rbegin/crbegin at the generated offset, rend at 0
    for name, cnt, lean in (("begin", 2, "rvBeginOff"), ("cbegin", 1, "rvCbeginOff"), ("end", 2, "rvEndOff"), ("cend", 1, "rvCendOff"),
                            ("rbegin", 2, "rvRbeginOff"), ("crbegin", 1, "rvCrbeginOff"), ("rend", 2, "rvRendOff"), ("crend", 1, "rvCrendOff")):
        for (m, body), suf in zip(bodies(name, r"", cnt, name), ("", "C")):
            own = dict((k, v) for k, v in rv_own.items() if k != name)
            e = env()
            e["storage_"] = ("storage",)
            paths = _run("ReservedVector::" + name, body, e, own=own, readonly=tuple(e))
            if any(p.effects or p.checks for p in paths):
                raise TranslateError("ReservedVector::%s: effect outside the grammar" % name)
            out.append(_defn(lean + suf, P, nat, _ret(paths, "ReservedVector::" + name, "storit", 1)[0],
                             "ReservedVector::%s()%s: offset into storage_" % (name, " const" if suf else "")))

    # fill: the slots written, in order: round i (0 <= i < bound) writes slot index(i)
    (m, body), = bodies(r"fill", r"const\s+value_type\s*&\s*(\w+)", 1, "fill")
    if m.group(1) == "i":
        raise TranslateError("ReservedVector::fill: parameter named i")
    e = env({m.group(1): ("entry",)})
    e["storage_"] = ("storage",)
    paths = _run("ReservedVector::fill", body, e, own=rv_own, readonly=tuple(e), indexed_loops=True)
    eff = _same(paths, lambda p: p.effects, "ReservedVector::fill", "the effect")
    if len(eff) != 1 or eff[0][0] != "fill" or any(p.threw or p.checks for p in paths):
        raise TranslateError("ReservedVector::fill: expected one loop / std::fill writing the argument to consecutive slots, got %r" % (eff,))
    out.append(_defn("rvFillBound", P, nat, eff[0][1], "ReservedVector::fill: loop bound"))
    out.append(_defn("rvFillIndex", PI, nat, eff[0][2], "ReservedVector::fill: slot written in round i"))

    # hash_value: hash_range(v.storage_.data(), v.storage_.data()+E)
    r = re.search(r"hash_value\s*\(\s*const\s+ReservedVector\s*&\s*(\w+)\s*\)\s*\{\s*return\s+hash_range\s*\(\s*\1\.storage_\.data\(\)\s*,\s*\1\.storage_\.data\(\)\s*\+([^;]+)\)\s*;\s*\}", cls)
    if not r:
        raise TranslateError("hash_value(ReservedVector) outside the grammar")
    e = re.sub(r"\b%s\s*\.\s*size_\b" % re.escape(r.group(1)), "size_", r.group(2))
    e = re.sub(r"\b%s\s*\.\s*size\s*\(\s*\)" % re.escape(r.group(1)), "size_", e)
    out.append(_defn("rvHashEnd", P, nat, Sym("hash_value", env()).expr(e), "hash_value: number of slots hashed"))


def _class_text(src, name):
    m = re.search(r"\bclass\s+%s\b\s*\{" % name, src)
    if not m:
        raise TranslateError("class %s not found" % name)
    return _body_after(src, m.start(), name)


_SELF = re.compile(r"static_cast\s*<\s*(?:const\s+DerivedType|DerivedType\s+const|DerivedType)\s*\*\s*>\s*\(\s*this\s*\)\s*->")
_RETSELF = re.compile(r"return\s+\*\s*static_cast\s*<\s*DerivedType\s*\*\s*>\s*\(\s*this\s*\)")
_COPY = re.compile(r"DerivedType\s+(\w+)\s*\(\s*static_cast\s*<\s*(?:DerivedType\s+const|const\s+DerivedType)\s*&\s*>\s*\(\s*\*this\s*\)\s*\)")


def _member_op(cls, op_re, args_re, what):
    ms = list(re.finditer(r"operator\s*" + op_re + r"\s*\(\s*" + args_re + r"\s*\)\s*(?:const)?\s*(?=\{)", cls))
    if len(ms) != 1:
        raise TranslateError("%s: expected one definition, found %d" % (what, len(ms)))
    return ms[0], _stmts(_body_after(cls, ms[0].end(), what))


def _facade(repo, out):
    src = _strip_comments(open(os.path.join(repo, "dune/common/iteratorfacades.hh")).read())
    ra = _class_text(src, "RandomAccessIteratorFacade")
    fw = _class_text(src, "ForwardIteratorFacade")
    out.append("/-- the primitive of the derived iterator class a facade operator forwards to -/")
    out.append("inductive Prim where\n  | increment | decrement | advance\n  deriving Repr, DecidableEq")

    def pre(cls, op_re, lean, what):
        m, st = _member_op(cls, op_re, r"", what)
        if len(st) != 2 or not _RETSELF.fullmatch(st[1]):
            raise TranslateError("%s: expected `derived.prim(); return derived;`, got %r" % (what, st))
        c = re.fullmatch(_SELF.pattern + r"\s*(increment|decrement)\s*\(\s*\)", st[0])
        if not c:
            raise TranslateError("%s: call outside the grammar: %r" % (what, st[0]))
        out.append(_defn(lean, [], "Prim", "." + c.group(1), "%s forwards to" % what))

    def post(cls, op, lean, what):
        m, st = _member_op(cls, re.escape(op), r"int", what)
        if len(st) != 3:
            raise TranslateError("%s: expected three statements, got %r" % (what, st))
        call = r"this\s*->\s*operator\s*" + re.escape(op) + r"\s*\(\s*\)"
        if _COPY.fullmatch(st[0]) and re.fullmatch(call, st[1]) and st[2] == "return " + _COPY.fullmatch(st[0]).group(1):
            old = "true"
        elif re.fullmatch(call, st[0]) and _COPY.fullmatch(st[1]) and st[2] == "return " + _COPY.fullmatch(st[1]).group(1):
            old = "false"
        else:
            raise TranslateError("%s: statements outside the grammar: %r" % (what, st))
        out.append(_defn(lean, [], "Bool", old, "%s: the copy that is returned is taken before the step" % what))

    pre(ra, r"\+\+", "facPreInc", "RandomAccessIteratorFacade::operator++()")
    pre(ra, r"--", "facPreDec", "RandomAccessIteratorFacade::operator--()")
    post(ra, "++", "facPostIncReturnsOld", "RandomAccessIteratorFacade::operator++(int)")
    post(ra, "--", "facPostDecReturnsOld", "RandomAccessIteratorFacade::operator--(int)")
    pre(fw, r"\+\+", "fwdPreInc", "ForwardIteratorFacade::operator++()")
    post(fw, "++", "fwdPostIncReturnsOld", "ForwardIteratorFacade::operator++(int)")

    # operator[](n), += n, -= n, + n, - n : the argument handed to elementAt / advance
    m, st = _member_op(ra, r"\[\]", r"DifferenceType\s+(\w+)", "RandomAccessIteratorFacade::operator[]")
    c = len(st) == 1 and re.fullmatch(r"return\s+" + _SELF.pattern + r"\s*elementAt\s*\((.+)\)", st[0], flags=re.S)
    if not c:
        raise TranslateError("RandomAccessIteratorFacade::operator[] outside the grammar: %r" % st)
    out.append(_defn("facIndexArg", [("n", "Int")], "Int", Sym("operator[]", {m.group(1): "n"}, "Int").expr(c.group(1)), "it[n] = derived.elementAt(this)"))
    # `+= n` must call advance directly; `-= n`, `+ n`, `- n` may call advance or forward (one level) to `+=` / `-=`
    compound = {}   # "+=" / "-=" -> (parameter name, C++ argument expression handed to advance)

    def moved(callee, arg, param, what):
        """the Lean argument advance() finally receives when `callee` is applied to the C++ expression `arg`"""
        inner = Sym(what, {param: "n"}, "Int").expr(arg)
        if callee == "advance":
            return inner
        if callee not in compound:
            raise TranslateError("%s: forwards to operator%s, which is not translated yet" % (what, callee))
        p2, e2 = compound[callee]
        return Sym(what, {p2: inner}, "Int").expr(e2)

    for op, lean, what in (("+=", "facPlusEqArg", "operator+="), ("-=", "facMinusEqArg", "operator-=")):
        m, st = _member_op(ra, re.escape(op), r"DifferenceType\s+(\w+)", "RandomAccessIteratorFacade::" + what)
        if len(st) != 2 or not _RETSELF.fullmatch(st[1]):
            raise TranslateError("RandomAccessIteratorFacade::%s outside the grammar: %r" % (what, st))
        c = re.fullmatch(_SELF.pattern + r"\s*advance\s*\((.+)\)", st[0], flags=re.S)
        f = re.fullmatch(r"(?:this\s*->\s*operator\s*(\+=|-=)\s*\((.+)\)|\(?\s*\*\s*this\s*\)?\s*(\+=|-=)\s*(.+))", st[0], flags=re.S)
        if c:
            val = moved("advance", c.group(1), m.group(1), what)
            compound[op] = (m.group(1), c.group(1))
        elif f and (f.group(1) or f.group(3)) != op:
            val = moved(f.group(1) or f.group(3), f.group(2) or f.group(4), m.group(1), what)
        else:
            raise TranslateError("RandomAccessIteratorFacade::%s outside the grammar: %r" % (what, st))
        out.append(_defn(lean, [("n", "Int")], "Int", val, "%s n: the argument derived.advance() receives" % what))
    for op_re, lean, what in ((r"\+", "facPlusArg", "operator+"), (r"-", "facMinusArg", "operator-")):
        ms = [x for x in re.finditer(r"operator\s*" + op_re + r"\s*\(\s*DifferenceType\s+(\w+)\s*\)\s*const\s*(?=\{)", ra)]
        if len(ms) != 1:
            raise TranslateError("RandomAccessIteratorFacade::%s(n): expected one definition" % what)
        st = _stmts(_body_after(ra, ms[0].end(), what))
        cp = len(st) == 3 and _COPY.fullmatch(st[0])
        if not cp or st[2] != "return " + cp.group(1):
            raise TranslateError("RandomAccessIteratorFacade::%s(n) outside the grammar: %r" % (what, st))
        t = re.escape(cp.group(1))
        c = re.fullmatch(t + r"\s*\.\s*advance\s*\((.+)\)", st[1], flags=re.S)
        f = re.fullmatch(t + r"\s*(\+=|-=)\s*(.+)", st[1], flags=re.S) or re.fullmatch(t + r"\s*\.\s*operator\s*(\+=|-=)\s*\((.+)\)", st[1], flags=re.S)
        if c:
            val = moved("advance", c.group(1), ms[0].group(1), what)
        elif f:
            val = moved(f.group(1), f.group(2), ms[0].group(1), what)
        else:
            raise TranslateError("RandomAccessIteratorFacade::%s(n) outside the grammar: %r" % (what, st))
        out.append(_defn(lean, [("n", "Int")], "Int", val, "it %s n: the argument copy.advance() receives" % what[-1]))

    # the free operators: what each returns when is_convertible<T2,T1> holds / does not hold, over lhs.distanceTo(rhs),
    # rhs.distanceTo(lhs) / equals (the derived objects may be named once, the branch may be `?:`, `if constexpr`, ...)
    k = src.find("class RandomAccessIteratorFacade")
    free = src[k:]
    for op, lean, prim, ty in (("==", "facEq", "equals", "Bool"), ("!=", "facNe", "equals", "Bool"), ("<", "facLt", "distanceTo", "Bool"),
                               ("<=", "facLe", "distanceTo", "Bool"), (">", "facGt", "distanceTo", "Bool"), (">=", "facGe", "distanceTo", "Bool"),
                               ("-", "facDiff", "distanceTo", "Int")):
        m = re.search(r"operator\s*" + re.escape(op) + r"\s*\(\s*const\s+RandomAccessIteratorFacade\s*<\s*T1\s*,\s*V1\s*,\s*R1\s*,\s*D\s*>\s*&\s*lhs\s*,\s*const\s+RandomAccessIteratorFacade\s*<\s*T2\s*,\s*V2\s*,\s*R2\s*,\s*D\s*>\s*&\s*rhs\s*\)\s*(?=\{)", free)
        if not m:
            raise TranslateError("RandomAccessIteratorFacade free operator%s not found" % op)
        what = "free operator" + op
        body = _body_after(free, m.end(), what)
        env = {"lhs": ("obj", "l"), "rhs": ("obj", "r"), "std::is_convertible<T2,T1>::value": "conv", "std::is_convertible_v<T2,T1>": "conv",
               "std::is_convertible<T2,T1>{}": "conv"}
        if prim == "equals":
            prims = {"equals": "eq"}
            params = [("eq", "Nat → Nat → Bool"), ("l", "Nat"), ("r", "Nat")]
        else:
            prims = {"distanceTo": "dist"}
            params = [("dist", "Int → Int → Int"), ("l", "Int"), ("r", "Int")]
        paths = _run(what, body, env, ty="Int", prims=prims)
        for pol, suf in ((True, "1"), (False, "2")):
            sel = [p for p in paths if all(not (c == "conv" and q != pol) for c, q in p.conds)]
            if len(sel) != 1 or any(c != "conv" for c, q in sel[0].conds):
                raise TranslateError("%s: branches on something other than is_convertible<T2,T1>" % what)
            if sel[0].effects or sel[0].threw:
                raise TranslateError("%s: effect outside the grammar" % what)
            v = _ret(sel, what)
            if re.search(r"\bconv\b", v):
                raise TranslateError("%s: the result depends on is_convertible in a way outside the grammar" % what)
            out.append(_defn(lean + suf, params, ty, v,
                             "lhs %s rhs, %s branch (`l`, `r` = the positions of lhs, rhs)" % (op, "convertible" if suf == "1" else "other")))


def translate(repo):
    out = ["-- GENERATED by tools/translators/tr_c11.py from dune/common/arraylist.hh, bitsetvector.hh, reservedvector.hh, iteratorfacades.hh -- do not edit",
           "set_option linter.unusedVariables false", "namespace DV.C11.Gen", ""]
    _arraylist(repo, out)
    _bitsetvector(repo, out)
    _reservedvector(repo, out)
    _facade(repo, out)
    out.append("")
    out.append("end DV.C11.Gen")
    return [("DuneVerif/Gen/C11.lean", "\n".join(out) + "\n")]


if __name__ == "__main__":
    import sys
    for p, c in translate(sys.argv[1] if len(sys.argv) > 1 else "/repo"):
        print(c)
