"""Translator for C16: the one-line operator bodies of the iterator facades, of the position based iterators
(GenericIterator, DenseIterator, ArrayList iterators), of Impl::IntegralRangeIterator, IntegralRange and
StaticIntegralRange are re-read from the sources on every run and emitted as data
(lean/DuneVerif/Gen/C16.lean: values of the little expression types `E` (integer) and `B` (boolean) of
lean/DuneVerif/Model/C16Expr.lean).  The model's operators *evaluate* these generated expressions, and the property
theorems are proved about them, so changing `<` into `<=`, dropping a minus sign, swapping the operands of a
difference ... in one of these bodies changes what the theorems have to prove.

Robustness against harmless rewrites: every piece has a canonical form.  A source expression that parses and agrees
with the canonical form on a grid of integer/boolean assignments is emitted in canonical form (the generated file does
not change, nothing is re-proved); one that parses and differs is emitted as written (the proofs then fail or not and
the correspondence run looks for the failing input); one that cannot be located or parsed is emitted in canonical
form and listed in `Gen.unparsed` (the tie for that piece then rests on the correspondence run alone).

Round five: before a body is compared it is NORMALISED (section "normalisation of function bodies" below): `this->` dropped,
`const` locals with a side-effect free initialiser inlined at their uses, guard clause / if-else / braces / `?:` read as one
value (compile-time conditions select the branch pieces), calls of sibling operators of the same class replaced by the
sibling's own translated body (with cycle detection).  The atoms of a piece are recognised by the expressions they stand
for, never by the names of locals.  What cannot be normalised soundly is left alone and the reader fails on it (loudly:
`Gen.unparsed`).

Each piece may have several occurrences (overloads for the mutable and the const iterator, the same primitive in
several iterator classes); the first occurrence that differs from the canonical form wins."""
import itertools
import os
import re


class TranslateError(Exception):
    pass


def strip_comments(src):
    src = re.sub(r"/\*.*?\*/", " ", src, flags=re.S)
    src = re.sub(r"//[^\n]*", "", src)
    return re.sub(r"\s+", " ", src)


# ------------------------------------------------------------------------------------------------
# tiny expression language: integers a b c, boolean atoms p q r, + - unary-, comparisons, ! && ||
# ------------------------------------------------------------------------------------------------
TOK = re.compile(r"\s*(?:(\d+)|([A-Za-z_]\w*)|(==|!=|<=|>=|&&|\|\||[-+<>!()~*?:]))")


def tokenize(s):
    toks, i = [], 0
    s = s.strip()
    while i < len(s):
        m = TOK.match(s, i)
        if not m:
            raise TranslateError("cannot tokenize %r" % s[i:i + 20])
        if m.group(1):
            toks.append(("num", int(m.group(1))))
        elif m.group(2):
            w = m.group(2)
            toks.append(("op", {"not": "!", "and": "&&", "or": "||"}[w]) if w in ("not", "and", "or") else ("id", w))
        else:
            toks.append(("op", m.group(3)))
        i = m.end()
    return toks


INTV = {"a", "b", "c"}
BOOLV = {"p", "q", "r"}


class P:
    def __init__(self, text):
        self.t = tokenize(text)
        self.i = 0
        self.text = text

    def peek(self):
        return self.t[self.i] if self.i < len(self.t) else ("end", None)

    def eat(self, kind=None, val=None):
        k, v = self.peek()
        if (kind and k != kind) or (val is not None and v != val):
            raise TranslateError("unexpected %r in %r" % (v, self.text))
        self.i += 1
        return v

    def parse(self):
        e = self.tern()
        if self.peek()[0] != "end":
            raise TranslateError("trailing tokens in %r" % self.text)
        return e

    def tern(self):
        """conditional expression c ? x : y (right associative)"""
        c = self.lor()
        if self.peek() == ("op", "?"):
            self.eat()
            x = self.tern()
            self.eat("op", ":")
            y = self.tern()
            return ("ite", c, x, y)
        return c

    def lor(self):
        e = self.land()
        while self.peek() == ("op", "||"):
            self.eat()
            e = ("or", e, self.land())
        return e

    def land(self):
        e = self.cmp()
        while self.peek() == ("op", "&&"):
            self.eat()
            e = ("and", e, self.cmp())
        return e

    def cmp(self):
        e = self.add()
        if self.peek() in [("op", o) for o in ("==", "!=", "<", "<=", ">", ">=")]:
            op = self.eat()
            e = ("cmp", op, e, self.add())
        return e

    def add(self):
        e = self.mul()
        while self.peek() in (("op", "+"), ("op", "-"), ("op", "~")):
            op = self.eat()
            e = ({"+": "add", "-": "sub", "~": "wsub"}[op], e, self.mul())
        return e

    def mul(self):
        e = self.unary()
        while self.peek() == ("op", "*"):
            self.eat()
            e = ("mul", e, self.unary())
        return e

    def unary(self):
        if self.peek() == ("op", "!"):
            self.eat()
            return ("not", self.unary())
        if self.peek() == ("op", "-"):
            self.eat()
            return ("neg", self.unary())
        if self.peek() == ("op", "+"):
            self.eat()
            return self.unary()
        return self.primary()

    def primary(self):
        k, v = self.peek()
        if k == "num":
            self.eat()
            return ("lit", v)
        if k == "op" and v == "(":
            self.eat()
            e = self.tern()
            self.eat("op", ")")
            return e
        if k == "id":
            self.eat()
            if v in INTV:
                return ("var", v)
            if v in BOOLV:
                return ("atom", v)
            if v == "true":
                return ("tt",)
            if v == "false":
                return ("ff",)
            if v == "wrap" and self.peek() == ("op", "("):   # a value cast to difference_type
                self.eat()
                e = self.tern()
                self.eat("op", ")")
                return ("wsub", e, ("lit", 0))
            raise TranslateError("unknown identifier %r in %r" % (v, self.text))
        raise TranslateError("unexpected token %r in %r" % (v, self.text))


def is_bool(e):
    if e[0] == "ite":
        return is_bool(e[2])
    return e[0] in ("cmp", "not", "and", "or", "atom", "tt", "ff")


def check_types(e):
    k = e[0]
    if k in ("var", "lit", "atom", "tt", "ff"):
        return
    if k in ("add", "sub", "wsub", "mul"):
        if is_bool(e[1]) or is_bool(e[2]):
            raise TranslateError("arithmetic on a boolean")
        check_types(e[1]); check_types(e[2])
    elif k == "neg":
        if is_bool(e[1]):
            raise TranslateError("arithmetic on a boolean")
        check_types(e[1])
    elif k == "cmp":
        if is_bool(e[2]) or is_bool(e[3]):
            raise TranslateError("comparison of booleans")
        check_types(e[2]); check_types(e[3])
    elif k == "not":
        if not is_bool(e[1]):
            raise TranslateError("! on an integer")
        check_types(e[1])
    elif k in ("and", "or"):
        if not (is_bool(e[1]) and is_bool(e[2])):
            raise TranslateError("&&/|| on an integer")
        check_types(e[1]); check_types(e[2])
    elif k == "ite":
        if not is_bool(e[1]):
            raise TranslateError("condition of ?: is an integer")
        if is_bool(e[2]) != is_bool(e[3]):
            raise TranslateError("branches of ?: of different sorts")
        check_types(e[1]); check_types(e[2]); check_types(e[3])


def ev(e, env):
    k = e[0]
    if k == "var" or k == "atom":
        return env[e[1]]
    if k == "lit":
        return e[1]
    if k == "tt":
        return True
    if k == "ff":
        return False
    if k == "add":
        return ev(e[1], env) + ev(e[2], env)
    if k == "sub":
        return ev(e[1], env) - ev(e[2], env)
    if k == "neg":
        return -ev(e[1], env)
    if k == "mul":
        return ev(e[1], env) * ev(e[2], env)
    if k == "wsub":   # machine difference: modulo 2^bits, read as signed (bits = 0: exact)
        d, bits = ev(e[1], env) - ev(e[2], env), env.get("bits", 0)
        if not bits:
            return d
        d %= 1 << bits
        return d - (1 << bits) if d >= 1 << (bits - 1) else d
    if k == "not":
        return not ev(e[1], env)
    if k == "and":
        return ev(e[1], env) and ev(e[2], env)
    if k == "or":
        return ev(e[1], env) or ev(e[2], env)
    if k == "ite":
        return ev(e[2], env) if ev(e[1], env) else ev(e[3], env)
    if k == "cmp":
        x, y = ev(e[2], env), ev(e[3], env)
        return {"==": x == y, "!=": x != y, "<": x < y, "<=": x <= y, ">": x > y, ">=": x >= y}[e[1]]
    raise TranslateError("bad node %r" % (e,))


GRID_I = (-3, -2, -1, 0, 1, 2, 4)


GRID_W = (-128, -100, -2, -1, 0, 1, 3, 100, 127, 200, 255)   # values of 8 bit types, far apart and close


def has_wsub(e):
    return e[0] == "wsub" or any(isinstance(x, tuple) and has_wsub(x) for x in e[1:])


def literals(e):
    if e[0] == "lit":
        return {e[1]}
    res = set()
    for x in e[1:]:
        if isinstance(x, tuple):
            res |= literals(x)
    return res


def equivalent(e1, e2):
    # the grid follows the literals of both expressions (a threshold `a < 100 ? .. : ..` must not hide between grid points)
    extra = sorted(v for l in literals(e1) | literals(e2) for v in (l - 1, l, l + 1, -l) if v not in GRID_I)[:10]
    for a, b, c in itertools.product(GRID_I + tuple(extra), repeat=3):
        for p, q, r in itertools.product((False, True), repeat=3):
            env = dict(a=a, b=b, c=c, p=p, q=q, r=r)
            if ev(e1, env) != ev(e2, env):
                return False
    if has_wsub(e1) or has_wsub(e2):
        # a machine difference is involved: compare as an 8 bit type computes, operands up to the whole type apart
        for a, b, c in itertools.product(GRID_W, repeat=3):
            for p in (False, True):
                env = dict(a=a, b=b, c=c, p=p, q=not p, r=p, bits=8)
                if ev(e1, env) != ev(e2, env):
                    return False
    return True


CMPL = {"==": ".eq", "!=": ".ne", "<": ".lt", "<=": ".le", ">": ".gt", ">=": ".ge"}


def lean(e):
    k = e[0]
    if k == "var":
        return "(.var .%s)" % e[1]
    if k == "atom":
        return "(.atom .%s)" % {"p": "a", "q": "b", "r": "c"}[e[1]]
    if k == "lit":
        return "(.lit %d)" % e[1]
    if k == "tt":
        return ".tt"
    if k == "ff":
        return ".ff"
    if k in ("add", "sub", "wsub", "mul", "and", "or"):
        return "(.%s %s %s)" % (k, lean(e[1]), lean(e[2]))
    if k in ("neg", "not"):
        return "(.%s %s)" % (k, lean(e[1]))
    if k == "cmp":
        return "(.cmp %s %s %s)" % (CMPL[e[1]], lean(e[2]), lean(e[3]))
    if k == "ite":
        if not is_bool(e):
            raise TranslateError("an integer valued ?: that differs from the canonical form cannot be emitted (type E has no conditional)")
        return "(.or (.and %s %s) (.and (.not %s) %s))" % (lean(e[1]), lean(e[2]), lean(e[1]), lean(e[3]))
    raise TranslateError("bad node %r" % (e,))


# ------------------------------------------------------------------------------------------------
# source access
# ------------------------------------------------------------------------------------------------
CAST = re.compile(r"static_cast\s*<\s*(?:[^<>]|<[^<>]*>)*>\s*\(")


def drop_casts(s):
    """static_cast<T>(x) -> (x); functional casts D(x), D1(0), difference_type(x), T(x) -> (x)"""
    prev = None
    while prev != s:
        prev = s
        s = CAST.sub("(", s)
    s = re.sub(r"\b(?:D1|D2|D|DifferenceType|difference_type|size_type|value_type|SizeType)\s*\(", "(", s)
    return s


def body_after(src, pos):
    """text between the braces that open at/after pos (balanced)"""
    i = src.index("{", pos)
    depth, j = 0, i
    while j < len(src):
        if src[j] == "{":
            depth += 1
        elif src[j] == "}":
            depth -= 1
            if depth == 0:
                return src[i + 1:j]
        j += 1
    raise TranslateError("unbalanced braces")


def class_text(src, header_rx):
    m = re.search(header_rx, src)
    if not m:
        raise TranslateError("class not found: %s" % header_rx)
    return body_after(src, m.end() - 1)


def subst(text, table):
    """replace source atoms by variable names; table = [(regex, name)], applied in order"""
    for rx, name in table:
        text = re.sub(rx, " %s " % name, text)
    return text


# ------------------------------------------------------------------------------------------------
# normalisation of function bodies (round five): the readers below see every body
#   * without `this->` / `(*this).`,
#   * with the `const` locals that are initialised once from a side-effect free expression inlined at their uses
#     (so atoms are recognised by the expressions they stand for, never by the names of locals),
#   * as ONE value: guard clauses, if/else chains (with or without braces) and conditional expressions are all read
#     into the same tree ("ite", condition, value, value); compile-time conditions select the branch pieces, run-time
#     conditions become `c ? x : y` of the expression language.
# Anything else (loops, a statement with an effect on the way to a return, a local that is modified, a call of an unknown
# function in an initialiser) is NOT normalised and the reader fails loudly on it.
# ------------------------------------------------------------------------------------------------
CPP_KEYWORDS = {"return", "else", "using", "typedef", "throw", "delete", "new", "goto", "case", "if", "for", "while", "do", "switch",
                "const", "constexpr", "static", "typename", "auto", "this", "not", "and", "or", "true", "false", "static_cast", "operator"}
# calls that may occur in the initialiser of an inlined local: const primitives of the iterators / ranges and value casts
PURE_CALLS = {"distanceTo", "equals", "dereference", "elementAt", "baseIterator", "derived", "size", "empty", "begin", "end", "contains",
              "D", "D1", "D2", "DifferenceType", "difference_type", "size_type", "value_type", "SizeType", "unsigned_type",
              "IntegralRangeIterator", "iterator", "is_convertible", "is_convertible_v", "models"}
MUTATION = re.compile(r"\+\+|--|(?<![=!<>+\-*/%&|^])=(?!=)|[+\-*/%&|^]=|<<=|>>=")
DECL = re.compile(r"^\s*(?P<q1>(?:static\s+)?(?:constexpr\s+)?(?:const\s+)?)(?:typename\s+)?"
                  r"(?P<type>(?:[A-Za-z_]\w*\s*::\s*)*[A-Za-z_]\w*(?:\s*<(?:[^<>]|<[^<>]*>)*>)?(?:\s*::\s*\w+)*)\s*"
                  r"(?P<q2>(?:const\b\s*)?)(?P<ref>&?)\s*(?P<name>[A-Za-z_]\w*)\s*"
                  r"(?:=(?!=)\s*(?P<i1>.+)|\(\s*(?P<i2>.+)\)|\{\s*(?P<i3>.+)\})\s*$", re.S)


def match_close(s, i, o, c):
    depth = 0
    for j in range(i, len(s)):
        if s[j] == o:
            depth += 1
        elif s[j] == c:
            depth -= 1
            if depth == 0:
                return j
    raise TranslateError("unbalanced %s%s in %r" % (o, c, s[i:i + 40]))


def top_index(s, ch, start=0):
    """index of the first `ch` outside (), [], {} at or after start; -1 if none"""
    depth = 0
    for j in range(start, len(s)):
        x = s[j]
        if x in "([{":
            depth += 1
        elif x in ")]}":
            depth -= 1
        elif x == ch and depth == 0:
            return j
    return -1


DECL_HEAD = re.compile(r"^\s*(?:static\s+)?(?:constexpr\s+)?(?:const\s+)?(?:typename\s+)?"
                       r"(?P<type>(?:[A-Za-z_]\w*\s*::\s*)*[A-Za-z_]\w*(?:\s*<(?:[^<>]|<[^<>]*>)*>)?(?:\s*::\s*\w+)*)\s*"
                       r"(?:const\b\s*)?[&*]?\s*[A-Za-z_]\w*\s*$")


def has_mutation(text):
    """++, --, assignments; the `=` of a declaration with initialiser does not count"""
    for m in MUTATION.finditer(text):
        if m.group(0) == "=":
            start = max(text.rfind(c, 0, m.start()) for c in ";{}") + 1
            h = DECL_HEAD.match(text[start:m.start()])
            if h and h.group("type").split("::")[-1].strip() not in CPP_KEYWORDS - {"auto"}:
                continue
        return True
    return False


def is_primary(e):
    """e is an identifier / member access / one call or cast: can be substituted without parentheses"""
    e = e.strip()
    if re.fullmatch(r"[\w\s.:]+(?:->[\w\s.:]+)*", e):
        return True
    if e.endswith(")"):
        depth = 0
        for j in range(len(e) - 1, -1, -1):
            if e[j] == ")":
                depth += 1
            elif e[j] == "(":
                depth -= 1
                if depth == 0:
                    return re.fullmatch(r"[\w\s:.]+(?:<(?:[^<>()]|<[^<>]*>)*>)?\s*", e[:j]) is not None
    return False


def strip_this(body):
    body = re.sub(r"\bthis\s*->\s*(?!operator\b)", "", body)
    return re.sub(r"\(\s*\*\s*this\s*\)\s*\.\s*(?!operator\b)", "", body)


def pure_expr(e):
    if MUTATION.search(e) or re.search(r"\b(?:new|delete|throw)\b", e):
        return False
    t = e
    prev = None
    while prev != t:
        prev = t
        t = CAST.sub("(", t)
    for m in re.finditer(r"([A-Za-z_]\w*)\s*(?:<(?:[^<>()]|<[^<>]*>)*>)?\s*\(", t):
        if m.group(1) not in PURE_CALLS:
            return False
    return True


DECL_PREFIX = re.compile(r"^\s*((?:static\s+)?(?:constexpr\s+)?(?:const\s+)?(?:typename\s+)?"
                         r"(?:[A-Za-z_]\w*\s*::\s*)*[A-Za-z_]\w*(?:\s*<(?:[^<>]|<[^<>]*>)*>)?(?:\s*::\s*\w+)*\s*(?:const\b\s*)?)"
                         r"([&*]?\s*[A-Za-z_]\w*\s*(?:=(?!=)|\(|\{).*)$", re.S)


def split_declarators(stmt):
    m = DECL_PREFIX.match(stmt)
    if not m or m.group(1).split()[-1:] == ["return"] or top_index(m.group(2), ",") < 0:
        return None
    parts, t = [], m.group(2)
    while True:
        k = top_index(t, ",")
        parts.append(t if k < 0 else t[:k])
        if k < 0:
            break
        t = t[k + 1:]
    if not all(re.match(r"\s*[&*]?\s*[A-Za-z_]\w*\s*(?:=(?!=)|\(|\{)", x) for x in parts):
        return None
    return [m.group(1) + " " + x.strip() for x in parts]


def inline_locals(body):
    """inline `const T x = e;`, `const T& x = e;`, `const auto x(e);` ... at the uses of x (see the section comment)"""
    out, rest = "", body
    while True:
        i = top_index(rest, ";")
        if i < 0:
            return out + rest
        stmt, tail = rest[:i], rest[i + 1:]
        several = split_declarators(stmt)
        if several:   # `const T x = e1, y = e2;` is `const T x = e1; const T y = e2;`
            rest = ";".join(several) + ";" + tail
            continue
        m = DECL.match(stmt)
        ok = False
        if m and (m.group("q1").find("const") >= 0 or m.group("q2")) and m.group("type").split("::")[-1].strip() not in CPP_KEYWORDS - {"auto"}:
            name, init = m.group("name"), (m.group("i1") or m.group("i2") or m.group("i3")).strip()
            if name not in CPP_KEYWORDS and pure_expr(init):
                ids = set(re.findall(r"[A-Za-z_]\w*", init)) - CPP_KEYWORDS
                calls = re.search(r"[A-Za-z_]\w*\s*\(", CAST.sub("(", init)) or "this" in re.findall(r"\w+", init)
                if calls:
                    touched = has_mutation(tail)
                else:
                    touched = any(re.search(r"(?:\+\+|--)\s*(?:\w+\s*(?:\.|->)\s*)?%s\b|\b%s\s*(?:\+\+|--|[+\-*/%%&|^]?=(?!=)|<<=|>>=)" % (x, x), tail)
                                  for x in ids)
                if not touched:
                    ty = m.group("type").strip()
                    by_value_of_named_type = not m.group("ref") and ty != "auto"
                    repl = ("static_cast<%s>(%s)" % (ty, init)) if by_value_of_named_type else init if is_primary(init) else "(%s)" % init
                    rest = re.sub(r"(?<![\w.])(?<!->)%s\b" % re.escape(name), lambda _m: repl, tail)
                    ok = True
        if not ok:
            out += stmt + ";"
            rest = tail
            # compound statements are left as they are: stop looking for declarations behind the first of them
            if re.match(r"\s*(?:if|for|while|do|switch|return)\b", stmt) or "{" in stmt:
                return out + rest


def fbody(src, pos):
    """normalised body of the function whose opening brace is at/after pos"""
    return inline_locals(strip_this(body_after(src, pos)))


def parse_stmt(s):
    s = s.lstrip()
    if s.startswith("{"):
        j = match_close(s, 0, "{", "}")
        return ("block", parse_stmts(inline_locals(s[1:j]))), s[j + 1:]   # locals of an inner block: same rule, scope = the block
    m = re.match(r"if\b\s*(?:constexpr\b)?\s*\(", s)
    if m:
        j = match_close(s, m.end() - 1, "(", ")")
        cond = s[m.end():j].strip()
        then, rest = parse_stmt(s[j + 1:])
        m2 = re.match(r"\s*else\b", rest)
        if m2:
            els, rest = parse_stmt(rest[m2.end():])
            return ("if", cond, then, els), rest
        return ("if", cond, then, None), rest
    i = top_index(s, ";")
    if i < 0:
        raise TranslateError("statement without ';': %r" % s[:40])
    text, rest = s[:i].strip(), s[i + 1:]
    if text == "" or re.match(r"(?:assert|static_assert|DUNE_ASSERT_BOUNDS)\s*\(", text) or re.match(r"(?:using|typedef)\b", text):
        return None, rest
    m = re.match(r"return\b(.*)$", text, re.S)
    if m:
        return ("ret", m.group(1).strip()), rest
    return ("other", text), rest


def parse_stmts(s):
    out = []
    while s.strip():
        st, s = parse_stmt(s)
        if st is not None:
            out.append(st)
    return out


def strip_parens(e):
    e = e.strip()
    while e.startswith("(") and match_close(e, 0, "(", ")") == len(e) - 1:
        e = e[1:-1].strip()
    return e


def split_ternary(e):
    """top-level `c ? x : y` of a C++ expression -> ("ite", c, x, y) (recursively), anything else -> the string"""
    t = strip_parens(e)
    q = top_index(t, "?")
    if q < 0:
        return e.strip()
    depth, nest, j = 0, 0, q + 1
    while j < len(t):
        x = t[j]
        if x in "([{":
            depth += 1
        elif x in ")]}":
            depth -= 1
        elif depth == 0 and x == "?":
            nest += 1
        elif depth == 0 and x == ":":
            if t[j:j + 2] == "::":
                j += 2
                continue
            if j > 0 and t[j - 1] == ":":
                j += 1
                continue
            if nest == 0:
                return ("ite", t[:q].strip(), split_ternary(t[q + 1:j]), split_ternary(t[j + 1:]))
            nest -= 1
        j += 1
    raise TranslateError("conditional expression not understood: %r" % e[:60])


def seq_value(seq):
    if not seq:
        raise TranslateError("control reaches the end of the body without a return")
    st = seq[0]
    if st[0] == "ret":
        return split_ternary(st[1])
    if st[0] == "block":
        return seq_value(st[1] + seq[1:])
    if st[0] == "if":
        return ("ite", st[1], seq_value([st[2]] + seq[1:]), seq_value(([st[3]] if st[3] else []) + seq[1:]))
    raise TranslateError("statement with an effect before the return: %r" % st[1][:60])


def body_value(body):
    """the value a (normalised) body returns: a C++ expression string or ("ite", cond, value, value)"""
    return seq_value(parse_stmts(body))


def to_expr(v):
    if isinstance(v, str):
        return v
    return "((%s) ? (%s) : (%s))" % (v[1], to_expr(v[2]), to_expr(v[3]))


def static_branches(v, cond_rx):
    """v = body value; if its top is a conditional on the compile-time condition cond_rx (possibly negated) return
    (value if true, value if false) as expression strings, else None"""
    if isinstance(v, str):
        return None
    c = strip_parens(v[1])
    neg = False
    m = re.match(r"(?:!|not\b)\s*(.*)$", c, re.S)
    if m:
        neg, c = True, strip_parens(m.group(1))
    if not re.match(cond_rx + r"\s*$", c):
        return None
    x, y = to_expr(v[2]), to_expr(v[3])
    return (y, x) if neg else (x, y)


class Gen:
    def __init__(self):
        self.defs = []       # (name, type, lean text, doc, status)
        self.unparsed = []

    def piece(self, name, doc, canon, occurrences, expect):
        """occurrences: list of already-substituted expression strings (or exceptions)"""
        cexpr = P(canon).parse()
        check_types(cexpr)
        chosen, status = cexpr, "canonical"
        good = 0
        for occ in occurrences:
            try:
                if isinstance(occ, Exception):
                    raise occ
                e = P(occ).parse()
                check_types(e)
                if is_bool(e) != is_bool(cexpr):
                    raise TranslateError("expression of the wrong sort: %r" % occ)
                good += 1
                if not equivalent(e, cexpr) and status == "canonical":
                    chosen, status = e, "as written in the source (differs from the canonical form)"
            except TranslateError as ex:
                self.unparsed.append("%s: %s" % (name, str(ex)[:160]))
        if good < expect and len(occurrences) < expect:
            self.unparsed.append("%s: expected %d occurrences, found %d" % (name, expect, len(occurrences)))
        try:
            body = lean(chosen)
        except TranslateError as ex:
            self.unparsed.append("%s: %s" % (name, str(ex)[:160]))
            body, status = lean(cexpr), "canonical"
        self.defs.append((name, "B" if is_bool(cexpr) else "E", body, doc, status))

    def text(self):
        out = ["-- GENERATED by tools/translators/tr_c16.py from dune/common/{iteratorfacades,genericiterator,densevector,"
               "arraylist,rangeutilities}.hh -- do not edit",
               "import DuneVerif.Model.C16Expr",
               "namespace DV.C16.Gen",
               "open DV.C16 (E B)",
               ""]
        for name, ty, body, doc, status in self.defs:
            out.append("/-- %s  [%s] -/" % (doc, status))
            out.append("def %s : %s := %s" % (name, ty, body))
        out.append("")
        out.append("/-- pieces the translator could not locate or parse (emitted in canonical form above) -/")
        out.append("def unparsed : List String := [%s]" % ", ".join('"%s"' % u.replace("\\", "/").replace('"', "'")
                                                                      for u in self.unparsed))
        out.append("")
        out.append("end DV.C16.Gen")
        return "\n".join(out) + "\n"


def returns(body):
    """all `return <expr>;` expressions of a body"""
    return [m.group(1).strip() for m in re.finditer(r"\breturn\b([^;]*);", body)]


def safe(f):
    try:
        return f()
    except (TranslateError, ValueError, IndexError, AttributeError) as ex:
        return [TranslateError(str(ex)[:120])]


# ------------------------------------------------------------------------------------------------
# the pieces
# ------------------------------------------------------------------------------------------------
_DC1 = r"static_cast\s*<\s*(?:const\s+T1|T1\s+const)\s*&\s*>\s*\(\s*lhs\s*\)"
_DC2 = r"static_cast\s*<\s*(?:const\s+T2|T2\s+const)\s*&\s*>\s*\(\s*rhs\s*\)"
LEG_SUBST = [
    (_DC1, "lhs"),
    (_DC2, "rhs"),
    (r"lhs\s*\.\s*distanceTo\s*\(\s*rhs\s*\)", "a"),
    (r"rhs\s*\.\s*distanceTo\s*\(\s*lhs\s*\)", "b"),
    (r"lhs\s*\.\s*equals\s*\(\s*rhs\s*\)", "p"),
    (r"rhs\s*\.\s*equals\s*\(\s*lhs\s*\)", "q"),
    (r"\(\s*lhs\s*==\s*rhs\s*\)", "r"),
    (r"\boperator\s*==\s*\(\s*lhs\s*,\s*rhs\s*\)", "r"),
]
CONV_RX = r"std\s*::\s*is_convertible(?:_v)?\s*<\s*T2\s*,\s*T1\s*>\s*(?:::\s*value|\{\s*\}|\(\s*\))?"
OPNAME = {"==": "eq", "!=": "ne", "<": "lt", "<=": "le", ">": "gt", ">=": "ge", "-": "diff"}


def legacy_free_ops(src, facade):
    """{(op, branch): [expr]} for the free operators of one legacy facade; branch in conv/else"""
    res = {}
    rx = re.compile(r"operator\s*(==|!=|<=|>=|<|>|-)\s*\(\s*const\s+%sIteratorFacade\s*<\s*T1\s*,\s*V1\s*,\s*R1\s*,\s*D\s*>\s*&\s*lhs\s*,"
                    r"\s*const\s+%sIteratorFacade\s*<\s*T2\s*,\s*V2\s*,\s*R2\s*,\s*D\s*>\s*&\s*rhs\s*\)" % (facade, facade))
    for m in rx.finditer(src):
        op = OPNAME[m.group(1)]
        head = src[max(0, src.rfind("template", 0, m.start())):m.start()]
        try:
            v = body_value(subst(fbody(src, m.end()), LEG_SUBST))
        except TranslateError as ex:
            res.setdefault((op, "conv"), []).append(TranslateError("body of %s operator%s not understood: %s" % (facade, m.group(1), ex)))
            continue
        br = static_branches(v, CONV_RX)
        if br:
            res.setdefault((op, "conv"), []).append(drop_casts(br[0]))
            res.setdefault((op, "else"), []).append(drop_casts(br[1]))
            continue
        r = [drop_casts(to_expr(v))]
        # single-branch overloads: which branch is decided by the enable_if in the head
        h = re.sub(r"\s+", "", head)
        if "is_convertible<T1,T2>::value&&!std::is_convertible<T2,T1>::value" in h:
            res.setdefault((op, "else"), []).append(r[0])
        elif "std::enable_if<std::is_convertible<T2,T1>::value" in h:
            res.setdefault((op, "conv"), []).append(r[0])
        else:
            res.setdefault((op, "both"), []).append(r[0])
    return res


def member_arg(cls, rx_header, call_rx):
    """argument expression of the primitive called in a member operator, `n` -> a"""
    m = re.search(rx_header, cls)
    if not m:
        raise TranslateError("member not found: %s" % rx_header)
    body = fbody(cls, m.end() - 1)
    c = re.search(call_rx, body)
    if not c:
        raise TranslateError("call not found in: %s" % body[:80])
    return [re.sub(r"\bn\b", "a", drop_casts(c.group(1)))]


def translate(repo):
    G = Gen()
    rd = lambda f: strip_comments(open(os.path.join(repo, "dune/common", f)).read())

    # ---- legacy facades -----------------------------------------------------------------------
    fac = rd("iteratorfacades.hh")
    canon_leg = {
        ("eq", "conv"): "p", ("eq", "else"): "q", ("ne", "conv"): "!p", ("ne", "else"): "!q",
        ("lt", "conv"): "a > 0", ("lt", "else"): "b < 0", ("le", "conv"): "a >= 0", ("le", "else"): "b <= 0",
        ("gt", "conv"): "a < 0", ("gt", "else"): "b > 0", ("ge", "conv"): "a <= 0", ("ge", "else"): "b >= 0",
        ("diff", "conv"): "-a", ("diff", "else"): "b",
    }
    docv = ("a = lhs.distanceTo(rhs), b = rhs.distanceTo(lhs), atoms a = lhs.equals(rhs), b = rhs.equals(lhs), c = (lhs == rhs)")
    for facade, pre, ops in (("RandomAccess", "ra", ("eq", "ne", "lt", "le", "gt", "ge", "diff")),
                             ("Forward", "fw", ("eq", "ne")), ("Bidirectional", "bi", ("eq",))):
        found = safe(lambda: legacy_free_ops(fac, facade))
        if isinstance(found, list):
            found = {}
        for op in ops:
            for br in ("conv", "else"):
                occ = found.get((op, br), [])
                eqs = found.get(("eq", br), [])
                if op != "eq" and pre != "bi" and len(eqs) == 1 and isinstance(eqs[0], str) and not re.search(r"\br\b", eqs[0]):
                    # `lhs == rhs` inside another operator of the same facade IS operator== of the same branch
                    occ = [re.sub(r"\br\b", lambda _m: "(%s)" % eqs[0], o) if isinstance(o, str) else o for o in occ]
                G.piece("%s_%s_%s" % (pre, op, br),
                        "%sIteratorFacade operator %s, %s branch; %s" % (facade, op, "is_convertible<T2,T1>" if br == "conv" else "else", docv),
                        canon_leg[(op, br)], occ, 1)
    found = safe(lambda: legacy_free_ops(fac, "Bidirectional"))
    found = {} if isinstance(found, list) else found
    G.piece("bi_ne", "BidirectionalIteratorFacade operator!=; " + docv, "!r",
            found.get(("ne", "both"), []) + found.get(("ne", "conv"), []), 1)

    ra = safe(lambda: [class_text(fac, r"class\s+RandomAccessIteratorFacade\s*\{")])
    ra_cls = ra[0] if isinstance(ra[0], str) else ""
    # the four stepping members hand ONE argument to advance(): either directly (`advance(x)` on the object or on the
    # copy, whatever the copy is called) or through the sibling compound assignment (`tmp += x`, `*this += x`,
    # `operator-=(x)`), whose own argument expression is then composed with x
    ra_hdr = {"addAssign": r"operator\s*\+=\s*\(\s*DifferenceType\s+n\s*\)\s*\{", "subAssign": r"operator\s*-=\s*\(\s*DifferenceType\s+n\s*\)\s*\{",
              "plus": r"operator\s*\+\s*\(\s*DifferenceType\s+n\s*\)\s*const\s*\{", "minus": r"operator\s*-\s*\(\s*DifferenceType\s+n\s*\)\s*const\s*\{"}

    def ra_member_text(kind, stack=()):
        if kind in stack:
            raise TranslateError("RandomAccessIteratorFacade %s is defined through itself" % kind)
        m = re.search(ra_hdr[kind], ra_cls)
        if not m:
            raise TranslateError("member not found: %s" % ra_hdr[kind])
        body = fbody(ra_cls, m.end() - 1)
        arg = lambda t: re.sub(r"\bn\b", "a", drop_casts(t))
        compose = lambda op, t: re.sub(r"\ba\b", lambda _m: "(%s)" % arg(t), ra_member_text("addAssign" if op == "+=" else "subAssign", stack + (kind,)))
        cands = [arg(c.group(1)) for c in re.finditer(r"\badvance\s*\(([^;]*)\)\s*;", body)]
        cands += [compose(c.group(1), c.group(2)) for c in re.finditer(r"(?:\*\s*this|\(\s*\*\s*this\s*\)|\b[A-Za-z_]\w*)\s*(\+=|-=)\s*([^;]*);", body)]
        cands += [compose(c.group(1), c.group(2)) for c in re.finditer(r"\boperator\s*(\+=|-=)\s*\(([^;]*)\)\s*;", body)]
        if len(cands) != 1:
            raise TranslateError("%d stepping calls in: %s" % (len(cands), body[:80]))
        return cands[0]
    for name, kind, canon, doc in (("ra_addAssign_arg", "addAssign", "a", "it += n calls advance(.)"), ("ra_subAssign_arg", "subAssign", "-a", "it -= n calls advance(.)"),
                                   ("ra_plus_arg", "plus", "a", "it + n calls tmp.advance(.)"), ("ra_minus_arg", "minus", "-a", "it - n calls tmp.advance(.)")):
        G.piece(name, "RandomAccessIteratorFacade: %s; a = n" % doc, canon, safe(lambda: [ra_member_text(kind)]), 1)
    G.piece("ra_index_arg", "RandomAccessIteratorFacade: it[n] calls elementAt(.); a = n", "a",
            safe(lambda: member_arg(ra_cls, r"operator\s*\[\s*\]\s*\(\s*DifferenceType\s+n\s*\)\s*const\s*\{", r"elementAt\s*\(([^;]*)\)\s*;")), 1)

    # ---- the new IteratorFacade ---------------------------------------------------------------
    nf_subst = [(r"\(\s*derivedIt1\s*-\s*derivedIt2\s*\)", "a"), (r"\(\s*derivedIt2\s*-\s*derivedIt1\s*\)", "b"),
                (r"derivedIt1\s*-\s*derivedIt2", "a"), (r"derivedIt2\s*-\s*derivedIt1", "b"),
                (r"\(\s*derivedIt1\s*==\s*derivedIt2\s*\)", "p"), (r"derivedIt1\s*==\s*derivedIt2", "p")]
    # relational operators (fix C16_facade_order_by_base): `if constexpr (models<BaseIterLessOp,T1,T2>()) return <base
    # iterators compared>; else return <sign of it1 - it2>;` -- two pieces per operator
    bacc = r"(?:Dune\s*::\s*)?IteratorFacadeAccess\s*::\s*baseIterator\s*\(\s*derivedIt%d\s*\)"
    nf_base_subst = [(r"\(\s*%s\s*<\s*%s\s*\)" % (bacc % 1, bacc % 2), "p"), (r"\(\s*%s\s*<\s*%s\s*\)" % (bacc % 2, bacc % 1), "q"),
                     (r"%s\s*<\s*%s" % (bacc % 1, bacc % 2), "p"), (r"%s\s*<\s*%s" % (bacc % 2, bacc % 1), "q"),
                     (r"%s\s*>\s*%s" % (bacc % 1, bacc % 2), "q"), (r"%s\s*>\s*%s" % (bacc % 2, bacc % 1), "p")]
    MODELS_RX = r"(?:Dune\s*::\s*)?models\s*<\s*(?:(?:Dune\s*::\s*)?Impl\s*::\s*)?Concepts\s*::\s*BaseIterLessOp\s*,\s*T1\s*,\s*T2\s*>\s*\(\s*\)"
    # the operands are recognised by what they are (IteratorFacadeAccess::derived(itK)), whatever the local is called
    _der = r"(?:Dune\s*::\s*)?IteratorFacadeAccess\s*::\s*derived\s*\(\s*it%d\s*\)"
    nf_atoms = [(_der % 1, "derivedIt1"), (_der % 2, "derivedIt2")]

    def nf_value(pos):
        return body_value(subst(fbody(fac, pos), nf_atoms))

    def nf_rel(sym, which):
        def occ():
            res = []
            rx = re.compile(r"operator\s*%s\s*\(\s*const\s+IteratorFacade\s*<\s*T1\s*,[^()]*>\s*&\s*it1\s*,\s*const\s+IteratorFacade\s*<\s*T2\s*,[^()]*>\s*&\s*it2\s*\)" % re.escape(sym))
            for m in rx.finditer(fac):
                try:
                    v = nf_value(m.end())
                except TranslateError as ex:
                    res.append(TranslateError("body of IteratorFacade operator%s not understood: %s" % (sym, ex)))
                    continue
                br = static_branches(v, MODELS_RX)
                if br:
                    res.append(subst(br[0], nf_base_subst) if which == "base" else subst(drop_casts(br[1]), nf_subst))
                elif which == "dist":
                    res.append(subst(drop_casts(to_expr(v)), nf_subst))
                else:
                    res.append(TranslateError("IteratorFacade operator%s does not compare the base iterators" % sym))
            return res
        return safe(occ)
    for op, sym, canon, cbase in (("lt", "<", "a < 0", "p"), ("le", "<=", "a <= 0", "!q"), ("gt", ">", "a > 0", "q"), ("ge", ">=", "a >= 0", "!p")):
        G.piece("nf_" + op, "IteratorFacade operator %s, derived classes without comparable base iterators; a = it1 - it2, b = it2 - it1" % sym,
                canon, nf_rel(sym, "dist"), 1)
        G.piece("nf_%s_base" % op, "IteratorFacade operator %s, derived classes with base iterators; atom a = (base1 < base2), atom b = (base2 < base1)" % sym,
                cbase, nf_rel(sym, "base"), 1)

    def nf_ne():
        res = []
        rx = re.compile(r"operator\s*!=\s*\(\s*const\s+IteratorFacade\s*<\s*T1\s*,[^()]*>\s*&\s*it1\s*,\s*const\s+IteratorFacade\s*<\s*T2\s*,[^()]*>\s*&\s*it2\s*\)")
        for m in rx.finditer(fac):
            try:
                res.append(subst(drop_casts(to_expr(nf_value(m.end()))), nf_subst))
            except TranslateError as ex:
                res.append(TranslateError("body of IteratorFacade operator!= not understood: %s" % ex))
        return res
    G.piece("nf_ne", "IteratorFacade operator !=; atom a = (it1 == it2)", "!p", safe(nf_ne), 1)
    nfc = safe(lambda: [class_text(fac, r"class\s+IteratorFacade\s*\{")])
    nf_cls = nfc[0] if isinstance(nfc[0], str) else ""
    G.piece("nf_subAssign_arg", "IteratorFacade: it -= n does derived() += (.); a = n", "-a",
            safe(lambda: member_arg(nf_cls, r"operator\s*-=\s*\(\s*difference_type\s+n\s*\)\s*\{", r"derived\s*\(\s*\)\s*\+=\s*([^;]*);")), 1)
    G.piece("nf_inc_adv", "IteratorFacade: ++it without base increment does derived() += (.)", "1",
            safe(lambda: member_arg(nf_cls, r"operator\s*\+\+\s*\(\s*\)\s*\{", r"derived\s*\(\s*\)\s*\+=\s*([^;]*);")), 1)
    G.piece("nf_dec_adv", "IteratorFacade: --it without base decrement does derived() -= (.)", "1",
            safe(lambda: member_arg(nf_cls, r"operator\s*--\s*\(\s*\)\s*\{", r"derived\s*\(\s*\)\s*-=\s*([^;]*);")), 1)

    # ---- position based iterators -------------------------------------------------------------
    pos_subst = [(r"other\s*\.\s*position_", "b"), (r"\bposition_", "a"),
                 (r"\(?\s*container_\s*==\s*other\s*\.\s*container_\s*\)?", "p"),
                 (r"\(?\s*other\s*\.\s*container_\s*==\s*container_\s*\)?", "p")]

    def pos_pieces(prefix, what, cls_list, with_container, n_eq, n_dist):
        def each(fn):
            res = []
            for cls in cls_list:
                r = safe(lambda: fn(cls))
                res.extend(r)
            return res

        def fn_returns(cls, rx):
            res = []
            for m in re.finditer(rx, cls):
                try:
                    res.append(subst(drop_casts(to_expr(body_value(fbody(cls, m.end() - 1)))), pos_subst))
                except TranslateError as ex:
                    res.append(TranslateError("%s: %s" % (rx[:14], ex)))
            return res

        def fn_stmt(cls, rx, stmt_rx, rename):
            res = []
            for m in re.finditer(rx, cls):
                body = fbody(cls, m.end() - 1)
                s = re.search(stmt_rx, body)
                if not s:
                    res.append(TranslateError("statement not found in %s" % body[:60]))
                    continue
                if len(re.findall(r"(?<![\w.])(?<!->)position_\s*(?:\+\+|--|[+\-*/%&|^]?=(?!=))|(?:\+\+|--)\s*position_", body)) != 1:
                    res.append(TranslateError("position_ is updated more than once in %s" % body[:60]))
                    continue
                res.append(rename(s))
            return res

        G.piece(prefix + "_equals", "%s::equals; a = position_, b = other.position_, atom a = (container_ == other.container_)" % what,
                "a == b && p" if with_container else "a == b", each(lambda c: fn_returns(c, r"\bequals\s*\([^()]*\)\s*const\s*\{")), n_eq)
        G.piece(prefix + "_distanceTo", "%s::distanceTo; a = position_, b = other.position_" % what, "b - a",
                each(lambda c: fn_returns(c, r"\bdistanceTo\s*\([^()]*\)\s*const\s*\{")), n_dist)

        def inc(s):
            return "a + 1"

        def dec(s):
            return "a - 1"
        G.piece(prefix + "_increment", "%s::increment: new position_; a = position_" % what, "a + 1",
                each(lambda c: fn_stmt(c, r"\bincrement\s*\(\s*\)\s*\{", r"(\+\+\s*position_|position_\s*\+\+|position_\s*\+=\s*1\b|position_\s*=\s*position_\s*\+\s*1\b)\s*;", inc)), len(cls_list))
        G.piece(prefix + "_decrement", "%s::decrement: new position_; a = position_" % what, "a - 1",
                each(lambda c: fn_stmt(c, r"\bdecrement\s*\(\s*\)\s*\{", r"(--\s*position_|position_\s*--|position_\s*-=\s*1\b|position_\s*=\s*position_\s*-\s*1\b)\s*;", dec)), len(cls_list))

        def adv(s):
            if s.group(1) is not None:   # position_ = <expr>
                return re.sub(r"\b[ni]\b", "b", subst(s.group(1), pos_subst))
            return ("a + (%s)" if s.group(2) == "+=" else "a - (%s)") % re.sub(r"\b[ni]\b", "b", s.group(3))
        G.piece(prefix + "_advance", "%s::advance(n): new position_; a = position_, b = n" % what, "a + b",
                each(lambda c: fn_stmt(c, r"\badvance\s*\(\s*\w+\s+[ni]\s*\)\s*\{", r"position_\s*=(?!=)\s*([^;]*);|position_\s*(\+=|-=)\s*([^;]*);", adv)), len(cls_list))

        def elem(cls, fname):
            res = []
            for m in re.finditer(r"\b%s\s*\([^()]*\)\s*const\s*\{" % fname, cls):
                try:
                    v = body_value(fbody(cls, m.end() - 1))
                except TranslateError as ex:
                    v = ex
                if not isinstance(v, str):
                    res.append(TranslateError("%s not understood: %s" % (fname, v if isinstance(v, Exception) else "conditional")))
                    continue
                r = [v]
                am = re.search(r"(?:operator\s*\[\s*\]|elementAt)\s*\((.*)\)\s*$", r[0]) or re.search(r"\[(.*)\]\s*$", r[0])
                if not am:
                    res.append(TranslateError("%s: index expression not found in %r" % (fname, r[0][:60])))
                    continue
                res.append(re.sub(r"\bi\b", "b", subst(drop_casts(am.group(1)), pos_subst)))
            return res
        G.piece(prefix + "_elementAt", "%s::elementAt(i): index handed to the container; a = position_, b = i" % what, "a + b",
                each(lambda c: elem(c, "elementAt")), len(cls_list))
        G.piece(prefix + "_dereference", "%s::dereference: index handed to the container; a = position_" % what, "a",
                each(lambda c: elem(c, "dereference")), len(cls_list))

    gi = rd("genericiterator.hh")
    dv = rd("densevector.hh")
    gcls = safe(lambda: [class_text(gi, r"class\s+GenericIterator\s*:[^{]*\{")])
    dcls = safe(lambda: [class_text(dv, r"class\s+DenseIterator\s*:[^{]*\{")])
    pos_pieces("pos", "GenericIterator/DenseIterator", [c for c in gcls + dcls if isinstance(c, str)], True, 4, 4)

    al = rd("arraylist.hh")
    # out-of-class member definitions: turn `X<T,N,A>::name(args) [const] {` into in-class shape by slicing per class
    def al_members(cls):
        res = []
        for m in re.finditer(r"\b%s\s*<\s*T\s*,\s*N\s*,\s*A\s*>\s*::\s*(\w+)\s*\(([^()]*)\)\s*(const)?\s*\{" % cls, al):
            if m.group(1) == cls:
                continue
            res.append("%s(%s) %s {%s}" % (m.group(1), m.group(2), m.group(3) or "", body_after(al, m.end() - 1)))
        return " ".join(res)
    al_cls = [al_members("ArrayListIterator"), al_members("ConstArrayListIterator")]
    # the list addresses its storage by absolute position: list_->elementAt(k)
    al_cls = [re.sub(r"list_\s*->\s*elementAt", "list_->operator[]", c) for c in al_cls]
    pos_pieces("al", "ArrayListIterator/ConstArrayListIterator", al_cls, False, 3, 2)

    # ---- IntegralRangeIterator, IntegralRange, StaticIntegralRange -------------------------------
    ru = rd("rangeutilities.hh")
    irc = safe(lambda: [class_text(ru, r"class\s+IntegralRangeIterator\s*\{")])
    ir_cls = irc[0] if isinstance(irc[0], str) else ""
    ir_subst = [(r"other\s*\.\s*value_", "b"), (r"\ba\s*\.\s*value_", "a"), (r"\bvalue_", "a"), (r"\bn\b", "b")]

    # inside the comparison operators a difference of two iterators (`*this - other`, `operator-(other)`) and a cast
    # to difference_type are MACHINE operations of the width of T: they wrap (E.wsub)
    ir_machine = [(r"\(\s*\*\s*this\s*\)", "*this"),
                  (r"\*\s*this\s*-\s*other\b(?!\s*\.)", "(a ~ b)"), (r"\bother\s*-\s*\*\s*this\b", "(b ~ a)"),
                  (r"(?:this\s*->\s*)?operator\s*-\s*\(\s*other\s*\)", "(a ~ b)"), (r"other\s*\.\s*operator\s*-\s*\(\s*\*\s*this\s*\)", "(b ~ a)"),
                  (r"static_cast\s*<\s*difference_type\s*>\s*\(", "wrap("), (r"\bdifference_type\s*\(", "wrap(")]

    # An operator written through a SIBLING operator of the class (`!(*this == other)`, `other < *this`,
    # `operator<(other)`, `a + n` inside operator+(n, a) ...) is read by substituting the sibling's own (translated) body,
    # operands exchanged where the call exchanges them; an operator that reaches itself this way is not understood.
    THIS = r"(?:\(\s*\*\s*this\s*\)|\*\s*this)"
    CMP_SYMS = ("==", "!=", "<=", ">=", "<", ">")
    cmp_hdr = lambda sym: r"operator\s*%s\s*\(\s*const\s+IntegralRangeIterator\s*&\s*other\s*\)\s*const\s*(?:noexcept)?\s*\{" % re.escape(sym)

    def swap_ab(t):
        return re.sub(r"\b([ab])\b", lambda m: "b" if m.group(1) == "a" else "a", t)

    def ir_cmp_text(sym, stack=()):
        """body of comparison `sym` in the expression language over a = value_, b = other.value_"""
        if sym in stack:
            raise TranslateError("operator%s of IntegralRangeIterator is defined through itself" % sym)
        ms = list(re.finditer(cmp_hdr(sym), ir_cls))
        if len(ms) != 1:
            raise TranslateError("operator%s of IntegralRangeIterator: %d definitions found" % (sym, len(ms)))
        t = to_expr(body_value(fbody(ir_cls, ms[0].end() - 1)))
        for s2 in CMP_SYMS:
            o = re.escape(s2) + (r"(?![=<>])" if s2 in "<>" else "")
            direct = lambda _m, s2=s2: "(%s)" % ir_cmp_text(s2, stack + (sym,))
            swapped = lambda _m, s2=s2: "(%s)" % swap_ab(ir_cmp_text(s2, stack + (sym,)))
            t = re.sub(THIS + r"\s*" + o + r"\s*other\b(?!\s*(?:[.\[(]|->))", direct, t)
            t = re.sub(r"(?<![\w.])other\s*" + o + r"\s*" + THIS, swapped, t)
            t = re.sub(r"(?<![\w.])other\s*\.\s*operator\s*" + o + r"\s*\(\s*" + THIS + r"\s*\)", swapped, t)
            t = re.sub(r"(?<![\w.])operator\s*" + o + r"\s*\(\s*other\s*\)", direct, t)
        t = subst(t, ir_machine)
        return subst(drop_casts(t), ir_subst)

    IT_A = r"(?<![\w.])a\b(?!\s*(?:[\w.\[(]|->))"
    STEP = r"(n\b|-\s*n\b|\(\s*-\s*n\s*\))"
    fr_hdr = {"plus": r"operator\s*\+\s*\(\s*const\s+IntegralRangeIterator\s*&\s*a\s*,\s*difference_type\s+n\s*\)\s*(?:noexcept)?\s*\{",
              "nplus": r"operator\s*\+\s*\(\s*difference_type\s+n\s*,\s*const\s+IntegralRangeIterator\s*&\s*a\s*\)\s*(?:noexcept)?\s*\{",
              "minus": r"operator\s*-\s*\(\s*const\s+IntegralRangeIterator\s*&\s*a\s*,\s*difference_type\s+n\s*\)\s*(?:noexcept)?\s*\{"}

    def ir_friend_text(kind, stack=()):
        """value of the iterator returned by the friend operator, over a = a.value_, b = n"""
        if kind in stack:
            raise TranslateError("friend operator (%s) of IntegralRangeIterator is defined through itself" % kind)
        ms = list(re.finditer(fr_hdr[kind], ir_cls))
        if len(ms) != 1:
            raise TranslateError("friend operator (%s) of IntegralRangeIterator: %d definitions found" % (kind, len(ms)))
        t = to_expr(body_value(fbody(ir_cls, ms[0].end() - 1)))

        def call(k2, step):
            body = ir_friend_text(k2, stack + (kind,))
            return "(%s)" % (body if step.strip() == "n" else re.sub(r"\bb\b", "(-b)", body))
        t = re.sub(IT_A + r"\s*\+\s*" + STEP, lambda m: call("plus", m.group(1)), t)
        t = re.sub(STEP + r"\s*\+\s*" + IT_A, lambda m: call("nplus", m.group(1)), t)
        t = re.sub(IT_A + r"\s*-\s*" + STEP, lambda m: call("minus", m.group(1)), t)
        e = re.sub(r"^\s*IntegralRangeIterator\s*[({](.*)[)}]\s*$", r"\1", drop_casts(t))
        return subst(e, ir_subst)

    def ir_ret(rx, sub=ir_subst):
        def f():
            res = []
            for m in re.finditer(rx, ir_cls):
                try:
                    t = to_expr(body_value(fbody(ir_cls, m.end() - 1)))
                    e = re.sub(r"^\s*IntegralRangeIterator\s*\((.*)\)\s*$", r"\1", drop_casts(t))
                    res.append(subst(e, sub))
                except TranslateError as ex:
                    res.append(TranslateError("body not understood: %s: %s" % (rx[:24], ex)))
            return res
        return safe(f)
    for op, sym in (("eq", "=="), ("ne", "!="), ("lt", "<"), ("le", "<="), ("gt", ">"), ("ge", ">=")):
        G.piece("ir_" + op, "IntegralRangeIterator operator%s; a = value_, b = other.value_" % sym, "a %s b" % sym,
                safe(lambda: [ir_cmp_text(sym)]), 1)
    G.piece("ir_deref", "IntegralRangeIterator operator*; a = value_", "a", ir_ret(r"operator\s*\*\s*\(\s*\)\s*const\s*(?:noexcept)?\s*\{"), 1)
    def ir_index():
        m = re.search(r"operator\s*\[\s*\]\s*\(\s*difference_type\s+n\s*\)\s*const\s*(?:noexcept)?\s*\{", ir_cls)
        if not m:
            raise TranslateError("operator[] of IntegralRangeIterator not found")
        t = to_expr(body_value(fbody(ir_cls, m.end() - 1)))

        def through_plus(kind):
            # *(*this + n): operator* of the iterator operator+ returns -- compose the two translated bodies
            d = ir_ret(r"operator\s*\*\s*\(\s*\)\s*const\s*(?:noexcept)?\s*\{")
            if len(d) != 1 or not isinstance(d[0], str):
                raise TranslateError("operator* of IntegralRangeIterator not understood")
            return "(%s)" % re.sub(r"\ba\b", lambda _m: "(%s)" % ir_friend_text(kind), d[0])
        t = re.sub(r"\*\s*\(\s*" + THIS + r"\s*\+\s*n\s*\)", lambda _m: through_plus("plus"), t)
        t = re.sub(r"\*\s*\(\s*n\s*\+\s*" + THIS + r"\s*\)", lambda _m: through_plus("nplus"), t)
        return [subst(drop_casts(t), ir_subst)]
    G.piece("ir_index", "IntegralRangeIterator operator[](n); a = value_, b = n", "a + b", safe(ir_index), 1)
    G.piece("ir_plus", "operator+(a, n): value of the result; a = a.value_, b = n", "a + b",
            safe(lambda: [ir_friend_text("plus")]), 1)
    G.piece("ir_nplus", "operator+(n, a): value of the result; a = a.value_, b = n", "a + b",
            safe(lambda: [ir_friend_text("nplus")]), 1)
    G.piece("ir_minus", "operator-(a, n): value of the result; a = a.value_, b = n", "a - b",
            safe(lambda: [ir_friend_text("minus")]), 1)
    G.piece("ir_diff", "operator-(other): the difference before it is reduced to difference_type; a = value_, b = other.value_", "a - b",
            ir_ret(r"operator\s*-\s*\(\s*const\s+IntegralRangeIterator\s*&\s*other\s*\)\s*const\s*(?:noexcept)?\s*\{"), 1)

    def ir_stmt(rx, forms):
        def f():
            m = re.search(rx, ir_cls)
            if not m:
                raise TranslateError("member not found: %s" % rx)
            body = fbody(ir_cls, m.end() - 1)
            if len(re.findall(r"(?<![\w.])(?<!->)value_\s*(?:\+\+|--|[+\-*/%&|^]?=(?!=))|(?:\+\+|--)\s*value_", body)) != 1:
                raise TranslateError("value_ is updated more than once in %s" % body[:60])
            for frx, mk in forms:
                s = re.search(frx, body)
                if s:
                    return [mk(s)]
            raise TranslateError("statement not understood: %s" % body[:60])
        return safe(f)
    G.piece("ir_inc", "IntegralRangeIterator operator++: new value_; a = value_", "a + 1",
            ir_stmt(r"operator\s*\+\+\s*\(\s*\)\s*(?:noexcept)?\s*\{", [(r"\+\+\s*value_\s*;|value_\s*\+\+\s*;", lambda s: "a + 1"),
                                                                      (r"value_\s*\+=\s*([^;]*);", lambda s: "a + (%s)" % s.group(1)),
                                                                      (r"value_\s*-=\s*([^;]*);", lambda s: "a - (%s)" % s.group(1)),
                                                                      (r"--\s*value_\s*;|value_\s*--\s*;", lambda s: "a - 1"),
                                                                      (r"value_\s*=(?!=)\s*([^;]*);", lambda s: subst(drop_casts(s.group(1)), ir_subst))]), 1)
    G.piece("ir_dec", "IntegralRangeIterator operator--: new value_; a = value_", "a - 1",
            ir_stmt(r"operator\s*--\s*\(\s*\)\s*(?:noexcept)?\s*\{", [(r"--\s*value_\s*;|value_\s*--\s*;", lambda s: "a - 1"),
                                                                     (r"value_\s*-=\s*([^;]*);", lambda s: "a - (%s)" % s.group(1)),
                                                                     (r"value_\s*\+=\s*([^;]*);", lambda s: "a + (%s)" % s.group(1)),
                                                                     (r"\+\+\s*value_\s*;|value_\s*\+\+\s*;", lambda s: "a + 1"),
                                                                     (r"value_\s*=(?!=)\s*([^;]*);", lambda s: subst(drop_casts(s.group(1)), ir_subst))]), 1)
    nb = lambda t: re.sub(r"\bn\b", "b", t)
    G.piece("ir_addAssign", "IntegralRangeIterator operator+=(n): new value_; a = value_, b = n", "a + b",
            ir_stmt(r"operator\s*\+=\s*\(\s*difference_type\s+n\s*\)\s*(?:noexcept)?\s*\{",
                    [(r"value_\s*\+=\s*([^;]*);", lambda s: "a + (%s)" % nb(s.group(1))), (r"value_\s*-=\s*([^;]*);", lambda s: "a - (%s)" % nb(s.group(1))),
                     (r"value_\s*=(?!=)\s*([^;]*);", lambda s: subst(s.group(1), ir_subst))]), 1)
    G.piece("ir_subAssign", "IntegralRangeIterator operator-=(n): new value_; a = value_, b = n", "a - b",
            ir_stmt(r"operator\s*-=\s*\(\s*difference_type\s+n\s*\)\s*(?:noexcept)?\s*\{",
                    [(r"value_\s*-=\s*([^;]*);", lambda s: "a - (%s)" % nb(s.group(1))), (r"value_\s*\+=\s*([^;]*);", lambda s: "a + (%s)" % nb(s.group(1))),
                     (r"value_\s*=(?!=)\s*([^;]*);", lambda s: subst(s.group(1), ir_subst))]), 1)

    def range_pieces(prefix, what, cls, frm, to):
        rs = [(r"\b%s\b" % frm, "a"), (r"\b%s\b" % to, "b"), (r"\bindex\b", "c"), (r"\bi\b", "c")]

        ne = r"\s*(?:const)?\s*(?:noexcept)?\s*\{"

        def member_text(rx, nth=0, stack=()):
            """value of a member in the expression language; calls of the sibling members size() / empty() on the
            same object are replaced by their own bodies"""
            if rx in stack:
                raise TranslateError("member is defined through itself: %s" % rx[:20])
            ms = list(re.finditer(rx, cls))
            if len(ms) <= nth:
                raise TranslateError("member not found: %s" % rx)
            t = to_expr(body_value(fbody(cls, ms[nth].end() - 1)))
            for nm in ("size", "empty"):
                def sib(_m, nm=nm):
                    if prefix == "rg":
                        return "(%s)" % member_text(r"\b%s\s*\(\s*\)" % nm + ne, 0, stack + (rx,))
                    r = static_member(cls, nm, rs)
                    if isinstance(r[0], Exception):
                        raise r[0]
                    return "(%s)" % r[0]
                t = re.sub(r"(?<![\w.])(?<!->)%s\s*\(\s*\)" % nm, sib, t)
            e = re.sub(r"^\s*iterator\s*[({](.*)[)}]\s*$", r"\1", drop_casts(t))
            return subst(e, rs)

        def ret(rx, nth=0):
            return safe(lambda: [member_text(rx, nth)])
        G.piece(prefix + "_begin", "%s::begin(): value of the iterator; a = from, b = to" % what, "a", ret(r"\bbegin\s*\(\s*\)" + ne), 1)
        G.piece(prefix + "_end", "%s::end(): value of the iterator; a = from, b = to" % what, "b", ret(r"\bend\s*\(\s*\)" + ne), 1)
        G.piece(prefix + "_empty", "%s::empty(); a = from, b = to" % what, "a == b", ret(r"\bempty\s*\(\s*\)" + ne)
                if prefix == "rg" else static_member(cls, "empty", rs), 1)
        G.piece(prefix + "_size", "%s::size() before the reduction to size_type; a = from, b = to" % what, "b - a",
                ret(r"\bsize\s*\(\s*\)" + ne) if prefix == "rg" else static_member(cls, "size", rs), 1)
        G.piece(prefix + "_contains", "%s::contains(index); a = from, b = to, c = index" % what, "a <= c && c < b",
                ret(r"\bcontains\s*\(\s*value_type\s+index\s*\)" + ne), 1)
        return ret

    def static_member(cls, name, rs):
        """StaticIntegralRange::empty()/size() encode the result in the return type integral_constant<T, expr>"""
        def f():
            m = re.search(r">\s*%s\s*\(\s*\)" % name, cls)
            if not m:
                raise TranslateError("static member %s not found" % name)
            start = cls.rfind("std::integral_constant", 0, m.start())
            if start < 0:
                raise TranslateError("static member %s: result type not understood" % name)
            inner = cls[start + len("std::integral_constant"):m.start()].strip()
            if not inner.startswith("<") or "," not in inner:
                raise TranslateError("static member %s: result type not understood" % name)
            return [subst(drop_casts(inner[inner.index(",") + 1:]), rs)]
        return safe(f)

    rgc = safe(lambda: [class_text(ru, r"class\s+IntegralRange\s*\{")])
    rg_cls = rgc[0] if isinstance(rgc[0], str) else ""
    ret = range_pieces("rg", "IntegralRange", rg_cls, "from_", "to_")
    G.piece("rg_at", "IntegralRange::operator[](i); a = from, b = to, c = i", "a + c",
            ret(r"operator\s*\[\s*\]\s*\(\s*const\s+value_type\s*&\s*i\s*\)\s*const\s*(?:noexcept)?\s*\{"), 1)

    def ctor_to():
        m = re.search(r"explicit\s+IntegralRange\s*\(\s*value_type\s+to\s*\)\s*(?:noexcept)?\s*:\s*from_\s*\(([^()]*)\)\s*,\s*to_\s*\(\s*to\s*\)", rg_cls)
        if not m:
            raise TranslateError("IntegralRange(to) not found")
        return [m.group(1)]
    G.piece("rg_ctor_to_from", "IntegralRange(to): initial value of from_", "0", safe(ctor_to), 1)

    src_ = safe(lambda: [class_text(ru, r"class\s+StaticIntegralRange\s*\{")])
    sr_cls = src_[0] if isinstance(src_[0], str) else ""
    ret = range_pieces("sr", "StaticIntegralRange", sr_cls, "from", "to")

    def sr_static_at():
        m = re.search(r"operator\s*\[\s*\]\s*\(\s*const\s+std::integral_constant\s*<\s*U\s*,\s*i\s*>\s*&\s*\)\s*const\s*(?:noexcept)?\s*->\s*std::integral_constant\s*<\s*value_type\s*,(.*?)>\s*\{", sr_cls)
        if not m:
            raise TranslateError("static operator[] not found")
        return [subst(drop_casts(m.group(1)), [(r"\bfrom\b", "a"), (r"\bto\b", "b"), (r"\bi\b", "c")])]
    G.piece("sr_at_static", "StaticIntegralRange::operator[](integral_constant<U,i>): value of the result type; a = from, b = to, c = i",
            "a + c", safe(sr_static_at), 1)
    G.piece("sr_at", "StaticIntegralRange::operator[](i); a = from, b = to, c = i", "a + c",
            ret(r"operator\s*\[\s*\]\s*\(\s*const\s+size_type\s*&\s*i\s*\)\s*const\s*(?:noexcept)?\s*\{"), 1)

    return [("DuneVerif/Gen/C16.lean", G.text())]


if __name__ == "__main__":
    import sys
    for path, content in translate(sys.argv[1] if len(sys.argv) > 1 else "/repo"):
        sys.stdout.write(content)
