"""Translator for C15 (allocators).

Re-reads on every run, from the current source tree,
  * the compile-time slot geometry of Dune::Pool (poolallocator.hh: unionSize, size, alignment, alignedSize,
    chunkSize, elements) and PoolAllocator's pool size and `n==1` test,
  * the request validation of MallocAllocator / AlignedAllocator (max_size(), the `n > max_size()` test, the byte
    size handed to malloc / aligned_alloc, the alignment argument),
  * the page arithmetic of DebugMemory::AllocationManager (capacity, overlap, pages, mapping length, offset of the
    block and of the guard page inside the mapping, the lookup key of deallocate, the request bound),
and emits them as Lean functions of (sizeof T, alignof T, s, n, page size) into lean/DuneVerif/Gen/C15.lean.
The C15 model and theorems are stated about these generated definitions.

The expressions are parsed by a small recursive-descent parser for C integer expressions (?:, || && == != < <= > >=,
+ - * / %, parentheses, sizeof/alignof of the known type names, std::lcm, size_type(-1)); anything outside that
grammar makes the translator fail loudly.  Target assumptions written into the file: LP64 (pointer size and alignment
8, size_t = 64 bit).

Round five: the statement shapes are matched on a normal form of each function body (section "statement-level
normalisation": locals renamed by role, single-assignment side-effect-free locals inlined, pure return-tree helpers
expanded, for -> while, null tests, inverted guard, flipped request bound), so that ordinary maintenance rewrites of the
translated functions regenerate the same definitions; every step checks its side conditions and otherwise leaves the
text alone, in which case the shapes fail loudly as before."""
import os
import re


class TranslateError(Exception):
    pass


# ------------------------------------------------------------------------------------------------
# tiny C expression parser -> Lean text
# ------------------------------------------------------------------------------------------------
TOK = re.compile(r"\s*(?:(\d+[uUlL]*)|([A-Za-z_][A-Za-z_0-9]*(?:(?:::|\.|->)[A-Za-z_][A-Za-z_0-9]*)*)|(\|\||&&|==|!=|<=|>=|[-+*/%()?:<>,!]))")


def tokenize(s):
    out, i = [], 0
    s = s.strip()
    while i < len(s):
        m = TOK.match(s, i)
        if not m or m.end() == i:
            raise TranslateError("cannot tokenize %r at %r" % (s, s[i:i + 20]))
        if m.group(1):
            out.append(("num", re.sub(r"[uUlL]+$", "", m.group(1))))
        elif m.group(2):
            out.append(("id", m.group(2)))
        else:
            out.append(("op", m.group(3)))
        i = m.end()
    return out


class Parser:
    """C integer expression -> AST.  Nodes: ("num", v) ("var", leanText, pyName) ("bin", op, a, b) ("cmp", op, a, b)
    ("and"|"or", a, b) ("not", a) ("ite", c, a, b) ("lcm", a, b) ("max",) .
    env: C name -> (Lean text, evaluation name); sizeof/alignof: type name -> (Lean text, evaluation name)."""

    def __init__(self, text, env, sizeof, alignof):
        text = re.sub(r"std::numeric_limits\s*<\s*(?:std::)?(?:size_t|size_type)\s*>\s*::\s*max\s*\(\s*\)", "size_type(-1)", text)
        self.t = tokenize(text)
        self.i = 0
        self.env, self.sizeof, self.alignof = env, sizeof, alignof
        self.text = text

    def peek(self):
        return self.t[self.i] if self.i < len(self.t) else ("eof", "")

    def eat(self, kind=None, val=None):
        k, v = self.peek()
        if (kind and k != kind) or (val is not None and v != val):
            raise TranslateError("unexpected token %r in %r (wanted %r)" % (v, self.text, val or kind))
        self.i += 1
        return v

    def parse(self):
        e = self.ternary()
        if self.peek()[0] != "eof":
            raise TranslateError("trailing tokens in %r" % self.text)
        return e

    def ternary(self):
        c = self.lor()
        if self.peek() == ("op", "?"):
            self.eat()
            a = self.ternary()
            self.eat("op", ":")
            b = self.ternary()
            return ("ite", c, a, b)
        return c

    def lor(self):
        e = self.land()
        while self.peek() == ("op", "||"):
            self.eat()
            e = ("or", e, self.land())
        return e

    def land(self):
        e = self.equality()
        while self.peek() == ("op", "&&"):
            self.eat()
            e = ("and", e, self.equality())
        return e

    def equality(self):
        e = self.relational()
        while self.peek() in (("op", "=="), ("op", "!=")):
            op = self.eat()
            e = ("cmp", op, e, self.relational())
        return e

    def relational(self):
        e = self.additive()
        while self.peek() in (("op", "<"), ("op", "<="), ("op", ">"), ("op", ">=")):
            op = self.eat()
            e = ("cmp", op, e, self.additive())
        return e

    def additive(self):
        e = self.multiplicative()
        while self.peek() in (("op", "+"), ("op", "-")):
            op = self.eat()
            e = ("bin", op, e, self.multiplicative())
        return e

    def multiplicative(self):
        e = self.unary()
        while self.peek() in (("op", "*"), ("op", "/"), ("op", "%")):
            op = self.eat()
            e = ("bin", op, e, self.unary())
        return e

    def unary(self):
        if self.peek() == ("op", "!"):
            self.eat()
            return ("not", self.unary())
        return self.primary()

    def type_name(self):
        name = self.eat("id")
        while self.peek() == ("op", "*"):
            self.eat()
            name += "*"
        return name

    def primary(self):
        k, v = self.peek()
        if k == "num":
            self.eat()
            return ("num", int(v))
        if k == "op" and v == "(":
            self.eat()
            e = self.ternary()
            self.eat("op", ")")
            return e
        if k == "id":
            self.eat()
            if v in ("sizeof", "alignof"):
                self.eat("op", "(")
                tn = self.type_name()
                self.eat("op", ")")
                table = self.sizeof if v == "sizeof" else self.alignof
                if tn not in table:
                    raise TranslateError("%s(%s): unknown type in %r" % (v, tn, self.text))
                return ("var",) + tuple(table[tn])
            if v == "std::lcm":
                self.eat("op", "(")
                a = self.ternary()
                self.eat("op", ",")
                b = self.ternary()
                self.eat("op", ")")
                return ("lcm", a, b)
            if v in ("size_type", "std::size_t", "size_t") and self.peek() == ("op", "("):
                self.eat("op", "(")
                self.eat("op", "-")
                one = self.eat("num")
                self.eat("op", ")")
                if one != "1":
                    raise TranslateError("size_type(-%s) not understood" % one)
                return ("max",)
            if v in ("this->max_size", "max_size") and "max_size()" in self.env:
                self.eat("op", "(")
                self.eat("op", ")")
                return ("var",) + tuple(self.env["max_size()"])
            if v in self.env:
                return ("var",) + tuple(self.env[v])
            raise TranslateError("unknown identifier %r in %r" % (v, self.text))
        raise TranslateError("unexpected token %r in %r" % (v, self.text))


CMP = {"<": "<", "<=": "≤", ">": ">", ">=": "≥", "==": "=", "!=": "≠"}
PROPS = ("cmp", "and", "or", "not")


def to_lean(e, want="nat"):
    """Lean text of an AST; C's int<->bool conversions made explicit"""
    k = e[0]
    if k in PROPS:
        if k == "cmp":
            t = "(%s %s %s)" % (to_lean(e[2]), CMP[e[1]], to_lean(e[3]))
        elif k == "and":
            t = "(%s ∧ %s)" % (to_lean(e[1], "prop"), to_lean(e[2], "prop"))
        elif k == "or":
            t = "(%s ∨ %s)" % (to_lean(e[1], "prop"), to_lean(e[2], "prop"))
        else:
            t = "(¬ %s)" % to_lean(e[1], "prop")
        return t if want == "prop" else "(if %s then 1 else 0)" % t
    if k == "num":
        t = str(e[1])
    elif k == "var":
        t = e[1]
    elif k == "max":
        t = "sizeMax"
    elif k == "bin":
        t = "(%s %s %s)" % (to_lean(e[2]), e[1], to_lean(e[3]))
    elif k == "lcm":
        t = "(Nat.lcm %s %s)" % (to_lean(e[1]), to_lean(e[2]))
    elif k == "ite":
        t = "(if %s then %s else %s)" % (to_lean(e[1], "prop"), to_lean(e[2]), to_lean(e[3]))
    else:
        raise TranslateError("bad node %r" % (e,))
    return t if want == "nat" else "(%s ≠ 0)" % t


def evaluate(e, val):
    """value of an AST over the naturals with Lean's conventions (truncated subtraction, x/0 = 0, x%0 = x)"""
    k = e[0]
    if k == "num":
        return e[1]
    if k == "var":
        return val[e[2]]
    if k == "max":
        return 2 ** 64 - 1
    if k == "bin":
        a, b = evaluate(e[2], val), evaluate(e[3], val)
        if e[1] == "+":
            return a + b
        if e[1] == "-":
            return max(a - b, 0)
        if e[1] == "*":
            return a * b
        if e[1] == "/":
            return a // b if b else 0
        return a % b if b else a
    if k == "lcm":
        import math
        a, b = evaluate(e[1], val), evaluate(e[2], val)
        return a * b // math.gcd(a, b) if a and b else 0
    if k == "ite":
        return evaluate(e[2], val) if evaluate(e[1], val) else evaluate(e[3], val)
    if k == "cmp":
        a, b = evaluate(e[2], val), evaluate(e[3], val)
        return int({"<": a < b, "<=": a <= b, ">": a > b, ">=": a >= b, "==": a == b, "!=": a != b}[e[1]])
    if k == "and":
        return int(bool(evaluate(e[1], val)) and bool(evaluate(e[2], val)))
    if k == "or":
        return int(bool(evaluate(e[1], val)) or bool(evaluate(e[2], val)))
    if k == "not":
        return int(not evaluate(e[1], val))
    raise TranslateError("bad node %r" % (e,))


class Defs:
    """collects `def name (params) : Nat := expr` lines.  `canonical` is the C text the proofs were written against:
    when the source's expression is textually different but takes the same value on every point of `grid`, the
    canonical Lean text is emitted (so that an equivalent rewrite of a formula does not break a proof script) and the
    source text is recorded in a comment; when the values differ anywhere, the source's own expression is emitted and
    the theorems have to be re-proved about it (or fail)."""

    def __init__(self, out):
        self.out = out
        self.fn = {}     # name -> (param names, ast) for evaluation of references

    def add(self, name, params, ctext, canonical, env, sizeof=None, alignof=None, grid=None, wrap=False, prop=False):
        sizeof, alignof = sizeof or {}, alignof or {}
        ast = ctext if isinstance(ctext, tuple) else Parser(ctext, env, sizeof, alignof).parse()
        chosen, note = ast, None
        if canonical is not None:
            cast = Parser(canonical, env, sizeof, alignof).parse()
            if cast != ast:
                pts = list(grid())
                same = all(self.value(ast, params, p, wrap) == self.value(cast, params, p, wrap) for p in pts)
                if same:
                    chosen = cast
                    note = "-- source: `%s` (textually different; equal to the form below on %d grid points)" % (
                        re.sub(r"\s+", " ", (ctext if isinstance(ctext, str) else to_lean(ctext)).strip()), len(pts))
        if note:
            self.out.append(note)
        body = to_lean(chosen, "prop" if prop else "nat")
        if wrap:
            body = "wrap " + body
        binder = "(%s : Nat) " % " ".join(params) if params else ""
        if prop:
            self.out.append("def %s %s: Bool := decide %s" % (name, binder, body))
        else:
            self.out.append("def %s %s: Nat := %s" % (name, binder, body))
        self.fn[name] = (params, chosen, wrap)

    def value(self, ast, params, point, wrap):
        val = Env(self, dict(zip(params, point)))
        v = evaluate(ast, val)
        return v % 2 ** 64 if wrap else v


class Env:
    """evaluation environment: parameters, target constants, and previously defined functions applied to the same
    parameter names (`fn:unionSize` means `unionSize sz al s` at the current point)"""

    def __init__(self, defs, point):
        self.defs, self.point = defs, point

    def __getitem__(self, key):
        if key in self.point:
            return self.point[key]
        if key == "refSize" or key == "refAlign":
            return 8
        if key == "maxAlign":
            return 16
        if key.startswith("fn:"):
            params, ast, wrap = self.defs.fn[key[3:]]
            v = evaluate(ast, Env(self.defs, {p: self.point[p] for p in params}))
            return v % 2 ** 64 if wrap else v
        raise TranslateError("no value for %r" % key)


# ------------------------------------------------------------------------------------------------
# source preparation
# ------------------------------------------------------------------------------------------------
def strip_comments(src):
    src = re.sub(r"/\*.*?\*/", " ", src, flags=re.S)
    src = re.sub(r"//[^\n]*", "", src)
    return src


def drop_foreign_branches(src):
    """keep the #else branch of `#if __APPLE__` / `#ifdef __APPLE__` / `#if defined(_MSC_VER)` blocks (Linux target)"""
    out, stack = [], []   # stack entries: [is_foreign, in_else]
    for line in src.split("\n"):
        s = line.strip()
        if re.match(r"#\s*if", s):
            foreign = bool(re.match(r"#\s*if(def)?\s+(defined\s*\(\s*)?(__APPLE__|_MSC_VER)\b", s))
            stack.append([foreign, False])
            if foreign:
                continue
        elif re.match(r"#\s*else", s) and stack:
            stack[-1][1] = True
            if stack[-1][0]:
                continue
        elif re.match(r"#\s*endif", s) and stack:
            f = stack.pop()
            if f[0]:
                continue
        skip = any(f and not e for f, e in stack)
        if not skip:
            out.append(line)
    return "\n".join(out)


def find(rx, src, what, flags=re.S):
    m = re.search(rx, src, flags)
    if not m:
        raise TranslateError("%s not found" % what)
    return m


def block_after(src, m, what):
    """text between the `{` that ends match `m` and its matching `}`"""
    i = m.end()
    if src[i - 1] != "{":
        raise TranslateError("%s: no opening brace" % what)
    depth, j = 1, i
    while j < len(src) and depth:
        depth += {"{": 1, "}": -1}.get(src[j], 0)
        j += 1
    if depth:
        raise TranslateError("%s: unbalanced braces" % what)
    return src[i:j - 1]


def drop_directives(src):
    return "\n".join(l for l in src.split("\n") if not l.strip().startswith("#"))


def limit_def(D, out, name, params, body, what):
    """`if (n > EXPR) throw std::bad_alloc();` -> def <name>Val + def <name> : Option Nat"""
    szT_ = {"T": ("sz", "sz"), "value_type": ("sz", "sz")}
    chk = limit_test(body, "n", {"max_size()": ("(mallocMaxSize sz)", "fn:mallocMaxSize"), "n": ("n", "n")}, szT_)
    out.append("/-- `some m`: requests with n > m are refused before anything is computed; `none`: no such test -/")
    if chk:
        D.add(name + "Val", ("sz",), chk, "max_size()", {"max_size()": ("(mallocMaxSize sz)", "fn:mallocMaxSize")},
              szT_, grid=lambda: ((a,) for a in range(1, 4100)))
        out.append("def %s (sz : Nat) : Option Nat := some (%sVal sz)" % (name, name))
    else:
        out.append("def %s (sz : Nat) : Option Nat := none" % name)


def nows(s):
    return re.sub(r"\s+", "", s)


# ------------------------------------------------------------------------------------------------
# statement-level normalisation (round five).  The extraction below anchors on statement shapes; ordinary maintenance
# edits (renamed locals, hoisted `const` locals, a private helper, `for` instead of `while`, flipped comparisons, `nullptr`
# tests, inverted guards) are brought back to ONE spelling here before the anchors are applied.  Every rewrite is a
# semantics-preserving source-to-source step with its side conditions checked on the text; when a side condition cannot
# be established the text is left alone and the anchors fail loudly as before.
# ------------------------------------------------------------------------------------------------
PURE_CALLS = {"static_cast", "reinterpret_cast", "const_cast", "sizeof", "alignof", "std::lcm", "max_size", "size_type",
              "std::size_t", "size_t", "std::min", "std::max", "std::uintptr_t", "uintptr_t"}
# callees that take their arguments by value (passing a variable to them does not modify it)
BYVALUE_CALLS = PURE_CALLS | {"std::malloc", "std::aligned_alloc", "std::free", "std::calloc", "munmap", "mmap", "memprotect",
                              "mprotect", "memoryPool_.free", "ALLOCATION_ASSERT", "allocation_error", "new"}
KEYWORDS = {"if", "else", "for", "while", "do", "return", "throw", "new", "delete", "const", "constexpr", "static", "char",
            "void", "int", "unsigned", "long", "auto", "true", "false", "nullptr", "NULL", "sizeof", "alignof", "break",
            "static_cast", "reinterpret_cast", "const_cast", "std", "size_type", "size_t", "uintptr_t", "pointer"}
WIDE_UNSIGNED = r"(?:size_type|std::size_t|size_t|std::uintptr_t|uintptr_t|auto)"
NARROW_INT = r"(?:int|unsigned|unsigned\s+int|long|unsigned\s+long)"
NOTMEMBER = r"(?<!->)(?<![\w.])(?<!::)"


def rename(text, mapping, merge=False):
    """simultaneous renaming of identifiers (not of members `x.name`, `x->name`, `X::name`)"""
    mapping = {a: b for a, b in mapping.items() if a != b}
    if not mapping:
        return text
    for a, b in mapping.items():
        if not merge and b not in mapping and re.search(NOTMEMBER + re.escape(b) + r"\b", text):
            raise TranslateError("renaming local `%s` to `%s` would capture another identifier" % (a, b))
    rx = re.compile(NOTMEMBER + r"(%s)\b" % "|".join(re.escape(a) for a in mapping))
    return rx.sub(lambda m: mapping[m.group(1)], text)


def matching_paren(text, i):
    """index just behind the `)` matching the `(` at text[i]"""
    depth = 0
    for j in range(i, len(text)):
        depth += {"(": 1, ")": -1}.get(text[j], 0)
        if depth == 0:
            return j + 1
    raise TranslateError("unbalanced parentheses in %r" % text[i:i + 40])


def split_args(text):
    out, depth, cur = [], 0, ""
    for ch in text:
        if ch in "([{<" and not (ch == "<" and depth == 0 and not re.search(r"_cast\s*$", cur)):
            depth += 1
        elif ch in ")]}>" and depth and not (ch == ">" and cur.rstrip().endswith("-")):
            depth -= 1
        if ch == "," and depth == 0:
            out.append(cur.strip())
            cur = ""
        else:
            cur += ch
    if cur.strip() or out:
        out.append(cur.strip())
    return out


def side_effect_free(expr):
    if re.search(r"\+\+|--|<<=|>>=|(?<![=!<>])=(?!=)|\bnew\b|\bdelete\b|\bthrow\b|[{};]", expr):
        return False
    for m in re.finditer(r"([A-Za-z_][\w]*(?:\s*(?:::|\.|->)\s*[A-Za-z_]\w*)*)\s*(?:<[^<>()]*>)?\s*\(", expr):
        if nows(m.group(1)) not in PURE_CALLS:
            return False
    return True


def roots(expr):
    """identifiers an expression depends on (members are represented by the object they belong to)"""
    return {m.group(1) for m in re.finditer(NOTMEMBER + r"([A-Za-z_]\w*)\b", expr)} - KEYWORDS


def enclosing_call(text, pos):
    depth = 0
    for j in range(pos - 1, -1, -1):
        if text[j] == ")":
            depth += 1
        elif text[j] == "(":
            if depth == 0:
                m = re.search(r"([A-Za-z_]\w*(?:\s*(?:::|\.|->)\s*[A-Za-z_]\w*)*)\s*(?:<[^<>()]*>)?\s*$", text[:j])
                return nows(m.group(1)) if m else ""
            depth -= 1
    return ""


def modified(x, text):
    """may `text` change the variable x (or something reached through it)?  Conservative."""
    X = NOTMEMBER + re.escape(x) + r"\b"
    if re.search(r"(\+\+|--)\s*" + X, text):
        return True
    if re.search(X + r"\s*(?:(?:->|\.)\s*\w+\s*|\[[^\]]*\]\s*)*(?:\+\+|--|(?:[-+*/%|&^]|<<|>>)?=(?!=))", text):
        return True
    if re.search(r"(?<!&)&\s*" + X, text):
        return True
    for m in re.finditer(r"[(,]\s*(" + X + r")\s*(?=[,)])", text):
        if enclosing_call(text, m.start(1)) not in BYVALUE_CALLS:
            return True
    return False


def reassigned(x, text):
    """may `text` give the variable x itself another value (writes through x->… do not count)?"""
    X = NOTMEMBER + re.escape(x) + r"\b"
    if re.search(r"(\+\+|--)\s*" + X + r"(?!\s*(?:->|\.|\[))", text):
        return True
    if re.search(X + r"\s*(?:\+\+|--|(?:[-+*/%|&^]|<<|>>)?=(?!=))", text):
        return True
    if re.search(r"(?<!&)&\s*" + X, text):
        return True
    for m in re.finditer(r"[(,]\s*(" + X + r")\s*(?=[,)])", text):
        if enclosing_call(text, m.start(1)) not in BYVALUE_CALLS:
            return True
    return False


PATH = r"[A-Za-z_]\w*(?:\s*(?:->|\.)\s*[A-Za-z_]\w*)*"


def paths(expr):
    """the variables / member paths an expression reads: `it->pages` -> ("it","pages")"""
    out = set()
    for m in re.finditer(NOTMEMBER + "(" + PATH + r")(?!\s*[\w(<:])", expr):
        comps = tuple(re.split(r"\s*(?:->|\.)\s*", m.group(1).strip()))
        if comps[0] not in KEYWORDS:
            out.add(comps)
    for m in re.finditer(NOTMEMBER + "(" + PATH + r")\s*<(?!<)", expr):     # left operand of a comparison
        comps = tuple(re.split(r"\s*(?:->|\.)\s*", m.group(1).strip()))
        if comps[0] not in KEYWORDS and not comps[0].endswith("_cast"):
            out.add(comps)
    return out


def path_modified(path, text):
    """may `text` change what `path` denotes?  A write to w conflicts when w is a prefix of path or path a prefix of w
    (members are distinguished, elements of arrays are not); taking the address of the root, binding a reference and
    handing a prefix of the path to an unknown function count as writes.  Aliases made elsewhere are not tracked."""
    def conflict(w):
        k = min(len(w), len(path))
        return w[:k] == path[:k]
    for m in re.finditer(r"(?:\+\+|--)\s*(" + PATH + ")", text):
        if conflict(tuple(re.split(r"\s*(?:->|\.)\s*", m.group(1)))):
            return True
    for m in re.finditer(NOTMEMBER + "(" + PATH + r")\s*(?:\[[^\]]*\]\s*)*(?:\+\+|--|(?:[-+*/%|&^]|<<|>>)?=(?!=))", text):
        if conflict(tuple(re.split(r"\s*(?:->|\.)\s*", m.group(1)))):
            return True
    if re.search(r"(?<!&)&\s*" + NOTMEMBER + re.escape(path[0]) + r"\b", text) or re.search(r"&\s*[A-Za-z_]\w*\s*=(?!=)", text):
        return True
    for m in re.finditer(r"[(,]\s*(" + PATH + r")\s*(?=[,)])", text):
        w = tuple(re.split(r"\s*(?:->|\.)\s*", m.group(1)))
        if conflict(w) and len(w) <= len(path) and enclosing_call(text, m.start(1)) not in BYVALUE_CALLS:
            return True
    return False


def unknown_calls(text):
    """does the text call anything that might change state the translator cannot see (a function outside the lists)?"""
    for m in re.finditer(r"([A-Za-z_]\w*(?:\s*(?:::|\.|->)\s*[A-Za-z_]\w*)*)\s*(?:<[^<>()]*>)?\s*\(", text):
        nm = nows(m.group(1))
        if nm not in BYVALUE_CALLS and nm not in KEYWORDS and nm not in ("char*", "void*"):
            return True
    return False


def scope_end(text, pos):
    depth = 0
    for j in range(pos, len(text)):
        if text[j] == "{":
            depth += 1
        elif text[j] == "}":
            if depth == 0:
                return j
            depth -= 1
    return len(text)


def atom(e):
    """e, parenthesised unless it is a name or a single call / cast expression"""
    e = e.strip()
    if re.fullmatch(r"[\w:.>-]+", e):
        return e
    k = re.match(r"[\w:]+(?:\s*<[^<>()]*>)?\s*\(", e)
    if k and matching_paren(e, k.end() - 1) == len(e):
        return e
    return "(" + e + ")"


def inline_locals(text, keep=(), int_names=(), unmodified_too=False, pointer_types=()):
    """replace every use of a local that is initialised once from a side-effect-free expression by that expression
    (parenthesised) and drop the declaration.  Conditions: the local is declared `const`/`constexpr` (or, with
    unmodified_too, is never written in its scope); its type cannot narrow the value (a 64-bit unsigned type or `auto`,
    a listed pointer type, or `int` when the initialiser mentions only the `int` constants in int_names); nothing the
    initialiser depends on can change between the declaration and the last use (the whole scope when a loop lies in
    between).  Locals named in `keep` are anchors of the extraction: they only lose their `const`."""
    ptr = "|".join(pointer_types)
    types = r"(?:%s|%s%s)" % (WIDE_UNSIGNED, NARROW_INT, ("|" + ptr) if ptr else "")
    decl = re.compile(r"(?<![\w>.:])((?:const(?:expr)?\s+)?)(%s)((?:\s+const)?)\s+([A-Za-z_]\w*)\s*=\s*([^;{}]+);" % types)
    pos, guard = 0, 0
    while guard < 50:
        guard += 1
        m = decl.search(text, pos)
        if not m:
            break
        is_const = bool(m.group(1).strip() or m.group(3).strip())
        ty, name, expr = m.group(2), m.group(4), m.group(5).strip()
        if name in keep:
            if is_const:
                text = text[:m.start()] + "%s %s = %s;" % (ty, name, expr) + text[m.end():]
            pos = m.start() + 1
            continue
        end = scope_end(text, m.end())
        scope = text[m.end():end]
        uses = [u for u in re.finditer(NOTMEMBER + re.escape(name) + r"\b", scope)]
        ok = side_effect_free(expr) and (is_const or (unmodified_too and not modified(name, scope)))
        if ok and re.fullmatch(NARROW_INT, ty):
            ok = roots(expr) <= set(int_names)
        if ok and uses:
            last = uses[-1].end()
            span = scope if re.search(r"\b(for|while|do)\b", scope[:last]) else scope[:last]
            ok = not any(path_modified(q, span) for q in paths(expr)) and not unknown_calls(span)
        if not ok:
            pos = m.end()
            continue
        new_scope = re.sub(NOTMEMBER + re.escape(name) + r"\b", lambda _: atom(expr), scope)
        text = text[:m.start()] + new_scope + text[end:]
        pos = m.start()
    return text


def norm_common(text):
    """spelling variants with one meaning: `this->x`, null tests, the inverted guard `if (p) return p; throw E;`"""
    text = re.sub(r"\bthis\s*->\s*", "", text)
    text = re.sub(r"std::numeric_limits\s*<\s*(?:std::)?(?:size_t|size_type)\s*>\s*::\s*max\s*\(\s*\)", "size_type(-1)", text)
    V_ = r"([A-Za-z_][\w]*(?:(?:->|\.)\w+)*)"
    Z_ = r"(?:nullptr|NULL|0)"
    text = re.sub(r"\b(if|while)\s*\(\s*%s\s*==\s*%s\s*\)" % (V_, Z_), r"\1 (!\2)", text)
    text = re.sub(r"\b(if|while)\s*\(\s*%s\s*==\s*%s\s*\)" % (Z_, V_), r"\1 (!\2)", text)
    text = re.sub(r"\b(if|while)\s*\(\s*%s\s*!=\s*%s\s*\)" % (V_, Z_), r"\1 (\2)", text)
    text = re.sub(r"\b(if|while)\s*\(\s*%s\s*!=\s*%s\s*\)" % (Z_, V_), r"\1 (\2)", text)
    # if (p) return p; throw E;   ==   if (!p) throw E; return p;      (p a plain variable)
    text = re.sub(r"\bif\s*\(\s*(\w+)\s*\)\s*\{?\s*return\s+\1\s*;\s*\}?\s*(throw\s+[^;{}]+;)\s*$",
                  r"if (!\1) \2 return \1;", text.rstrip())
    return text


def alias_after_assign(text, target):
    """after `target = x;` with x a local pointer that is not written afterwards (and target neither), x names what
    target names: spell it `target` from there on"""
    m = re.search(NOTMEMBER + re.escape(target) + r"\s*=\s*([A-Za-z_]\w*)\s*;", text)
    if not m:
        return text
    x, rest = m.group(1), text[m.end():]
    if not re.search(r"\*\s*(?:const\s+)?%s\s*=" % re.escape(x), text[:m.start()]):
        return text
    if modified(x, rest) or modified(target, rest):
        return text
    return text[:m.end()] + rename(rest, {x: target}, merge=True)


def for_to_while(text):
    """`for (INIT; COND; STEP) BODY` -> `INIT; while (COND) { BODY STEP; }` for loops whose body has no `continue`
    (range-based loops are left alone)"""
    guard = 0
    while guard < 20:
        guard += 1
        m = None
        for c in re.finditer(r"\bfor\s*\(", text):
            close = matching_paren(text, c.end() - 1)
            parts = text[c.end():close - 1].split(";")
            if len(parts) == 3:
                m = (c, close, parts)
                break
        if not m:
            break
        c, close, (init, cond, step) = m
        rest = text[close:]
        lead = len(rest) - len(rest.lstrip())
        if rest.lstrip().startswith("{"):
            b0 = close + lead + 1
            b1 = scope_end(text, b0)
            body, after = text[b0:b1], text[b1 + 1:]
        else:
            st, j = parse_statement(rest, lead)
            body, after = rest[lead:j], rest[j:]
        if re.search(r"\bcontinue\b", body):
            break
        text = "%s%s while (%s) { %s %s }%s" % (text[:c.start()], (init.strip() + ";") if init.strip() else "", cond.strip() or "true",
                                               body.strip(), (step.strip() + ";") if step.strip() else "", after)
    return text


def parse_statement(text, i):
    """one statement starting at text[i:] -> (tree, end).  tree: ("block", [trees]) ("if", kw, cond, then, else|None)
    ("ret", expr) ("other", text)"""
    while i < len(text) and text[i].isspace():
        i += 1
    if text.startswith("{", i):
        end = scope_end(text, i + 1)
        inner, j, items = text[i + 1:end], 0, []
        while inner[j:].strip():
            t, j = parse_statement(inner, j)
            items.append(t)
        return ("block", items), end + 1
    m = re.match(r"if(\s+constexpr)?\s*\(", text[i:])
    if m:
        c0 = i + m.end() - 1
        c1 = matching_paren(text, c0)
        then, j = parse_statement(text, c1)
        e = re.match(r"\s*else\b", text[j:])
        if e:
            other, j = parse_statement(text, j + e.end())
            return ("if", m.group(1) or "", text[c0 + 1:c1 - 1].strip(), then, other), j
        return ("if", m.group(1) or "", text[c0 + 1:c1 - 1].strip(), then, None), j
    j = text.find(";", i)
    if j < 0:
        raise TranslateError("statement without `;`: %r" % text[i:i + 40])
    st = text[i:j].strip()
    if re.search(r"[{}]", st):
        raise TranslateError("statement not understood: %r" % st[:60])
    r = re.fullmatch(r"return\s+(.*)", st, re.S)
    return (("ret", r.group(1).strip()) if r else ("other", st)), j + 1


def return_tree(items):
    """a statement list all of whose paths end in `return E;` and do nothing else -> nested ("if", kw, c, T, T) / ("ret", E);
    the guard form `if (c) return a; return b;` is the same tree as `if (c) return a; else return b;`"""
    if not items:
        return None
    head, rest = items[0], items[1:]
    if head[0] == "block":
        return return_tree(head[1] + rest)
    if head[0] == "ret":
        return head if not rest else None
    if head[0] == "if":
        then = return_tree([head[3]])
        if then is None:
            return None
        other = return_tree([head[4]]) if head[4] is not None and not rest else (return_tree(rest) if head[4] is None else None)
        if other is None:
            return None
        return ("if", head[1], head[2], then, other)
    return None


def inline_helpers(body, class_src, exclude=()):
    """calls of member functions of the same class whose body is a pure decision tree over `return` statements are
    replaced by that tree at the call sites `T v = W(f(a));`, `v = W(f(a));`, `return W(f(a));` (W a side-effect-free
    wrapper such as a cast), a one-line helper `return E;` anywhere in an expression.  Arguments must be free of side
    effects, parameters are taken by value or const reference and are not written by the helper."""
    for _ in range(8):
        changed = False
        for c in re.finditer(r"(?<![\w.>:])([A-Za-z_]\w*)\s*\(", body):
            name = c.group(1)
            if name in KEYWORDS or name in PURE_CALLS or name in exclude:
                continue
            d = re.search(r"(?:static\s+|inline\s+|constexpr\s+)*[\w:]+(?:\s*<[^<>;(){}]*>)?[\s*&]+%s\s*\(([^()]*)\)\s*(?:const\s*)?(?:noexcept\s*)?\{"
                          % re.escape(name), class_src)
            if not d:
                continue
            hbody = drop_directives(block_after(class_src, d, "helper " + name))
            params = []
            for prm in split_args(d.group(1)):
                pm = re.fullmatch(r"(.*?)([A-Za-z_]\w*)", prm.strip(), re.S)
                if not pm or "=" in prm or ("&" in pm.group(1) and "const" not in pm.group(1)) or "[[" in prm:
                    params = None
                    break
                params.append(pm.group(2))
            if params is None:
                continue
            a1 = matching_paren(body, c.end() - 1)
            args = split_args(body[c.end():a1 - 1])
            if len(args) != len(params) or not all(side_effect_free(a) for a in args):
                continue
            try:
                hb = inline_locals(norm_common(hbody), unmodified_too=True)
                items, j = [], 0
                while hb[j:].strip():
                    t, j = parse_statement(hb, j)
                    items.append(t)
            except TranslateError:
                continue
            tree = return_tree(items)
            if tree is None or any(modified(p_, hb) for p_ in params):
                continue
            sub = {p_: (a if re.fullmatch(r"[\w:.>-]+", a) else "(" + a + ")") for p_, a in zip(params, args)}

            def inst(e):
                return re.sub(NOTMEMBER + r"(%s)\b" % "|".join(map(re.escape, sub)), lambda m_: sub[m_.group(1)], e) if sub else e

            if tree[0] == "ret":
                body = body[:c.start()] + atom(inst(tree[1])) + body[a1:]
                changed = True
                break
            # the statement the call sits in
            s0 = max(body.rfind(ch, 0, c.start()) for ch in ";{}") + 1
            s1 = body.find(";", a1)
            if s1 < 0:
                continue
            pre, post = body[s0:c.start()], body[a1:s1]
            f = (re.fullmatch(r"\s*(?:const\s+)?([\w:]+(?:\s*\*)?)\s+(?:const\s+)?([A-Za-z_]\w*)\s*=\s*(.*)", pre, re.S)
                 or re.fullmatch(r"\s*()([A-Za-z_]\w*)\s*=(?!=)\s*(.*)", pre, re.S)
                 or re.fullmatch(r"\s*()(return)\s+(.*)", pre, re.S))
            if not f or f.group(1) in ("return", "else") or not side_effect_free(f.group(3) + " 0 " + post) \
                    or re.search(r"[;{}]", post):
                continue
            lhs = "return " if f.group(2) == "return" else f.group(2) + " = "

            def emit(t):
                if t[0] == "ret":
                    return "%s%s%s%s;" % (lhs, f.group(3), atom(inst(t[1])), post)
                a, b = emit(t[3]), emit(t[4])
                a = a if t[3][0] == "ret" else "{ " + a + " }"
                b = b if t[4][0] == "ret" else "{ " + b + " }"
                return "if%s (%s) %s else %s" % (t[1], inst(t[2]), a, b)
            declp = "%s %s; " % (f.group(1), f.group(2)) if f.group(1) else ""
            body = body[:s0] + " " + declp + emit(tree) + body[s1 + 1:]
            changed = True
            break
        if not changed:
            break
    return body


def return_expr(body, what):
    """a function body that only selects between return expressions (const locals, if/else, guard clauses) -> one
    C expression text"""
    b = inline_locals(norm_common(body), unmodified_too=True)
    items, j = [], 0
    while b[j:].strip():
        t, j = parse_statement(b, j)
        items.append(t)
    tree = return_tree(items)
    if tree is None:
        raise TranslateError("%s: the body is not a selection between return expressions" % what)

    def ex(t):
        return "(%s)" % t[1] if t[0] == "ret" else "((%s) ? %s : %s)" % (t[2], ex(t[3]), ex(t[4]))
    return ex(tree)


def limit_test(body, var, env, sizeof):
    """the request bound: `if (n > E) throw std::bad_alloc();` in any of its spellings (`E < n`, `!(n <= E)`, `!(E >= n)`,
    braces) -> AST of E, or None when the body has no such test"""
    for m in re.finditer(r"\bif\s*\(", body):
        c1 = matching_paren(body, m.end() - 1)
        if not re.match(r"\s*\{?\s*throw\s+std::bad_alloc\s*\(\s*\)\s*;", body[c1:]):
            continue
        try:
            ast = Parser(body[m.end():c1 - 1], env, sizeof, {}).parse()
        except TranslateError:
            continue
        neg = False
        while ast[0] == "not":
            neg, ast = not neg, ast[1]
        if ast[0] != "cmp":
            continue
        op, a, b = ast[1], ast[2], ast[3]
        if neg:
            op = {"<": ">=", "<=": ">", ">": "<=", ">=": "<", "==": "!=", "!=": "=="}[op]
        if op == "<":
            op, a, b = ">", b, a
        if op == ">" and a == ("var",) + tuple(env[var]):
            return b
    return None


# ------------------------------------------------------------------------------------------------
def pool_grid():
    for sz in list(range(1, 131)) + [255, 256, 1000]:
        for al in (1, 2, 4, 8, 16, 32, 64, 128):
            for s in sorted({0, 1, 2, 7, 8, 9, 15, 16, 17, 31, 33, 63, 64, 65, 100, 127, 128, 129, 255, 256, 257, 1000, 4096,
                             sz - 1, sz, sz + 1, 2 * sz, 2 * sz + 1, 7 * sz, 10 * sz + 3}):
                yield (sz, al, s)


def count_grid():
    M = 2 ** 64 - 1
    for sz in list(range(1, 131)) + [255, 256, 4096]:
        for n in (0, 1, 2, 3, 7, 100, 4096, M // sz - 1, M // sz, M // sz + 1, 2 ** 63, M, M // 2, 2 ** 61 + 1, 2 ** 32 + 1):
            yield (sz, n)


def page_grid():
    for page in (4096, 16384, 65536):
        for k in range(0, 4):
            for d in (0, 1, 2, 7, 8, 100, page // 2, page - 8, page - 1):
                yield (k * page + d, page)
        for cap in (2 ** 40, 2 ** 40 + 1, 2 ** 63, 2 ** 64 - 3 * page, 2 ** 64 - 2 * page - 1):
            yield (cap, page)


def limit_grid():
    for page in (4096, 16384, 65536):
        for sz in list(range(1, 131)) + [256, 4096]:
            yield (sz, page)


def translate(repo):
    out = ["-- GENERATED by tools/translators/tr_c15.py from dune/common/{poolallocator,mallocallocator,alignedallocator,"
           "debugallocator}.hh -- do not edit",
           "set_option linter.unusedVariables false",
           "namespace DV.C15.Gen",
           "/-- target assumptions (LP64): sizeof/alignof of `Pool::Reference` (one pointer), largest `std::size_t` -/",
           "def refSize : Nat := 8",
           "def refAlign : Nat := 8",
           "def sizeMax : Nat := 18446744073709551615",
           "/-- alignof(std::max_align_t): what malloc guarantees -/",
           "def maxAlign : Nat := 16",
           "/-- reduction of a `std::size_t` result -/",
           "def wrap (x : Nat) : Nat := x % 18446744073709551616",
           ""]
    D = Defs(out)

    # ---- Pool geometry ------------------------------------------------------------------------
    src = strip_comments(open(os.path.join(repo, "dune/common/poolallocator.hh")).read())
    pool_at = find(r"class\s+Pool\s*\{", src, "class Pool").start()
    pa_at = find(r"class\s+PoolAllocator\s*\{", src, "class PoolAllocator").start()
    pool_src, pa_src = src[pool_at:pa_at], src[pa_at:]
    if not re.search(r"struct\s+Reference\s*\{\s*Reference\s*\*\s*next_\s*;\s*\}\s*;", pool_src):
        raise TranslateError("Pool::Reference is no longer a single pointer")
    sizeof = {"MemberType": ("sz", "sz"), "T": ("sz", "sz"), "Reference": ("refSize", "refSize")}
    alignof = {"MemberType": ("al", "al"), "T": ("al", "al"), "Reference": ("refAlign", "refAlign")}
    env = {"s": ("s", "s")}
    canon = {
        "unionSize": "(sizeof(MemberType) < sizeof(Reference)) ? sizeof(Reference) : sizeof(MemberType)",
        "size": "(sizeof(MemberType) <= s && sizeof(Reference) <= s) ? s : unionSize",
        "alignment": "std::lcm(alignof(MemberType), alignof(Reference))",
        "alignedSize": "(unionSize % alignment == 0) ? unionSize : ((unionSize / alignment + 1) * alignment)",
        "chunkSize": "(size % alignment == 0) ? size : ((size / alignment + 1)* alignment)",
        "elements": "(chunkSize / alignedSize)",
    }
    out.append("/-! Pool<T,s>: compile-time slot geometry as functions of sz = sizeof(T), al = alignof(T), s -/")
    for name in ("unionSize", "size", "alignment", "alignedSize", "chunkSize", "elements"):
        m = find(r"(?:constexpr\s+static|static\s+constexpr|static\s+const|const\s+static)\s+(?:const\s+)?(?:int|std::size_t|size_t|unsigned)\s+%s\s*=\s*([^;]+);" % name, pool_src,
                 "Pool::" + name)
        D.add(name, ("sz", "al", "s"), m.group(1), canon[name], env, sizeof, alignof, grid=pool_grid)
        env[name] = ("(%s sz al s)" % name, "fn:" + name)
    # the chunk really has chunkSize bytes aligned to `alignment`
    if not re.search(r"alignas\s*\(\s*alignment\s*\)\s*char\s+chunk_\s*\[\s*chunkSize\s*\]\s*;", pool_src):
        raise TranslateError("Pool::Chunk::chunk_ is no longer `alignas(alignment) char chunk_[chunkSize]`")
    # Pool::grow: which byte offsets of the new chunk's storage the loop threads onto the free list behind slot 0:
    # for (e = growFirst; e < growEnd; e += growStep).  Two spellings are understood: the pointer loop
    # `for(char* element=start+F; element<last; element=element+S)` with `last = &start[E]` (or `start + E`), and the
    # index loop `for (… i = I; i < N; ++i)` whose body addresses `start + i*S` / `&start[i*S]`.
    gm = find(r"Pool<T,S>::grow\s*\(\s*\)\s*\{", src, "Pool::grow")
    geo_names = ("unionSize", "size", "alignment", "alignedSize", "chunkSize", "elements")
    gbody = alias_after_assign(norm_common(block_after(src, gm, "Pool::grow")), "chunks_")
    gbody = inline_locals(gbody, keep=("last",), int_names=geo_names)
    # the locals by their role: start of the chunk's storage, tail of the list being built, one-past pointer, new slot
    roles = {}
    am_ = re.search(r"(?:char\s*\*|auto\s*\*?)\s*(?:const\s+)?(\w+)\s*=\s*(?:chunks_->chunk_|&\s*chunks_->chunk_\s*\[\s*0\s*\])\s*;", gbody)
    if not am_:
        raise TranslateError("Pool::grow: `char* start = chunks_->chunk_;` not found")
    roles[am_.group(1)] = "start"
    S_ = re.escape(am_.group(1))
    for rm_ in re.finditer(r"(?:Reference\s*\*|auto\s*\*?)\s*(?:const\s+)?(\w+)\s*=\s*new\s*\(([^;]*?)\)\s*\(?\s*Reference\s*\)?\s*;", gbody):
        roles.setdefault(rm_.group(1), "ref" if re.fullmatch(S_, rm_.group(2).strip()) else "next")
    lm0 = re.search(r"char\s*\*\s*(?:const\s+)?(\w+)\s*=\s*(?:&\s*%s\s*\[|%s\s*\+)" % (S_, S_), gbody)
    if lm0:
        roles.setdefault(lm0.group(1), "last")
    if sorted(roles.values()) not in (["last", "next", "ref", "start"], ["next", "ref", "start"]):
        raise TranslateError("Pool::grow: locals not understood: %r" % roles)
    gbody = rename(gbody, roles)
    gbody = re.sub(r"(\*\s*)const\s+(start|ref|last|next)\b", r"\1\2", gbody)
    if not re.search(r"Reference\s*\*\s*ref\s*=\s*new\s*\(\s*start\s*\)\s*\(?\s*Reference\s*\)?\s*;", gbody) or \
            not re.search(r"head_\s*=\s*ref\s*;", gbody):
        raise TranslateError("Pool::grow: slot 0 (`ref = new (start) Reference; head_ = ref;`) not understood")
    genv = dict(env)
    ptr_loop = re.search(r"for\s*\(\s*char\s*\*\s*(\w+)\s*=\s*start\s*\+\s*([^;]+?)\s*;\s*\1\s*(<=?)\s*last\s*;\s*"
                         r"\1\s*(?:=\s*\1\s*\+|\+=)\s*([^;)]+?)\s*\)", gbody)
    idx_loop = re.search(r"for\s*\(\s*(?:std::size_t|size_t|int|unsigned|unsigned\s+int|long)\s+(\w+)\s*=\s*([^;]+?)\s*;\s*\1\s*<\s*([^;]+?)\s*;\s*"
                         r"(?:\+\+\s*\1|\1\s*\+\+)\s*\)", gbody)
    if not ptr_loop and not idx_loop:
        wl = re.search(r"char\s*\*\s*(\w+)\s*=\s*start\s*\+\s*([^;]+?)\s*;\s*while\s*\(\s*\1\s*(<=?)\s*last\s*\)\s*\{([^{}]*?)"
                       r"\1\s*(?:=\s*\1\s*\+|\+=)\s*([^;)]+?)\s*;\s*\}", gbody)
        if wl and not re.search(r"\bcontinue\b", wl.group(4)) and not modified(wl.group(1), wl.group(4)):
            gbody = gbody[:wl.start()] + "for(char* %s=start+%s; %s%slast; %s=%s+%s) {%s}" % (
                wl.group(1), wl.group(2), wl.group(1), wl.group(3), wl.group(1), wl.group(1), wl.group(5), wl.group(4)) + gbody[wl.end():]
            ptr_loop = re.search(r"for\s*\(\s*char\s*\*\s*(\w+)\s*=\s*start\s*\+\s*([^;]+?)\s*;\s*\1\s*(<=?)\s*last\s*;\s*"
                                 r"\1\s*(?:=\s*\1\s*\+|\+=)\s*([^;)]+?)\s*\)", gbody)
    if ptr_loop:
        lm_ = re.search(r"char\s*\*\s*last\s*=\s*(?:&\s*start\s*\[([^;]+)\]|start\s*\+\s*([^;]+))\s*;", gbody)
        if not lm_:
            raise TranslateError("Pool::grow: `last` not understood")
        g_first, g_step, g_end = ptr_loop.group(2), ptr_loop.group(4), (lm_.group(1) or lm_.group(2))
        if ptr_loop.group(3) == "<=":
            g_end = "(%s) + 1" % g_end
    elif idx_loop:
        iv = idx_loop.group(1)
        am = re.search(r"(?:&\s*start\s*\[\s*%s\s*\*\s*([^\]]+?)\s*\]|start\s*\+\s*%s\s*\*\s*([^;)]+?)\s*[;)]"
                       r"|&\s*start\s*\[\s*([^\]*]+?)\s*\*\s*%s\s*\]|start\s*\+\s*([^;)*]+?)\s*\*\s*%s\s*[;)])" % (iv, iv, iv, iv), gbody)
        if not am:
            raise TranslateError("Pool::grow: index loop body does not address `start + i*stride`")
        stride = (am.group(1) or am.group(2) or am.group(3) or am.group(4)).strip()
        g_first = "(%s) * (%s)" % (idx_loop.group(2), stride)
        g_step = stride
        g_end = "(%s) * (%s)" % (idx_loop.group(3), stride)
    else:
        raise TranslateError("Pool::grow: loop over the slots not understood")
    if not re.search(r"ref->next_\s*=\s*next\s*;\s*ref\s*=\s*next\s*;", gbody) or \
            not re.search(r"\}\s*ref->next_\s*=\s*(?:0|nullptr)\s*;\s*$", gbody.strip()):
        raise TranslateError("Pool::grow: threading of the slots (`ref->next_ = next; ref = next;` … `ref->next_ = 0;`) not understood")
    out.append("/-- Pool::grow threads the slots at the byte offsets growFirst, growFirst + growStep, … below growEnd behind slot 0 -/")
    D.add("growFirst", ("sz", "al", "s"), g_first, "alignedSize", genv, sizeof, alignof, grid=pool_grid)
    D.add("growStep", ("sz", "al", "s"), g_step, "alignedSize", genv, sizeof, alignof, grid=pool_grid)
    D.add("growEnd", ("sz", "al", "s"), g_end, "elements*alignedSize", genv, sizeof, alignof, grid=pool_grid)
    # Pool::free: the range test of the search over the chunks (present without NDEBUG), with the chunk's storage
    # starting at address `base`: the condition under which the walk stops at a chunk
    fm = find(r"Pool<T,S>::free\s*\(\s*void\s*\*\s*(?:const\s+)?(\w+)\s*\)\s*\{", src, "Pool::free")
    fbody = norm_common(block_after(src, fm, "Pool::free"))
    froles = {fm.group(1): "b"}
    for rx_, role in ((r"Chunk\s*\*\s*(\w+)\s*(?:=\s*chunks_\s*)?;", "current"),
                      (r"(?:Reference\s*\*|auto\s*\*?)\s*(?:const\s+)?(\w+)\s*=\s*static_cast\s*<\s*Reference\s*\*\s*>", "freed")):
        m_ = re.search(rx_, fbody)
        if m_:
            froles[m_.group(1)] = role
    fbody = rename(fbody, froles)
    fbody = re.sub(r"(\*\s*)const\s+(freed)\b", r"\1\2", fbody)
    dbg = re.search(r"#\s*(?:ifndef\s+NDEBUG|if\s*!\s*defined\s*\(?\s*NDEBUG\s*\)?)(.*?)#\s*endif", fbody, re.S)
    if not dbg:
        raise TranslateError("Pool::free: no `#ifndef NDEBUG … #endif` block with the range test")
    # the walk over the chunks in its `while` form (a classic `for` loop is rewritten; locals of the range test inlined)
    walk = inline_locals(norm_common(for_to_while(dbg.group(1))), unmodified_too=True,
                         pointer_types=(r"(?:const\s+)?(?:char|void)\s*\*",))
    walk = re.sub(r"Chunk\s*\*\s*current\s*;\s*current\s*=\s*chunks_\s*;", "Chunk* current=chunks_;", walk)
    if not re.search(r"Chunk\s*\*\s*current\s*=\s*chunks_\s*;\s*while", walk):
        raise TranslateError("Pool::free: the search does not start at chunks_")
    cm = re.search(r"while\s*\(\s*current\s*\)\s*\{\s*if\s*\(((?:[^{};])*?)\)\s*\{?\s*break\s*;\s*\}?\s*current\s*=\s*current->next_\s*;\s*\}\s*"
                   r"if\s*\(\s*!\s*current\s*\)\s*\{?\s*throw\s+std::bad_alloc\s*\(\s*\)\s*;", walk, re.S)
    if not cm:
        raise TranslateError("Pool::free: search over the chunks not understood")
    cond = cm.group(1)
    cond = re.sub(r"static_cast\s*<\s*(?:const\s+)?(?:void|char)\s*\*\s*>", "", cond)
    cond = re.sub(r"current->chunk_", "base", cond)
    out.append("/-- Pool::free (without NDEBUG): a chunk whose storage starts at `base` stops the search for address `b` -/")
    grid_f = lambda: ((ba, ba + d, cs) for ba in (64, 4096) for cs in (8, 24, 48, 4096) for d in (-1, 0, 1, 7, cs - 1, cs, cs + 1))
    D.add("poolFreeInRange", ("base", "b", "chunkSize"), cond, "(base)<=b && (base+chunkSize)>b",
          {"base": ("base", "base"), "b": ("b", "b"), "chunkSize": ("chunkSize", "chunkSize")}, grid=grid_f, prop=True)
    rest = fbody[dbg.end():]
    if not re.search(r"freed->next_\s*=\s*head_\s*;\s*head_\s*=\s*freed\s*;", rest):
        raise TranslateError("Pool::free: `freed->next_ = head_; head_ = freed;` not found behind the range test")
    out.append("")
    out.append("/-! PoolAllocator<T,s> -/")
    m = find(r"(?:constexpr\s+static|static\s+constexpr|static\s+const|const\s+static)\s+(?:const\s+)?(?:int|std::size_t|size_t)\s+size\s*=\s*([^;]+);", pa_src, "PoolAllocator::size")
    D.add("paPoolSize", ("sz", "s"), m.group(1), "s * sizeof(value_type)", {"s": ("s", "s")},
          {"value_type": ("sz", "sz"), "T": ("sz", "sz")}, grid=lambda: ((a, c) for (a, b, c) in pool_grid() if b == 1))
    if not re.search(r"typedef\s+Pool\s*<\s*T\s*,\s*size\s*>\s*PoolType\s*;", pa_src):
        raise TranslateError("PoolAllocator::PoolType is no longer Pool<T,size>")
    m = find(r"PoolAllocator<T,s>::allocate\s*\(\s*(?:const\s+)?(?:std::size_t|size_t|size_type)\s+(\w+)[^)]*\)\s*\{", src,
             "PoolAllocator::allocate")
    pbody = nows(rename(norm_common(block_after(src, m, "PoolAllocator::allocate")), {m.group(1): "n"}))
    ret = r"returnstatic_cast<(?:T\*|pointer)>\(memoryPool_\.allocate\(\)\);"
    thr = r"throwstd::bad_alloc\(\);"
    m1 = re.fullmatch(r"if\((.*?)\)\{?%s\}?(?:else)?\{?%s\}?" % (ret, thr), pbody)
    m2 = re.fullmatch(r"if\((.*?)\)\{?%s\}?(?:else)?\{?%s\}?" % (thr, ret), pbody)
    m3 = re.fullmatch(r"return\(?(.*?)\)?\?static_cast<(?:T\*|pointer)>\(memoryPool_\.allocate\(\)\):throwstd::bad_alloc\(\);", pbody)
    m1 = m1 or m3
    grid1 = lambda: ((n,) for n in (0, 1, 2, 3, 2 ** 32, 2 ** 32 + 1, 2 ** 63, 2 ** 64 - 1))
    if m1:
        D.add("paAccepts", ("n",), m1.group(1), "n==1", {"n": ("n", "n")}, prop=True, grid=grid1)
    elif m2:
        D.add("paAccepts", ("n",), "!(" + m2.group(1) + ")", "n==1", {"n": ("n", "n")}, prop=True, grid=grid1)
    else:
        raise TranslateError("PoolAllocator::allocate body not understood: %r" % pbody)
    m = find(r"(?:int|size_type|std::size_t)\s+max_size\s*\(\s*\)\s*const\s*(?:noexcept)?\s*\{", pa_src, "PoolAllocator::max_size")
    D.add("paMaxSize", (), return_expr(block_after(pa_src, m, "PoolAllocator::max_size"), "PoolAllocator::max_size"), "1", {},
          grid=lambda: [()])
    # deallocate(p, n) gives back n consecutive objects, one pool.free each
    dm = find(r"PoolAllocator<T,s>::deallocate\s*\(\s*(?:pointer|T\s*\*)\s*(\w+)\s*,\s*(?:std::size_t|size_t|size_type)\s+(\w+)\s*\)\s*\{",
              src, "PoolAllocator::deallocate")
    dtext = rename(norm_common(block_after(src, dm, "PoolAllocator::deallocate")), {dm.group(1): "p", dm.group(2): "n"})
    dtext = inline_locals(dtext, unmodified_too=True, pointer_types=(r"(?:const\s+)?(?:pointer|T\s*\*)",))
    dbody_pa = nows(dtext)
    U_ = r"(?:size_t|std::size_t|size_type|unsignedlong|unsigned|unsignedint)"
    # spellings of "pool.free on p, p+1, …, p+n-1 in this order, nothing else"
    forms = [r"for\(%s(\w+)=0;\1(?:<|!=)n;(?:\1\+\+|\+\+\1)\)\{?memoryPool_\.free\(p\+\+\);\}?" % U_,
             r"for\(%s(\w+)=0;\1(?:<|!=)n;(?:\1\+\+|\+\+\1)\)\{?memoryPool_\.free\((?:p\+\1|&p\[\1\])\);\}?" % U_,
             r"while\(n--(?:>0|!=0)?\)\{?memoryPool_\.free\(p\+\+\);\}?",
             r"for\(;n(?:>0|!=0)?;(?:--n|n--)\)\{?memoryPool_\.free\(p\+\+\);\}?",
             r"while\(n(?:>0|!=0)?\)\{memoryPool_\.free\(p\+\+\);(?:--n|n--);\}",
             r"for\((?:pointer|T\*|auto)(\w+)=p;\1(?:!=|<)\(?p\+n\)?;(?:\1\+\+|\+\+\1)\)\{?memoryPool_\.free\(\1\);\}?"]
    if not any(re.fullmatch(f_, dbody_pa) for f_ in forms):
        raise TranslateError("PoolAllocator::deallocate body not understood: %r" % dbody_pa)
    out.append("/-- deallocate(p, n) calls pool.free this many times (on p, p+1, …) -/")
    out.append("def paDeallocFrees (n : Nat) : Nat := n")
    out.append("")

    # ---- MallocAllocator ----------------------------------------------------------------------
    src = drop_foreign_branches(strip_comments(open(os.path.join(repo, "dune/common/mallocallocator.hh")).read()))
    out.append("/-! MallocAllocator<T> -/")
    szT = {"T": ("sz", "sz"), "value_type": ("sz", "sz")}
    m = find(r"size_type\s+max_size\s*\(\s*\)\s*const\s*(?:noexcept)?\s*\{", src, "MallocAllocator::max_size")
    D.add("mallocMaxSize", ("sz",), return_expr(block_after(src, m, "MallocAllocator::max_size"), "MallocAllocator::max_size"),
          "size_type(-1) / sizeof(T)", {}, szT,
          grid=lambda: ((a,) for a in range(1, 4100)))
    am_ = find(r"pointer\s+allocate\s*\(\s*(?:const\s+)?size_type\s+(\w+)[^)]*\)\s*\{", src, "MallocAllocator::allocate")
    body = drop_directives(block_after(src, am_, "MallocAllocator::allocate"))
    # private helpers of the class are expanded at their call sites, then the locals are named by role
    body = norm_common(inline_helpers(norm_common(body), src, exclude=("allocate",)))
    mroles = {am_.group(1): "n"}
    rm_ = re.search(r"return\s+(\w+)\s*;\s*$", body.strip())
    if rm_:
        mroles[rm_.group(1)] = "ret"
    body = rename(body, mroles)
    body = inline_locals(body, keep=("ret",), unmodified_too=True)
    limit_def(D, out, "mallocLimit", ("sz",), body, "MallocAllocator")
    calls = re.findall(r"std::malloc\s*\(([^;]*)\)\s*\)\s*;", body)
    if len(calls) != 1:
        raise TranslateError("MallocAllocator::allocate: expected exactly one std::malloc call, found %d" % len(calls))
    D.add("mallocBytes", ("sz", "n"), calls[0], "n * sizeof(T)", {"n": ("n", "n")}, szT, grid=count_grid, wrap=True)
    # over-aligned types: `if constexpr (alignof(T) > alignof(std::max_align_t)) ret = …aligned_alloc(alignof(T), BYTES)…; else`
    over = re.search(r"if\s+constexpr\s*\(([^;{}]*?)\)\s*\{?\s*ret\s*=\s*static_cast<pointer>\s*\(\s*std::aligned_alloc\s*\("
                     r"([^;,]*),([^;]*)\)\s*\)\s*;\s*\}?\s*else\s*\{?\s*ret\s*=\s*static_cast<pointer>\s*\(\s*std::malloc", body)
    if "aligned_alloc" in body and not over:
        raise TranslateError("MallocAllocator::allocate: aligned_alloc used in a way the translator does not understand")
    alT = {"T": ("al", "al"), "value_type": ("al", "al"), "std::max_align_t": ("maxAlign", "maxAlign")}
    out.append("/-- the alignment the C library guarantees for the call `allocate` makes: malloc gives maxAlign, the over-aligned")
    out.append("    branch (if the source has one) calls aligned_alloc with the alignment below -/")
    if over:
        D.add("mallocOverCond", ("al",), over.group(1), "alignof(T) > alignof(std::max_align_t)", {}, {}, alT,
              grid=lambda: ((a,) for a in (1, 2, 4, 8, 16, 32, 64, 128, 256, 4096)), prop=True)
        D.add("mallocOverAlign", ("al",), over.group(2), "alignof(T)", {}, {}, alT,
              grid=lambda: ((a,) for a in (1, 2, 4, 8, 16, 32, 64, 128, 256, 4096)))
        D.add("mallocOverBytes", ("sz", "n"), over.group(3), "n * sizeof(T)", {"n": ("n", "n")}, szT, grid=count_grid, wrap=True)
    else:
        out.append("-- the source has no branch for over-aligned types: every request goes to malloc")
        out.append("def mallocOverCond (al : Nat) : Bool := false")
        out.append("def mallocOverAlign (al : Nat) : Nat := al")
        out.append("def mallocOverBytes (sz n : Nat) : Nat := mallocBytes sz n")
    out.append("def mallocAlignment (al : Nat) : Nat := if mallocOverCond al then mallocOverAlign al else maxAlign")
    out.append("def mallocBytesFor (sz al n : Nat) : Nat := if mallocOverCond al then mallocOverBytes sz n else mallocBytes sz n")
    if not re.search(r"if\s*\(\s*!\s*ret\s*\)\s*\{?\s*throw\s+std::bad_alloc", body):
        raise TranslateError("MallocAllocator::allocate no longer turns a null result into bad_alloc")
    if not re.search(r"void\s+deallocate\s*\(\s*pointer\s+(\w+)\s*,[^)]*\)\s*\{\s*(?:std::)?free\s*\(\s*\1\s*\)\s*;\s*\}", src):
        raise TranslateError("MallocAllocator::deallocate is no longer std::free(p)")
    out.append("")

    # ---- AlignedAllocator ---------------------------------------------------------------------
    src = drop_foreign_branches(strip_comments(open(os.path.join(repo, "dune/common/alignedallocator.hh")).read()))
    out.append("/-! AlignedAllocator<T,Alignment>  (A = 0 encodes the default Alignment = -1) -/")
    m = find(r"fixAlignment\s*\(\s*int\s+align\s*\)\s*\{\s*return\s+([^;]+);\s*\}", src, "AlignedAllocator::fixAlignment")
    fx = nows(m.group(1))
    if fx not in ("(Alignment==-1)?std::alignment_of<T>::value:Alignment", "(Alignment==-1)?alignof(T):Alignment",
                  "Alignment==-1?std::alignment_of<T>::value:Alignment", "Alignment==-1?alignof(T):Alignment",
                  "(Alignment==-1)?std::alignment_of_v<T>:Alignment"):
        raise TranslateError("fixAlignment changed: %r" % fx)
    find(r"alignment\s*=\s*fixAlignment\s*\(", src, "AlignedAllocator::alignment")
    out.append("def alignedAlignment (al A : Nat) : Nat := if A = 0 then al else A")
    am_ = find(r"pointer\s+allocate\s*\(\s*(?:const\s+)?size_type\s+(\w+)[^)]*\)\s*\{", src, "AlignedAllocator::allocate")
    body = norm_common(inline_helpers(norm_common(drop_directives(block_after(src, am_, "AlignedAllocator::allocate"))), src,
                                      exclude=("allocate", "fixAlignment")))
    aroles = {am_.group(1): "n"}
    rm_ = re.search(r"return\s+(\w+)\s*;\s*$", body.strip())
    if rm_:
        aroles[rm_.group(1)] = "ret"
    body = rename(body, aroles)
    # the byte count is read off the call itself: a local holding it (`size_type size = …`) is inlined first
    body = inline_locals(body, keep=("ret",), unmodified_too=True)
    limit_def(D, out, "alignedLimit", ("sz",), body, "AlignedAllocator")
    calls = re.findall(r"std::aligned_alloc\s*\(\s*alignment\s*,([^;]*)\)\s*\)\s*;", body)
    if len(calls) != 1 or len(re.findall(r"aligned_alloc|malloc", body)) != 1:
        raise TranslateError("AlignedAllocator no longer makes exactly the one call std::aligned_alloc(alignment, <bytes>)")
    D.add("alignedBytes", ("sz", "n"), calls[0], "n * sizeof(T)", {"n": ("n", "n")}, szT, grid=count_grid, wrap=True)
    if not re.search(r"pointer\s+ret\s*=\s*static_cast\s*<\s*pointer\s*>\s*\(\s*std::aligned_alloc", body):
        raise TranslateError("AlignedAllocator: the result of std::aligned_alloc is not what is tested and returned")
    if not re.search(r"if\s*\(\s*!\s*ret\s*\)\s*\{?\s*throw\s+std::bad_alloc", body):
        raise TranslateError("AlignedAllocator::allocate no longer turns a null result into bad_alloc")
    out.append("")

    # ---- DebugAllocator -----------------------------------------------------------------------
    src = drop_foreign_branches(strip_comments(open(os.path.join(repo, "dune/common/debugallocator.hh")).read()))
    out.append("/-! DebugMemory::AllocationManager: page arithmetic (page = page_size) -/")
    am_ = find(r"T\s*\*\s*allocate\s*\(\s*(?:const\s+)?size_type\s+(\w+)\s*\)\s*\{", src, "AllocationManager::allocate")
    body = norm_common(block_after(src, am_, "AllocationManager::allocate"))
    droles = {am_.group(1): "n"}
    m_ = re.search(r"AllocationInfo\s+(\w+)\s*[;({]", body)
    if m_:
        droles[m_.group(1)] = "ai"
    body = rename(body, droles)
    # locals other than `overlap` (an anchor: dbgOverlap) that merely name a side-effect-free value are inlined
    body = inline_locals(body, keep=("overlap",), pointer_types=(r"char\s*\*",))
    body = re.sub(r"if\s*\(\s*ai\.page_ptr\s*==\s*MAP_FAILED\s*\)", "if (MAP_FAILED == ai.page_ptr)", body)
    body = re.sub(r"\bmmap\s*\(\s*(?:nullptr|0)\s*,", "mmap(NULL,", body)
    find(r"return\s+static_cast<T\*>\s*\(\s*ai\.ptr\s*\)\s*;", body, "AllocationManager::allocate returns ai.ptr")
    chk = limit_test(body, "n", {"page_size": ("page", "page"), "n": ("n", "n")}, szT)
    out.append("/-- `some m`: requests with n > m are refused before anything is computed; `none`: no such test -/")
    if chk:
        D.add("dbgMaxCount", ("sz", "page"), chk, "(size_type(-1) - 2 * page_size) / sizeof(T)",
              {"page_size": ("page", "page")}, szT, grid=limit_grid)
        out.append("def dbgLimit (sz page : Nat) : Option Nat := some (dbgMaxCount sz page)")
    else:
        out.append("def dbgLimit (sz page : Nat) : Option Nat := none")
    m = find(r"ai\.capacity\s*=\s*([^;]+);", body, "ai.capacity")
    D.add("dbgCapacity", ("sz", "n"), m.group(1), "n * sizeof(T)", {"n": ("n", "n")}, szT, grid=count_grid, wrap=True)
    env = {"ai.capacity": ("cap", "cap"), "page_size": ("page", "page")}
    m = find(r"size_type\s+overlap\s*=\s*([^;]+);", body, "overlap")
    D.add("dbgOverlap", ("cap", "page"), m.group(1), "ai.capacity % page_size", env, grid=page_grid)
    env["overlap"] = ("(dbgOverlap cap page)", "fn:dbgOverlap")
    m = find(r"ai\.pages\s*=\s*([^;]+);", body, "ai.pages")
    D.add("dbgPages", ("cap", "page"), m.group(1), "(ai.capacity) / page_size + (overlap ? 2 : 1)", env, grid=page_grid)
    env["ai.pages"] = ("(dbgPages cap page)", "fn:dbgPages")
    m = find(r"mmap\s*\(\s*NULL\s*,\s*([^,]+),\s*PROT_READ\s*\|\s*PROT_WRITE\s*,", body, "mmap length")
    D.add("dbgMapLen", ("cap", "page"), m.group(1), "ai.pages * page_size", env, grid=page_grid, wrap=True)
    if not re.search(r"if\s*\(\s*MAP_FAILED\s*==\s*ai\.page_ptr\s*\)\s*\{?\s*throw\s+std::bad_alloc", body):
        raise TranslateError("a failed mmap is no longer reported as bad_alloc")
    m = find(r"ai\.ptr\s*=\s*static_cast<char\*>\s*\(\s*ai\.page_ptr\s*\)\s*\+\s*([^;]+);", body, "ai.ptr")
    out.append("/-- the block starts at page_ptr + dbgPtrOff -/")
    D.add("dbgPtrOff", ("cap", "page"), "(" + m.group(1) + ")", "(overlap ? page_size - overlap : 0)", env, grid=page_grid)
    m = find(r"memprotect\s*\(\s*static_cast<char\*>\s*\(\s*ai\.page_ptr\s*\)\s*\+\s*(.+?),\s*page_size\s*,\s*PROT_NONE\s*\)\s*;",
             body, "guard page protection")
    out.append("/-- the inaccessible guard page is [page_ptr + dbgGuardOff, page_ptr + dbgGuardOff + page) -/")
    D.add("dbgGuardOff", ("cap", "page"), "(" + m.group(1) + ")", "(ai.pages-1) * page_size", env, grid=page_grid)
    dm_ = find(r"void\s+deallocate\s*\(\s*T\s*\*\s*(?:const\s+)?(\w+)\s*,\s*(?:const\s+)?size_type\s+(\w+)\s*=\s*0\s*\)\s*(?:noexcept)?\s*\{",
               src, "AllocationManager::deallocate")
    dbody = norm_common(block_after(src, dm_, "AllocationManager::deallocate"))
    # parameters, the lookup key and the iterator by their role
    km_ = find(r"(?:void\s*\*|auto\s*\*?)\s*(?:const\s+)?(\w+)\s*=\s*static_cast<void\*>\s*\(", dbody, "deallocate lookup key")
    K_ = re.escape(km_.group(1))
    fi = re.search(r"(?:auto|AllocationList::iterator)\s+(\w+)\s*=\s*std::find_if\s*\(\s*allocation_list\.begin\s*\(\s*\)\s*,\s*"
                   r"allocation_list\.end\s*\(\s*\)\s*,\s*\[[^\]]*\]\s*\(\s*(?:const\s+)?(?:AllocationInfo|auto)\s*&\s*(\w+)\s*\)\s*"
                   r"\{\s*return\s+(?:\2\.page_ptr\s*==\s*%s|%s\s*==\s*\2\.page_ptr)\s*;\s*\}\s*\)\s*;\s*"
                   r"if\s*\(\s*(?:\1\s*==\s*allocation_list\.end\s*\(\s*\)|allocation_list\.end\s*\(\s*\)\s*==\s*\1)\s*\)\s*\{?\s*"
                   r"(allocation_error\s*\([^;]*\)\s*;)\s*\}?" % (K_, K_), dbody)
    try:
        cc_ = strip_comments(open(os.path.join(repo, "dune/common/debugallocator.cc")).read())
        aborts = bool(re.search(r"AllocationManager::allocation_error\s*\([^)]*\)\s*\{[^{}]*std::abort\s*\(\s*\)\s*;\s*\}", cc_))
    except OSError:
        aborts = False
    if fi and aborts and not reassigned(fi.group(1), dbody[fi.end():].replace("allocation_list.erase(%s)" % fi.group(1), "")):
        # std::find_if returns the first entry that satisfies the predicate: the hand-written loop with its early return
        tail = dbody[fi.end():].rstrip()
        if not re.search(r"return\s*;\s*$", tail):
            tail += " return;"
        it_ = fi.group(1)
        dbody = "%sfor (%s=allocation_list.begin(); %s!=allocation_list.end(); %s++) { if (%s->page_ptr == %s) { %s } } %s" % (
            dbody[:fi.start()], it_, it_, it_, it_, km_.group(1), tail, fi.group(3))
    im_ = re.search(r"if\s*\(\s*(?:(\w+)->page_ptr\s*==\s*%s|%s\s*==\s*(\w+)->page_ptr)\s*\)" % (K_, K_), dbody)
    if not im_:
        raise TranslateError("deallocate no longer searches by page_ptr")
    I_ = im_.group(1) or im_.group(2)
    dbody = rename(dbody, {dm_.group(1): "ptr", dm_.group(2): "n"})
    dbody = rename(dbody, {km_.group(1): "KEY__", I_: "it"})
    dbody = re.sub(r"\bKEY__\b", "page_ptr", dbody)
    dbody = re.sub(r"(\*\s*)const\s+(page_ptr)\b", r"\1\2", dbody)
    dbody = re.sub(r"if\s*\(\s*page_ptr\s*==\s*it->page_ptr\s*\)", "if (it->page_ptr == page_ptr)", dbody)
    key = find(r"void\s*\*\s*page_ptr\s*=\s*static_cast<void\*>\s*\((.*?)\)\s*;", dbody, "deallocate lookup key").group(1)
    if nows(key) != "(char*)(ptr)-((std::uintptr_t)(ptr)%page_size)":
        raise TranslateError("deallocate lookup key changed: %r" % nows(key))
    if not re.search(r"if\s*\(\s*it->page_ptr\s*==\s*page_ptr\s*\)", dbody):
        raise TranslateError("deallocate no longer searches by page_ptr")
    out.append("/-- deallocate(ptr) looks for the entry whose page_ptr equals this key -/")
    out.append("def dbgLookupKey (ptr page : Nat) : Nat := ptr - ptr % page")
    # the assertions on the entry found
    found = block_after(dbody, find(r"if\s*\(\s*it->page_ptr\s*==\s*page_ptr\s*\)\s*\{", dbody, "deallocate: entry found"),
                        "deallocate: entry found")
    # hoisted values (e.g. the mapping's length computed once for memprotect and munmap) back into their uses
    found = inline_locals(found, unmodified_too=True)
    if not re.search(r"ALLOCATION_ASSERT\s*\(\s*ptr\s*==\s*it->ptr\s*\)\s*;", found):
        raise TranslateError("deallocate no longer asserts ptr == it->ptr")
    out.append("/-- deallocate(ptr, n): the size test on the entry found (`true`: passes) -/")
    env_n = {"n": ("n", "n"), "it->size": ("size", "size")}
    m = re.search(r"if\s*\(([^;{}]*?)\)\s*ALLOCATION_ASSERT\s*\(([^;{}]*?it->size[^;{}]*?)\)\s*;", found)
    grid_n = lambda: ((a, b) for a in (0, 1, 2, 7, 4096, 2 ** 63) for b in (0, 1, 2, 7, 4096, 2 ** 63))
    if m:
        D.add("dbgSizeOk", ("n", "size"), "!(%s) || (%s)" % (m.group(1), m.group(2)), "!(n != 0) || (n == it->size)", env_n,
              grid=grid_n, prop=True)
    elif re.search(r"it->size", found):
        raise TranslateError("deallocate: size assertion not understood")
    else:
        out.append("def dbgSizeOk (n size : Nat) : Bool := true")
    # the mapping is given back (the branch without DEBUG_ALLOCATOR_KEEP)
    mk = re.search(r"#\s*if\s+DEBUG_ALLOCATOR_KEEP\b(.*?)#\s*else(.*?)#\s*endif", found, re.S)
    release = mk.group(2) if mk else found
    env_it = {"it->pages": ("pages", "pages"), "page_size": ("page", "page")}
    grid_p = lambda: ((k, pg) for pg in (4096, 16384, 65536) for k in (0, 1, 2, 3, 7, 2 ** 40, 2 ** 52 - 1, 2 ** 52, 2 ** 63))
    m = find(r"munmap\s*\(\s*it->page_ptr\s*,([^;]*)\)\s*;\s*allocation_list\.erase\s*\(\s*it\s*\)\s*;", release,
             "deallocate: munmap(it->page_ptr, …); allocation_list.erase(it);")
    out.append("/-- deallocate unmaps this many bytes at it->page_ptr -/")
    D.add("dbgUnmapLen", ("pages", "page"), m.group(1), "it->pages * page_size", env_it, grid=grid_p, wrap=True)
    # ---- the compile-time configuration DEBUG_ALLOCATOR_KEEP: what the #if branch does with the entry found
    if not mk:
        raise TranslateError("deallocate: no `#if DEBUG_ALLOCATOR_KEEP … #else … #endif` block around the release of the mapping")
    keepb = mk.group(1)
    known = keepb
    out.append("/-- DEBUG_ALLOCATOR_KEEP: deallocate makes the whole mapping of the released block inaccessible -/")
    mp = re.search(r"memprotect\s*\(\s*it->page_ptr\s*,([^;]*),\s*PROT_NONE\s*\)\s*;", keepb)
    if mp:
        D.add("dbgKeepProtLen", ("pages", "page"), mp.group(1), "(it->pages) * page_size", env_it, grid=grid_p, wrap=True)
        known = known.replace(mp.group(0), "")
    out.append("def dbgKeepProtects : Bool := %s" % ("true" if mp else "false"))
    if re.search(r"memprotect\s*\([^;]*PROT_(READ|WRITE)", keepb):
        raise TranslateError("DEBUG_ALLOCATOR_KEEP branch of deallocate makes released memory accessible")
    mu = re.search(r"munmap\s*\(\s*it->page_ptr\s*,([^;]*)\)\s*;", keepb)
    out.append("/-- DEBUG_ALLOCATOR_KEEP: does deallocate give the mapping back / erase the entry? -/")
    out.append("def dbgKeepFreeUnmaps : Bool := %s" % ("true" if mu else "false"))
    if mu:
        if nows(mu.group(1)) not in ("it->pages*page_size", "(it->pages)*page_size"):
            raise TranslateError("DEBUG_ALLOCATOR_KEEP branch: munmap length not understood: %r" % mu.group(1))
        known = known.replace(mu.group(0), "")
    me = re.search(r"allocation_list\.erase\s*\(\s*it\s*\)\s*;", keepb)
    out.append("def dbgKeepFreeErases : Bool := %s" % ("true" if me else "false"))
    if me:
        known = known.replace(me.group(0), "")
    if nows(known):
        raise TranslateError("DEBUG_ALLOCATOR_KEEP branch of deallocate: statements not understood: %r" % nows(known))
    # the not_free flag: set by allocate, asserted and cleared by deallocate (before the configuration-dependent part)
    if not re.search(r"ai\.not_free\s*=\s*true\s*;", body):
        raise TranslateError("allocate no longer records the block as in use (ai.not_free = true)")
    head = found[:mk.start()]
    chk_nf = re.search(r"ALLOCATION_ASSERT\s*\(\s*(true\s*==\s*it->not_free|it->not_free\s*==\s*true|it->not_free)\s*\)\s*;", head)
    if not chk_nf and re.search(r"not_free", head.replace("it->not_free = false", "")):
        raise TranslateError("deallocate: use of it->not_free not understood")
    out.append("/-- deallocate asserts that the entry found is still in use (a double free aborts) -/")
    out.append("def dbgChecksNotFree : Bool := %s" % ("true" if chk_nf else "false"))
    if not re.search(r"it->not_free\s*=\s*false\s*;", found[:mk.start()] + found[mk.end():]):
        raise TranslateError("deallocate no longer marks the entry as released (it->not_free = false)")
    if not re.search(r"return\s*;", found[mk.end():]):
        raise TranslateError("deallocate: no return after the entry found was released")
    # the destructor unmaps whatever is still recorded
    dtor = block_after(src, find(r"~AllocationManager\s*\(\s*\)\s*\{", src, "~AllocationManager"), "~AllocationManager")
    dtor = inline_locals(norm_common(dtor), unmodified_too=True)
    # the walk over the whole list: iterator loop or range-based for, any name for the entry
    m = find(r"munmap\s*\(\s*(\w+)\s*(->|\.)\s*page_ptr\s*,([^;]*)\)\s*;", dtor, "~AllocationManager: munmap(<entry>.page_ptr, …)")
    var, acc = m.group(1), m.group(2)
    loops = [r"for\s*\(\s*(?:[\w:]+\s+)?%s\s*=\s*allocation_list\.begin\s*\(\s*\)\s*;\s*%s\s*!=\s*allocation_list\.end\s*\(\s*\)\s*;\s*(?:\+\+\s*%s|%s\s*\+\+)\s*\)" % (var, var, var, var),
             r"for\s*\(\s*(?:const\s+)?[\w:]+\s*&\s*%s\s*:\s*allocation_list\s*\)" % var]
    lm = None
    for rx in loops:
        lm = lm or re.search(rx, dtor)
    if not lm:
        raise TranslateError("~AllocationManager no longer walks the whole allocation list")
    lbody = block_after(dtor, re.search(r"\{", dtor[lm.end():]) and re.compile(r"\{").search(dtor, lm.end()), "~AllocationManager loop body")
    # the munmap call must be a direct statement of the loop body, not guarded by a condition
    depth = 0
    pos = lbody.find(m.group(0))
    if pos < 0:
        raise TranslateError("~AllocationManager: munmap is not inside the loop over the allocation list")
    for ch in lbody[:pos]:
        depth += ch == "{"
        depth -= ch == "}"
    if depth != 0 or re.search(r"(if|while|for)\s*\([^;{}]*\)\s*$", lbody[:pos]):
        raise TranslateError("~AllocationManager: munmap of an entry is conditional")
    out.append("/-- ~AllocationManager unmaps this many bytes at it->page_ptr for every entry still recorded -/")
    env_dt = {"%s%spages" % (var, acc): ("pages", "pages"), "page_size": ("page", "page")}
    D.add("dbgDtorUnmapLen", ("pages", "page"), m.group(3), "%s%spages * page_size" % (var, acc), env_dt, grid=grid_p, wrap=True)
    # ---- rebind: the allocator the standard containers obtain for another element type stays in the family (an allocator
    # class without its own member `rebind` inherits the one of its base class: AlignedAllocator<T,A> would rebind to
    # MallocAllocator<U> and lose the requested alignment)
    out.append("/-! rebind<U>::other of the four allocator classes: the same template with the same non-type parameters -/")
    def class_body(path, rx, what):
        text = strip_comments(open(os.path.join(repo, path)).read())
        m_ = find(rx, text, what)
        return block_after(text, m_, what)
    rb = r"template\s*<\s*(?:class|typename)\s+(\w+)\s*>\s*struct\s+rebind\s*\{\s*(?:typedef\s+%s\s+other\s*;|using\s+other\s*=\s*%s\s*;)\s*\}\s*;"
    def has_rebind(body, target):
        for m_ in re.finditer(r"template\s*<\s*(?:class|typename)\s+(\w+)\s*>\s*struct\s+rebind\s*\{([^}]*)\}", body):
            t = nows(target % m_.group(1))
            if nows(m_.group(2)) in ("typedef" + t + "other;", "usingother=" + t + ";"):
                return True
        return False
    bodies = [
        ("mallocRebindInFamily", "dune/common/mallocallocator.hh", r"class\s+MallocAllocator\s*\{", "MallocAllocator<%s>"),
        ("alignedRebindKeepsAlignment", "dune/common/alignedallocator.hh", r"class\s+AlignedAllocator\s*:\s*public\s+MallocAllocator\s*<\s*T\s*>\s*\{", "AlignedAllocator<%s,Alignment>"),
        ("debugRebindInFamily", "dune/common/debugallocator.hh", r"template\s*<\s*class\s+T\s*>\s*class\s+DebugAllocator\s*\{", "DebugAllocator<%s>"),
        ("paRebindKeepsPoolSize", "dune/common/poolallocator.hh", r"class\s+PoolAllocator\s*\{", "PoolAllocator<%s,s>"),
    ]
    for name, path, rx, target in bodies:
        out.append("def %s : Bool := %s" % (name, "true" if has_rebind(class_body(path, rx, name), target) else "false"))
    # ---- DEBUG_NEW_DELETE: the replaced global operators are the manager's calls for T = char
    full = strip_comments(open(os.path.join(repo, "dune/common/debugallocator.hh")).read())
    nd = re.search(r"#\s*ifdef\s+DEBUG_NEW_DELETE\b(.*?)#\s*endif\s*(?://[^\n]*)?\s*#\s*endif", full, re.S)
    if not nd:
        nd = re.search(r"#\s*ifdef\s+DEBUG_NEW_DELETE\b(.*)", full, re.S)
    if nd:
        ops_src = re.sub(r"#\s*if\s+DEBUG_NEW_DELETE\s*>\s*2.*?#\s*endif", "", nd.group(1), flags=re.S)
        ops_n = nows(ops_src)
        want = [r"void\*operatornew\((?:std::)?size_t(\w+)\)\{void\*(\w+)=Dune::DebugMemory::alloc_man\.allocate<char>\(\1\);return\2;\}",
                r"voidoperatordelete\(void\*(\w+)\)noexcept\{Dune::DebugMemory::alloc_man\.deallocate<char>\(static_cast<char\*>\(\1\)\);\}",
                r"voidoperatordelete\(void\*(\w+),(?:std::)?size_t(\w+)\)noexcept\{Dune::DebugMemory::alloc_man\.deallocate<char>\(static_cast<char\*>\(\1\),\2\);\}"]
        missing = [w for w in want if not re.search(w, ops_n)]
        if missing:
            raise TranslateError("DEBUG_NEW_DELETE: the replaced operators are no longer the plain manager calls for char: %r" % missing[0][:60])
        out.append("/-- DEBUG_NEW_DELETE (not built): operator new(size) = alloc_man.allocate<char>(size), operator delete(p) =")
        out.append("    alloc_man.deallocate<char>(p) (n = 0), operator delete(p, size) = alloc_man.deallocate<char>(p, size) -/")
        out.append("def dbgNewDeleteIsManagerForChar : Bool := true")
    else:
        out.append("def dbgNewDeleteIsManagerForChar : Bool := false")
    out.append("")
    out.append("end DV.C15.Gen")
    return [("DuneVerif/Gen/C15.lean", "\n".join(out) + "\n")]


if __name__ == "__main__":
    import sys
    for path, content in translate(sys.argv[1] if len(sys.argv) > 1 else "/repo"):
        print("-- " + path)
        print(content)
