"""Translator for C15 (allocators).

Re-reads on every run, from the current source tree,
  * the compile-time slot geometry of Dune::Pool (poolallocator.hh: unionSize, size, alignment, alignedSize,
    chunkSize, elements) and PoolAllocator's pool size and `n==1` test,
  * the request validation of MallocAllocator / AlignedAllocator (max_size(), the `n > max_size()` test, the byte
    size handed to malloc / aligned_alloc, the alignment argument),
  * the page arithmetic of DebugMemory::AllocationManager (capacity, overlap, pages, mapping length, offset of the
    block and of the guard page inside the mapping, the lookup key of deallocate, the request bound),
and emits them as Lean functions of (sizeof T, alignof T, s, n, page size) into lean/DuneVerif/Gen/C15.lean.
The C15 model and theorems are stated about these generated definitions.

The expressions are parsed by a small recursive-descent parser for C integer expressions (?:, || && == != < <= > >=,
+ - * / %, parentheses, sizeof/alignof of the known type names, std::lcm, size_type(-1)); anything outside that
grammar makes the translator fail loudly.  Target assumptions written into the file: LP64 (pointer size and alignment
8, size_t = 64 bit)."""
import os
import re


class TranslateError(Exception):
    pass


# ------------------------------------------------------------------------------------------------
# tiny C expression parser -> Lean text
# ------------------------------------------------------------------------------------------------
TOK = re.compile(r"\s*(?:(\d+[uUlL]*)|([A-Za-z_][A-Za-z_0-9]*(?:(?:::|\.|->)[A-Za-z_][A-Za-z_0-9]*)*)|(\|\||&&|==|!=|<=|>=|[-+*/%()?:<>,!]))")


def tokenize(s):
    out, i = [], 0
    s = s.strip()
    while i < len(s):
        m = TOK.match(s, i)
        if not m or m.end() == i:
            raise TranslateError("cannot tokenize %r at %r" % (s, s[i:i + 20]))
        if m.group(1):
            out.append(("num", re.sub(r"[uUlL]+$", "", m.group(1))))
        elif m.group(2):
            out.append(("id", m.group(2)))
        else:
            out.append(("op", m.group(3)))
        i = m.end()
    return out


class Parser:
    """C integer expression -> AST.  Nodes: ("num", v) ("var", leanText, pyName) ("bin", op, a, b) ("cmp", op, a, b)
    ("and"|"or", a, b) ("not", a) ("ite", c, a, b) ("lcm", a, b) ("max",) .
    env: C name -> (Lean text, evaluation name); sizeof/alignof: type name -> (Lean text, evaluation name)."""

    def __init__(self, text, env, sizeof, alignof):
        text = re.sub(r"std::numeric_limits\s*<\s*(?:std::)?(?:size_t|size_type)\s*>\s*::\s*max\s*\(\s*\)", "size_type(-1)", text)
        self.t = tokenize(text)
        self.i = 0
        self.env, self.sizeof, self.alignof = env, sizeof, alignof
        self.text = text

    def peek(self):
        return self.t[self.i] if self.i < len(self.t) else ("eof", "")

    def eat(self, kind=None, val=None):
        k, v = self.peek()
        if (kind and k != kind) or (val is not None and v != val):
            raise TranslateError("unexpected token %r in %r (wanted %r)" % (v, self.text, val or kind))
        self.i += 1
        return v

    def parse(self):
        e = self.ternary()
        if self.peek()[0] != "eof":
            raise TranslateError("trailing tokens in %r" % self.text)
        return e

    def ternary(self):
        c = self.lor()
        if self.peek() == ("op", "?"):
            self.eat()
            a = self.ternary()
            self.eat("op", ":")
            b = self.ternary()
            return ("ite", c, a, b)
        return c

    def lor(self):
        e = self.land()
        while self.peek() == ("op", "||"):
            self.eat()
            e = ("or", e, self.land())
        return e

    def land(self):
        e = self.equality()
        while self.peek() == ("op", "&&"):
            self.eat()
            e = ("and", e, self.equality())
        return e

    def equality(self):
        e = self.relational()
        while self.peek() in (("op", "=="), ("op", "!=")):
            op = self.eat()
            e = ("cmp", op, e, self.relational())
        return e

    def relational(self):
        e = self.additive()
        while self.peek() in (("op", "<"), ("op", "<="), ("op", ">"), ("op", ">=")):
            op = self.eat()
            e = ("cmp", op, e, self.additive())
        return e

    def additive(self):
        e = self.multiplicative()
        while self.peek() in (("op", "+"), ("op", "-")):
            op = self.eat()
            e = ("bin", op, e, self.multiplicative())
        return e

    def multiplicative(self):
        e = self.unary()
        while self.peek() in (("op", "*"), ("op", "/"), ("op", "%")):
            op = self.eat()
            e = ("bin", op, e, self.unary())
        return e

    def unary(self):
        if self.peek() == ("op", "!"):
            self.eat()
            return ("not", self.unary())
        return self.primary()

    def type_name(self):
        name = self.eat("id")
        while self.peek() == ("op", "*"):
            self.eat()
            name += "*"
        return name

    def primary(self):
        k, v = self.peek()
        if k == "num":
            self.eat()
            return ("num", int(v))
        if k == "op" and v == "(":
            self.eat()
            e = self.ternary()
            self.eat("op", ")")
            return e
        if k == "id":
            self.eat()
            if v in ("sizeof", "alignof"):
                self.eat("op", "(")
                tn = self.type_name()
                self.eat("op", ")")
                table = self.sizeof if v == "sizeof" else self.alignof
                if tn not in table:
                    raise TranslateError("%s(%s): unknown type in %r" % (v, tn, self.text))
                return ("var",) + tuple(table[tn])
            if v == "std::lcm":
                self.eat("op", "(")
                a = self.ternary()
                self.eat("op", ",")
                b = self.ternary()
                self.eat("op", ")")
                return ("lcm", a, b)
            if v in ("size_type", "std::size_t", "size_t") and self.peek() == ("op", "("):
                self.eat("op", "(")
                self.eat("op", "-")
                one = self.eat("num")
                self.eat("op", ")")
                if one != "1":
                    raise TranslateError("size_type(-%s) not understood" % one)
                return ("max",)
            if v in ("this->max_size", "max_size") and "max_size()" in self.env:
                self.eat("op", "(")
                self.eat("op", ")")
                return ("var",) + tuple(self.env["max_size()"])
            if v in self.env:
                return ("var",) + tuple(self.env[v])
            raise TranslateError("unknown identifier %r in %r" % (v, self.text))
        raise TranslateError("unexpected token %r in %r" % (v, self.text))


CMP = {"<": "<", "<=": "≤", ">": ">", ">=": "≥", "==": "=", "!=": "≠"}
PROPS = ("cmp", "and", "or", "not")


def to_lean(e, want="nat"):
    """Lean text of an AST; C's int<->bool conversions made explicit"""
    k = e[0]
    if k in PROPS:
        if k == "cmp":
            t = "(%s %s %s)" % (to_lean(e[2]), CMP[e[1]], to_lean(e[3]))
        elif k == "and":
            t = "(%s ∧ %s)" % (to_lean(e[1], "prop"), to_lean(e[2], "prop"))
        elif k == "or":
            t = "(%s ∨ %s)" % (to_lean(e[1], "prop"), to_lean(e[2], "prop"))
        else:
            t = "(¬ %s)" % to_lean(e[1], "prop")
        return t if want == "prop" else "(if %s then 1 else 0)" % t
    if k == "num":
        t = str(e[1])
    elif k == "var":
        t = e[1]
    elif k == "max":
        t = "sizeMax"
    elif k == "bin":
        t = "(%s %s %s)" % (to_lean(e[2]), e[1], to_lean(e[3]))
    elif k == "lcm":
        t = "(Nat.lcm %s %s)" % (to_lean(e[1]), to_lean(e[2]))
    elif k == "ite":
        t = "(if %s then %s else %s)" % (to_lean(e[1], "prop"), to_lean(e[2]), to_lean(e[3]))
    else:
        raise TranslateError("bad node %r" % (e,))
    return t if want == "nat" else "(%s ≠ 0)" % t


def evaluate(e, val):
    """value of an AST over the naturals with Lean's conventions (truncated subtraction, x/0 = 0, x%0 = x)"""
    k = e[0]
    if k == "num":
        return e[1]
    if k == "var":
        return val[e[2]]
    if k == "max":
        return 2 ** 64 - 1
    if k == "bin":
        a, b = evaluate(e[2], val), evaluate(e[3], val)
        if e[1] == "+":
            return a + b
        if e[1] == "-":
            return max(a - b, 0)
        if e[1] == "*":
            return a * b
        if e[1] == "/":
            return a // b if b else 0
        return a % b if b else a
    if k == "lcm":
        import math
        a, b = evaluate(e[1], val), evaluate(e[2], val)
        return a * b // math.gcd(a, b) if a and b else 0
    if k == "ite":
        return evaluate(e[2], val) if evaluate(e[1], val) else evaluate(e[3], val)
    if k == "cmp":
        a, b = evaluate(e[2], val), evaluate(e[3], val)
        return int({"<": a < b, "<=": a <= b, ">": a > b, ">=": a >= b, "==": a == b, "!=": a != b}[e[1]])
    if k == "and":
        return int(bool(evaluate(e[1], val)) and bool(evaluate(e[2], val)))
    if k == "or":
        return int(bool(evaluate(e[1], val)) or bool(evaluate(e[2], val)))
    if k == "not":
        return int(not evaluate(e[1], val))
    raise TranslateError("bad node %r" % (e,))


class Defs:
    """collects `def name (params) : Nat := expr` lines.  `canonical` is the C text the proofs were written against:
    when the source's expression is textually different but takes the same value on every point of `grid`, the
    canonical Lean text is emitted (so that an equivalent rewrite of a formula does not break a proof script) and the
    source text is recorded in a comment; when the values differ anywhere, the source's own expression is emitted and
    the theorems have to be re-proved about it (or fail)."""

    def __init__(self, out):
        self.out = out
        self.fn = {}     # name -> (param names, ast) for evaluation of references

    def add(self, name, params, ctext, canonical, env, sizeof=None, alignof=None, grid=None, wrap=False, prop=False):
        sizeof, alignof = sizeof or {}, alignof or {}
        ast = Parser(ctext, env, sizeof, alignof).parse()
        chosen, note = ast, None
        if canonical is not None:
            cast = Parser(canonical, env, sizeof, alignof).parse()
            if cast != ast:
                pts = list(grid())
                same = all(self.value(ast, params, p, wrap) == self.value(cast, params, p, wrap) for p in pts)
                if same:
                    chosen = cast
                    note = "-- source: `%s` (textually different; equal to the form below on %d grid points)" % (
                        re.sub(r"\s+", " ", ctext.strip()), len(pts))
        if note:
            self.out.append(note)
        body = to_lean(chosen, "prop" if prop else "nat")
        if wrap:
            body = "wrap " + body
        binder = "(%s : Nat) " % " ".join(params) if params else ""
        if prop:
            self.out.append("def %s %s: Bool := decide %s" % (name, binder, body))
        else:
            self.out.append("def %s %s: Nat := %s" % (name, binder, body))
        self.fn[name] = (params, chosen, wrap)

    def value(self, ast, params, point, wrap):
        val = Env(self, dict(zip(params, point)))
        v = evaluate(ast, val)
        return v % 2 ** 64 if wrap else v


class Env:
    """evaluation environment: parameters, target constants, and previously defined functions applied to the same
    parameter names (`fn:unionSize` means `unionSize sz al s` at the current point)"""

    def __init__(self, defs, point):
        self.defs, self.point = defs, point

    def __getitem__(self, key):
        if key in self.point:
            return self.point[key]
        if key == "refSize" or key == "refAlign":
            return 8
        if key == "maxAlign":
            return 16
        if key.startswith("fn:"):
            params, ast, wrap = self.defs.fn[key[3:]]
            v = evaluate(ast, Env(self.defs, {p: self.point[p] for p in params}))
            return v % 2 ** 64 if wrap else v
        raise TranslateError("no value for %r" % key)


# ------------------------------------------------------------------------------------------------
# source preparation
# ------------------------------------------------------------------------------------------------
def strip_comments(src):
    src = re.sub(r"/\*.*?\*/", " ", src, flags=re.S)
    src = re.sub(r"//[^\n]*", "", src)
    return src


def drop_foreign_branches(src):
    """keep the #else branch of `#if __APPLE__` / `#ifdef __APPLE__` / `#if defined(_MSC_VER)` blocks (Linux target)"""
    out, stack = [], []   # stack entries: [is_foreign, in_else]
    for line in src.split("\n"):
        s = line.strip()
        if re.match(r"#\s*if", s):
            foreign = bool(re.match(r"#\s*if(def)?\s+(defined\s*\(\s*)?(__APPLE__|_MSC_VER)\b", s))
            stack.append([foreign, False])
            if foreign:
                continue
        elif re.match(r"#\s*else", s) and stack:
            stack[-1][1] = True
            if stack[-1][0]:
                continue
        elif re.match(r"#\s*endif", s) and stack:
            f = stack.pop()
            if f[0]:
                continue
        skip = any(f and not e for f, e in stack)
        if not skip:
            out.append(line)
    return "\n".join(out)


def find(rx, src, what, flags=re.S):
    m = re.search(rx, src, flags)
    if not m:
        raise TranslateError("%s not found" % what)
    return m


def block_after(src, m, what):
    """text between the `{` that ends match `m` and its matching `}`"""
    i = m.end()
    if src[i - 1] != "{":
        raise TranslateError("%s: no opening brace" % what)
    depth, j = 1, i
    while j < len(src) and depth:
        depth += {"{": 1, "}": -1}.get(src[j], 0)
        j += 1
    if depth:
        raise TranslateError("%s: unbalanced braces" % what)
    return src[i:j - 1]


def drop_directives(src):
    return "\n".join(l for l in src.split("\n") if not l.strip().startswith("#"))


def limit_def(D, out, name, params, body, what):
    """`if (n > EXPR) throw std::bad_alloc();` -> def <name>Val + def <name> : Option Nat"""
    chk = re.search(r"if\s*\(\s*n\s*>\s*([^;{}]*?)\)\s*\{?\s*throw\s+std::bad_alloc\s*\(\s*\)\s*;", body)
    out.append("/-- `some m`: requests with n > m are refused before anything is computed; `none`: no such test -/")
    if chk:
        D.add(name + "Val", ("sz",), chk.group(1), "max_size()", {"max_size()": ("(mallocMaxSize sz)", "fn:mallocMaxSize")},
              {"T": ("sz", "sz"), "value_type": ("sz", "sz")}, grid=lambda: ((a,) for a in range(1, 4100)))
        out.append("def %s (sz : Nat) : Option Nat := some (%sVal sz)" % (name, name))
    else:
        out.append("def %s (sz : Nat) : Option Nat := none" % name)


def nows(s):
    return re.sub(r"\s+", "", s)


# ------------------------------------------------------------------------------------------------
def pool_grid():
    for sz in list(range(1, 131)) + [255, 256, 1000]:
        for al in (1, 2, 4, 8, 16, 32, 64, 128):
            for s in sorted({0, 1, 2, 7, 8, 9, 15, 16, 17, 31, 33, 63, 64, 65, 100, 127, 128, 129, 255, 256, 257, 1000, 4096,
                             sz - 1, sz, sz + 1, 2 * sz, 2 * sz + 1, 7 * sz, 10 * sz + 3}):
                yield (sz, al, s)


def count_grid():
    M = 2 ** 64 - 1
    for sz in list(range(1, 131)) + [255, 256, 4096]:
        for n in (0, 1, 2, 3, 7, 100, 4096, M // sz - 1, M // sz, M // sz + 1, 2 ** 63, M, M // 2, 2 ** 61 + 1, 2 ** 32 + 1):
            yield (sz, n)


def page_grid():
    for page in (4096, 16384, 65536):
        for k in range(0, 4):
            for d in (0, 1, 2, 7, 8, 100, page // 2, page - 8, page - 1):
                yield (k * page + d, page)
        for cap in (2 ** 40, 2 ** 40 + 1, 2 ** 63, 2 ** 64 - 3 * page, 2 ** 64 - 2 * page - 1):
            yield (cap, page)


def limit_grid():
    for page in (4096, 16384, 65536):
        for sz in list(range(1, 131)) + [256, 4096]:
            yield (sz, page)


def translate(repo):
    out = ["-- GENERATED by tools/translators/tr_c15.py from dune/common/{poolallocator,mallocallocator,alignedallocator,"
           "debugallocator}.hh -- do not edit",
           "set_option linter.unusedVariables false",
           "namespace DV.C15.Gen",
           "/-- target assumptions (LP64): sizeof/alignof of `Pool::Reference` (one pointer), largest `std::size_t` -/",
           "def refSize : Nat := 8",
           "def refAlign : Nat := 8",
           "def sizeMax : Nat := 18446744073709551615",
           "/-- alignof(std::max_align_t): what malloc guarantees -/",
           "def maxAlign : Nat := 16",
           "/-- reduction of a `std::size_t` result -/",
           "def wrap (x : Nat) : Nat := x % 18446744073709551616",
           ""]
    D = Defs(out)

    # ---- Pool geometry ------------------------------------------------------------------------
    src = strip_comments(open(os.path.join(repo, "dune/common/poolallocator.hh")).read())
    pool_at = find(r"class\s+Pool\s*\{", src, "class Pool").start()
    pa_at = find(r"class\s+PoolAllocator\s*\{", src, "class PoolAllocator").start()
    pool_src, pa_src = src[pool_at:pa_at], src[pa_at:]
    if not re.search(r"struct\s+Reference\s*\{\s*Reference\s*\*\s*next_\s*;\s*\}\s*;", pool_src):
        raise TranslateError("Pool::Reference is no longer a single pointer")
    sizeof = {"MemberType": ("sz", "sz"), "T": ("sz", "sz"), "Reference": ("refSize", "refSize")}
    alignof = {"MemberType": ("al", "al"), "T": ("al", "al"), "Reference": ("refAlign", "refAlign")}
    env = {"s": ("s", "s")}
    canon = {
        "unionSize": "(sizeof(MemberType) < sizeof(Reference)) ? sizeof(Reference) : sizeof(MemberType)",
        "size": "(sizeof(MemberType) <= s && sizeof(Reference) <= s) ? s : unionSize",
        "alignment": "std::lcm(alignof(MemberType), alignof(Reference))",
        "alignedSize": "(unionSize % alignment == 0) ? unionSize : ((unionSize / alignment + 1) * alignment)",
        "chunkSize": "(size % alignment == 0) ? size : ((size / alignment + 1)* alignment)",
        "elements": "(chunkSize / alignedSize)",
    }
    out.append("/-! Pool<T,s>: compile-time slot geometry as functions of sz = sizeof(T), al = alignof(T), s -/")
    for name in ("unionSize", "size", "alignment", "alignedSize", "chunkSize", "elements"):
        m = find(r"constexpr\s+static\s+(?:int|std::size_t|size_t|unsigned)\s+%s\s*=\s*([^;]+);" % name, pool_src,
                 "Pool::" + name)
        D.add(name, ("sz", "al", "s"), m.group(1), canon[name], env, sizeof, alignof, grid=pool_grid)
        env[name] = ("(%s sz al s)" % name, "fn:" + name)
    # the chunk really has chunkSize bytes aligned to `alignment`
    if not re.search(r"alignas\s*\(\s*alignment\s*\)\s*char\s+chunk_\s*\[\s*chunkSize\s*\]\s*;", pool_src):
        raise TranslateError("Pool::Chunk::chunk_ is no longer `alignas(alignment) char chunk_[chunkSize]`")
    # Pool::grow: which byte offsets of the new chunk's storage the loop threads onto the free list behind slot 0:
    # for (e = growFirst; e < growEnd; e += growStep).  Two spellings are understood: the pointer loop
    # `for(char* element=start+F; element<last; element=element+S)` with `last = &start[E]` (or `start + E`), and the
    # index loop `for (… i = I; i < N; ++i)` whose body addresses `start + i*S` / `&start[i*S]`.
    gm = find(r"Pool<T,S>::grow\s*\(\s*\)\s*\{", src, "Pool::grow")
    gbody = block_after(src, gm, "Pool::grow")
    if not re.search(r"char\s*\*\s*start\s*=\s*chunks_->chunk_\s*;", gbody):
        raise TranslateError("Pool::grow: `char* start = chunks_->chunk_;` not found")
    if not re.search(r"Reference\s*\*\s*ref\s*=\s*new\s*\(\s*start\s*\)\s*\(?\s*Reference\s*\)?\s*;", gbody) or \
            not re.search(r"head_\s*=\s*ref\s*;", gbody):
        raise TranslateError("Pool::grow: slot 0 (`ref = new (start) Reference; head_ = ref;`) not understood")
    genv = dict(env)
    ptr_loop = re.search(r"for\s*\(\s*char\s*\*\s*(\w+)\s*=\s*start\s*\+\s*([^;]+?)\s*;\s*\1\s*(<=?)\s*last\s*;\s*"
                         r"\1\s*(?:=\s*\1\s*\+|\+=)\s*([^;)]+?)\s*\)", gbody)
    idx_loop = re.search(r"for\s*\(\s*(?:std::size_t|size_t|int|unsigned|unsigned\s+int|long)\s+(\w+)\s*=\s*([^;]+?)\s*;\s*\1\s*<\s*([^;]+?)\s*;\s*"
                         r"(?:\+\+\s*\1|\1\s*\+\+)\s*\)", gbody)
    if ptr_loop:
        lm_ = re.search(r"char\s*\*\s*last\s*=\s*(?:&\s*start\s*\[([^;]+)\]|start\s*\+\s*([^;]+))\s*;", gbody)
        if not lm_:
            raise TranslateError("Pool::grow: `last` not understood")
        g_first, g_step, g_end = ptr_loop.group(2), ptr_loop.group(4), (lm_.group(1) or lm_.group(2))
        if ptr_loop.group(3) == "<=":
            g_end = "(%s) + 1" % g_end
    elif idx_loop:
        iv = idx_loop.group(1)
        am = re.search(r"(?:&\s*start\s*\[\s*%s\s*\*\s*([^\]]+?)\s*\]|start\s*\+\s*%s\s*\*\s*([^;)]+?)\s*[;)])" % (iv, iv), gbody)
        if not am:
            raise TranslateError("Pool::grow: index loop body does not address `start + i*stride`")
        stride = (am.group(1) or am.group(2)).strip()
        g_first = "(%s) * (%s)" % (idx_loop.group(2), stride)
        g_step = stride
        g_end = "(%s) * (%s)" % (idx_loop.group(3), stride)
    else:
        raise TranslateError("Pool::grow: loop over the slots not understood")
    if not re.search(r"ref->next_\s*=\s*next\s*;\s*ref\s*=\s*next\s*;", gbody) or \
            not re.search(r"\}\s*ref->next_\s*=\s*(?:0|nullptr)\s*;\s*$", gbody.strip()):
        raise TranslateError("Pool::grow: threading of the slots (`ref->next_ = next; ref = next;` … `ref->next_ = 0;`) not understood")
    out.append("/-- Pool::grow threads the slots at the byte offsets growFirst, growFirst + growStep, … below growEnd behind slot 0 -/")
    D.add("growFirst", ("sz", "al", "s"), g_first, "alignedSize", genv, sizeof, alignof, grid=pool_grid)
    D.add("growStep", ("sz", "al", "s"), g_step, "alignedSize", genv, sizeof, alignof, grid=pool_grid)
    D.add("growEnd", ("sz", "al", "s"), g_end, "elements*alignedSize", genv, sizeof, alignof, grid=pool_grid)
    # Pool::free: the range test of the search over the chunks (present without NDEBUG), with the chunk's storage
    # starting at address `base`: the condition under which the walk stops at a chunk
    fm = find(r"Pool<T,S>::free\s*\(\s*void\s*\*\s*b\s*\)\s*\{", src, "Pool::free")
    fbody = block_after(src, fm, "Pool::free")
    dbg = re.search(r"#\s*(?:ifndef\s+NDEBUG|if\s*!\s*defined\s*\(?\s*NDEBUG\s*\)?)(.*?)#\s*endif", fbody, re.S)
    if not dbg:
        raise TranslateError("Pool::free: no `#ifndef NDEBUG … #endif` block with the range test")
    cm = re.search(r"while\s*\(\s*current\s*\)\s*\{\s*if\s*\((.*?)\)\s*break\s*;\s*current\s*=\s*current->next_\s*;\s*\}\s*"
                   r"if\s*\(\s*!\s*current\s*\)\s*\{?\s*throw\s+std::bad_alloc\s*\(\s*\)\s*;", dbg.group(1), re.S)
    if not cm:
        raise TranslateError("Pool::free: search over the chunks not understood")
    cond = cm.group(1)
    cond = re.sub(r"static_cast\s*<\s*(?:const\s+)?(?:void|char)\s*\*\s*>", "", cond)
    cond = re.sub(r"current->chunk_", "base", cond)
    out.append("/-- Pool::free (without NDEBUG): a chunk whose storage starts at `base` stops the search for address `b` -/")
    grid_f = lambda: ((ba, ba + d, cs) for ba in (64, 4096) for cs in (8, 24, 48, 4096) for d in (-1, 0, 1, 7, cs - 1, cs, cs + 1))
    D.add("poolFreeInRange", ("base", "b", "chunkSize"), cond, "(base)<=b && (base+chunkSize)>b",
          {"base": ("base", "base"), "b": ("b", "b"), "chunkSize": ("chunkSize", "chunkSize")}, grid=grid_f, prop=True)
    rest = fbody[dbg.end():]
    if not re.search(r"freed->next_\s*=\s*head_\s*;\s*head_\s*=\s*freed\s*;", rest):
        raise TranslateError("Pool::free: `freed->next_ = head_; head_ = freed;` not found behind the range test")
    out.append("")
    out.append("/-! PoolAllocator<T,s> -/")
    m = find(r"constexpr\s+static\s+(?:int|std::size_t|size_t)\s+size\s*=\s*([^;]+);", pa_src, "PoolAllocator::size")
    D.add("paPoolSize", ("sz", "s"), m.group(1), "s * sizeof(value_type)", {"s": ("s", "s")},
          {"value_type": ("sz", "sz"), "T": ("sz", "sz")}, grid=lambda: ((a, c) for (a, b, c) in pool_grid() if b == 1))
    if not re.search(r"typedef\s+Pool\s*<\s*T\s*,\s*size\s*>\s*PoolType\s*;", pa_src):
        raise TranslateError("PoolAllocator::PoolType is no longer Pool<T,size>")
    m = find(r"PoolAllocator<T,s>::allocate\s*\([^)]*\)\s*\{", src, "PoolAllocator::allocate")
    pbody = nows(block_after(src, m, "PoolAllocator::allocate"))
    ret = r"returnstatic_cast<T\*>\(memoryPool_\.allocate\(\)\);"
    thr = r"throwstd::bad_alloc\(\);"
    m1 = re.fullmatch(r"if\((.*?)\)\{?%s\}?else\{?%s\}?" % (ret, thr), pbody)
    m2 = re.fullmatch(r"if\((.*?)\)\{?%s\}?(?:else)?\{?%s\}?" % (thr, ret), pbody)
    grid1 = lambda: ((n,) for n in (0, 1, 2, 3, 2 ** 32, 2 ** 32 + 1, 2 ** 63, 2 ** 64 - 1))
    if m1:
        D.add("paAccepts", ("n",), m1.group(1), "n==1", {"n": ("n", "n")}, prop=True, grid=grid1)
    elif m2:
        D.add("paAccepts", ("n",), "!(" + m2.group(1) + ")", "n==1", {"n": ("n", "n")}, prop=True, grid=grid1)
    else:
        raise TranslateError("PoolAllocator::allocate body not understood: %r" % pbody)
    m = find(r"(?:int|size_type|std::size_t)\s+max_size\s*\(\s*\)\s*const\s*(?:noexcept)?\s*\{\s*return\s+([^;]+);\s*\}", pa_src,
             "PoolAllocator::max_size")
    D.add("paMaxSize", (), m.group(1), "1", {}, grid=lambda: [()])
    # deallocate(p, n) gives back n consecutive objects, one pool.free each
    dm = find(r"PoolAllocator<T,s>::deallocate\s*\([^)]*\)\s*\{", src, "PoolAllocator::deallocate")
    dbody_pa = nows(block_after(src, dm, "PoolAllocator::deallocate"))
    if not re.fullmatch(r"for\((?:size_t|std::size_t|size_type)i=0;i<n;(?:i\+\+|\+\+i)\)\{?memoryPool_\.free\(p\+\+\);\}?", dbody_pa):
        raise TranslateError("PoolAllocator::deallocate body not understood: %r" % dbody_pa)
    out.append("/-- deallocate(p, n) calls pool.free this many times (on p, p+1, …) -/")
    out.append("def paDeallocFrees (n : Nat) : Nat := n")
    out.append("")

    # ---- MallocAllocator ----------------------------------------------------------------------
    src = drop_foreign_branches(strip_comments(open(os.path.join(repo, "dune/common/mallocallocator.hh")).read()))
    out.append("/-! MallocAllocator<T> -/")
    szT = {"T": ("sz", "sz"), "value_type": ("sz", "sz")}
    m = find(r"size_type\s+max_size\s*\(\s*\)\s*const\s*(?:noexcept)?\s*\{\s*return\s+([^;]+);\s*\}", src,
             "MallocAllocator::max_size")
    D.add("mallocMaxSize", ("sz",), m.group(1), "size_type(-1) / sizeof(T)", {}, szT,
          grid=lambda: ((a,) for a in range(1, 4100)))
    body = drop_directives(block_after(src, find(r"pointer\s+allocate\s*\(\s*size_type\s+n[^)]*\)\s*\{", src,
                                                 "MallocAllocator::allocate"), "MallocAllocator::allocate"))
    limit_def(D, out, "mallocLimit", ("sz",), body, "MallocAllocator")
    calls = re.findall(r"std::malloc\s*\(([^;]*)\)\s*\)\s*;", body)
    if len(calls) != 1:
        raise TranslateError("MallocAllocator::allocate: expected exactly one std::malloc call, found %d" % len(calls))
    D.add("mallocBytes", ("sz", "n"), calls[0], "n * sizeof(T)", {"n": ("n", "n")}, szT, grid=count_grid, wrap=True)
    # over-aligned types: `if constexpr (alignof(T) > alignof(std::max_align_t)) ret = …aligned_alloc(alignof(T), BYTES)…; else`
    over = re.search(r"if\s+constexpr\s*\(([^;{}]*?)\)\s*\{?\s*ret\s*=\s*static_cast<pointer>\s*\(\s*std::aligned_alloc\s*\("
                     r"([^;,]*),([^;]*)\)\s*\)\s*;\s*\}?\s*else\s*\{?\s*ret\s*=\s*static_cast<pointer>\s*\(\s*std::malloc", body)
    if "aligned_alloc" in body and not over:
        raise TranslateError("MallocAllocator::allocate: aligned_alloc used in a way the translator does not understand")
    alT = {"T": ("al", "al"), "value_type": ("al", "al"), "std::max_align_t": ("maxAlign", "maxAlign")}
    out.append("/-- the alignment the C library guarantees for the call `allocate` makes: malloc gives maxAlign, the over-aligned")
    out.append("    branch (if the source has one) calls aligned_alloc with the alignment below -/")
    if over:
        D.add("mallocOverCond", ("al",), over.group(1), "alignof(T) > alignof(std::max_align_t)", {}, {}, alT,
              grid=lambda: ((a,) for a in (1, 2, 4, 8, 16, 32, 64, 128, 256, 4096)), prop=True)
        D.add("mallocOverAlign", ("al",), over.group(2), "alignof(T)", {}, {}, alT,
              grid=lambda: ((a,) for a in (1, 2, 4, 8, 16, 32, 64, 128, 256, 4096)))
        D.add("mallocOverBytes", ("sz", "n"), over.group(3), "n * sizeof(T)", {"n": ("n", "n")}, szT, grid=count_grid, wrap=True)
    else:
        out.append("-- the source has no branch for over-aligned types: every request goes to malloc")
        out.append("def mallocOverCond (al : Nat) : Bool := false")
        out.append("def mallocOverAlign (al : Nat) : Nat := al")
        out.append("def mallocOverBytes (sz n : Nat) : Nat := mallocBytes sz n")
    out.append("def mallocAlignment (al : Nat) : Nat := if mallocOverCond al then mallocOverAlign al else maxAlign")
    out.append("def mallocBytesFor (sz al n : Nat) : Nat := if mallocOverCond al then mallocOverBytes sz n else mallocBytes sz n")
    if not re.search(r"if\s*\(\s*!\s*ret\s*\)\s*\{?\s*throw\s+std::bad_alloc", body):
        raise TranslateError("MallocAllocator::allocate no longer turns a null result into bad_alloc")
    if not re.search(r"void\s+deallocate\s*\([^)]*\)\s*\{\s*std::free\s*\(\s*p\s*\)\s*;\s*\}", src):
        raise TranslateError("MallocAllocator::deallocate is no longer std::free(p)")
    out.append("")

    # ---- AlignedAllocator ---------------------------------------------------------------------
    src = drop_foreign_branches(strip_comments(open(os.path.join(repo, "dune/common/alignedallocator.hh")).read()))
    out.append("/-! AlignedAllocator<T,Alignment>  (A = 0 encodes the default Alignment = -1) -/")
    m = find(r"fixAlignment\s*\(\s*int\s+align\s*\)\s*\{\s*return\s+([^;]+);\s*\}", src, "AlignedAllocator::fixAlignment")
    fx = nows(m.group(1))
    if fx not in ("(Alignment==-1)?std::alignment_of<T>::value:Alignment", "(Alignment==-1)?alignof(T):Alignment",
                  "Alignment==-1?std::alignment_of<T>::value:Alignment", "Alignment==-1?alignof(T):Alignment",
                  "(Alignment==-1)?std::alignment_of_v<T>:Alignment"):
        raise TranslateError("fixAlignment changed: %r" % fx)
    find(r"alignment\s*=\s*fixAlignment\s*\(", src, "AlignedAllocator::alignment")
    out.append("def alignedAlignment (al A : Nat) : Nat := if A = 0 then al else A")
    body = block_after(src, find(r"pointer\s+allocate\s*\(\s*size_type\s+n[^)]*\)\s*\{", src, "AlignedAllocator::allocate"),
                       "AlignedAllocator::allocate")
    limit_def(D, out, "alignedLimit", ("sz",), body, "AlignedAllocator")
    m = find(r"size_type\s+size\s*=\s*([^;]+);", body, "AlignedAllocator byte size")
    D.add("alignedBytes", ("sz", "n"), m.group(1), "n * sizeof(T)", {"n": ("n", "n")}, szT, grid=count_grid, wrap=True)
    if not re.search(r"std::aligned_alloc\s*\(\s*alignment\s*,\s*size\s*\)", body):
        raise TranslateError("AlignedAllocator no longer calls std::aligned_alloc(alignment, size)")
    if not re.search(r"if\s*\(\s*!\s*ret\s*\)\s*\{?\s*throw\s+std::bad_alloc", body):
        raise TranslateError("AlignedAllocator::allocate no longer turns a null result into bad_alloc")
    out.append("")

    # ---- DebugAllocator -----------------------------------------------------------------------
    src = drop_foreign_branches(strip_comments(open(os.path.join(repo, "dune/common/debugallocator.hh")).read()))
    out.append("/-! DebugMemory::AllocationManager: page arithmetic (page = page_size) -/")
    body = block_after(src, find(r"T\s*\*\s*allocate\s*\(\s*size_type\s+n\s*\)\s*\{", src, "AllocationManager::allocate"),
                       "AllocationManager::allocate")
    find(r"return\s+static_cast<T\*>\s*\(\s*ai\.ptr\s*\)\s*;", body, "AllocationManager::allocate returns ai.ptr")
    chk = re.search(r"if\s*\(\s*n\s*>\s*([^;{}]*?)\)\s*\{?\s*throw\s+std::bad_alloc\s*\(\s*\)\s*;", body)
    out.append("/-- `some m`: requests with n > m are refused before anything is computed; `none`: no such test -/")
    if chk:
        D.add("dbgMaxCount", ("sz", "page"), chk.group(1), "(size_type(-1) - 2 * page_size) / sizeof(T)",
              {"page_size": ("page", "page")}, szT, grid=limit_grid)
        out.append("def dbgLimit (sz page : Nat) : Option Nat := some (dbgMaxCount sz page)")
    else:
        out.append("def dbgLimit (sz page : Nat) : Option Nat := none")
    m = find(r"ai\.capacity\s*=\s*([^;]+);", body, "ai.capacity")
    D.add("dbgCapacity", ("sz", "n"), m.group(1), "n * sizeof(T)", {"n": ("n", "n")}, szT, grid=count_grid, wrap=True)
    env = {"ai.capacity": ("cap", "cap"), "page_size": ("page", "page")}
    m = find(r"size_type\s+overlap\s*=\s*([^;]+);", body, "overlap")
    D.add("dbgOverlap", ("cap", "page"), m.group(1), "ai.capacity % page_size", env, grid=page_grid)
    env["overlap"] = ("(dbgOverlap cap page)", "fn:dbgOverlap")
    m = find(r"ai\.pages\s*=\s*([^;]+);", body, "ai.pages")
    D.add("dbgPages", ("cap", "page"), m.group(1), "(ai.capacity) / page_size + (overlap ? 2 : 1)", env, grid=page_grid)
    env["ai.pages"] = ("(dbgPages cap page)", "fn:dbgPages")
    m = find(r"mmap\s*\(\s*NULL\s*,\s*([^,]+),\s*PROT_READ\s*\|\s*PROT_WRITE\s*,", body, "mmap length")
    D.add("dbgMapLen", ("cap", "page"), m.group(1), "ai.pages * page_size", env, grid=page_grid, wrap=True)
    if not re.search(r"if\s*\(\s*MAP_FAILED\s*==\s*ai\.page_ptr\s*\)\s*\{?\s*throw\s+std::bad_alloc", body):
        raise TranslateError("a failed mmap is no longer reported as bad_alloc")
    m = find(r"ai\.ptr\s*=\s*static_cast<char\*>\s*\(\s*ai\.page_ptr\s*\)\s*\+\s*([^;]+);", body, "ai.ptr")
    out.append("/-- the block starts at page_ptr + dbgPtrOff -/")
    D.add("dbgPtrOff", ("cap", "page"), "(" + m.group(1) + ")", "(overlap ? page_size - overlap : 0)", env, grid=page_grid)
    m = find(r"memprotect\s*\(\s*static_cast<char\*>\s*\(\s*ai\.page_ptr\s*\)\s*\+\s*(.+?),\s*page_size\s*,\s*PROT_NONE\s*\)\s*;",
             body, "guard page protection")
    out.append("/-- the inaccessible guard page is [page_ptr + dbgGuardOff, page_ptr + dbgGuardOff + page) -/")
    D.add("dbgGuardOff", ("cap", "page"), "(" + m.group(1) + ")", "(ai.pages-1) * page_size", env, grid=page_grid)
    dbody = block_after(src, find(r"void\s+deallocate\s*\(\s*T\s*\*\s*ptr\s*,\s*size_type\s+n\s*=\s*0\s*\)\s*(?:noexcept)?\s*\{",
                                  src, "AllocationManager::deallocate"), "AllocationManager::deallocate")
    key = find(r"void\s*\*\s*page_ptr\s*=\s*static_cast<void\*>\s*\((.*?)\)\s*;", dbody, "deallocate lookup key").group(1)
    if nows(key) != "(char*)(ptr)-((std::uintptr_t)(ptr)%page_size)":
        raise TranslateError("deallocate lookup key changed: %r" % nows(key))
    if not re.search(r"if\s*\(\s*it->page_ptr\s*==\s*page_ptr\s*\)", dbody):
        raise TranslateError("deallocate no longer searches by page_ptr")
    out.append("/-- deallocate(ptr) looks for the entry whose page_ptr equals this key -/")
    out.append("def dbgLookupKey (ptr page : Nat) : Nat := ptr - ptr % page")
    # the assertions on the entry found
    found = block_after(dbody, find(r"if\s*\(\s*it->page_ptr\s*==\s*page_ptr\s*\)\s*\{", dbody, "deallocate: entry found"),
                        "deallocate: entry found")
    if not re.search(r"ALLOCATION_ASSERT\s*\(\s*ptr\s*==\s*it->ptr\s*\)\s*;", found):
        raise TranslateError("deallocate no longer asserts ptr == it->ptr")
    out.append("/-- deallocate(ptr, n): the size test on the entry found (`true`: passes) -/")
    env_n = {"n": ("n", "n"), "it->size": ("size", "size")}
    m = re.search(r"if\s*\(([^;{}]*?)\)\s*ALLOCATION_ASSERT\s*\(([^;{}]*?it->size[^;{}]*?)\)\s*;", found)
    grid_n = lambda: ((a, b) for a in (0, 1, 2, 7, 4096, 2 ** 63) for b in (0, 1, 2, 7, 4096, 2 ** 63))
    if m:
        D.add("dbgSizeOk", ("n", "size"), "!(%s) || (%s)" % (m.group(1), m.group(2)), "!(n != 0) || (n == it->size)", env_n,
              grid=grid_n, prop=True)
    elif re.search(r"it->size", found):
        raise TranslateError("deallocate: size assertion not understood")
    else:
        out.append("def dbgSizeOk (n size : Nat) : Bool := true")
    # the mapping is given back (the branch without DEBUG_ALLOCATOR_KEEP)
    mk = re.search(r"#\s*if\s+DEBUG_ALLOCATOR_KEEP\b(.*?)#\s*else(.*?)#\s*endif", found, re.S)
    release = mk.group(2) if mk else found
    env_it = {"it->pages": ("pages", "pages"), "page_size": ("page", "page")}
    grid_p = lambda: ((k, pg) for pg in (4096, 16384, 65536) for k in (0, 1, 2, 3, 7, 2 ** 40, 2 ** 52 - 1, 2 ** 52, 2 ** 63))
    m = find(r"munmap\s*\(\s*it->page_ptr\s*,([^;]*)\)\s*;\s*allocation_list\.erase\s*\(\s*it\s*\)\s*;", release,
             "deallocate: munmap(it->page_ptr, …); allocation_list.erase(it);")
    out.append("/-- deallocate unmaps this many bytes at it->page_ptr -/")
    D.add("dbgUnmapLen", ("pages", "page"), m.group(1), "it->pages * page_size", env_it, grid=grid_p, wrap=True)
    # ---- the compile-time configuration DEBUG_ALLOCATOR_KEEP: what the #if branch does with the entry found
    if not mk:
        raise TranslateError("deallocate: no `#if DEBUG_ALLOCATOR_KEEP … #else … #endif` block around the release of the mapping")
    keepb = mk.group(1)
    known = keepb
    out.append("/-- DEBUG_ALLOCATOR_KEEP: deallocate makes the whole mapping of the released block inaccessible -/")
    mp = re.search(r"memprotect\s*\(\s*it->page_ptr\s*,([^;]*),\s*PROT_NONE\s*\)\s*;", keepb)
    if mp:
        D.add("dbgKeepProtLen", ("pages", "page"), mp.group(1), "(it->pages) * page_size", env_it, grid=grid_p, wrap=True)
        known = known.replace(mp.group(0), "")
    out.append("def dbgKeepProtects : Bool := %s" % ("true" if mp else "false"))
    if re.search(r"memprotect\s*\([^;]*PROT_(READ|WRITE)", keepb):
        raise TranslateError("DEBUG_ALLOCATOR_KEEP branch of deallocate makes released memory accessible")
    mu = re.search(r"munmap\s*\(\s*it->page_ptr\s*,([^;]*)\)\s*;", keepb)
    out.append("/-- DEBUG_ALLOCATOR_KEEP: does deallocate give the mapping back / erase the entry? -/")
    out.append("def dbgKeepFreeUnmaps : Bool := %s" % ("true" if mu else "false"))
    if mu:
        if nows(mu.group(1)) not in ("it->pages*page_size", "(it->pages)*page_size"):
            raise TranslateError("DEBUG_ALLOCATOR_KEEP branch: munmap length not understood: %r" % mu.group(1))
        known = known.replace(mu.group(0), "")
    me = re.search(r"allocation_list\.erase\s*\(\s*it\s*\)\s*;", keepb)
    out.append("def dbgKeepFreeErases : Bool := %s" % ("true" if me else "false"))
    if me:
        known = known.replace(me.group(0), "")
    if nows(known):
        raise TranslateError("DEBUG_ALLOCATOR_KEEP branch of deallocate: statements not understood: %r" % nows(known))
    # the not_free flag: set by allocate, asserted and cleared by deallocate (before the configuration-dependent part)
    if not re.search(r"ai\.not_free\s*=\s*true\s*;", body):
        raise TranslateError("allocate no longer records the block as in use (ai.not_free = true)")
    head = found[:mk.start()]
    chk_nf = re.search(r"ALLOCATION_ASSERT\s*\(\s*(true\s*==\s*it->not_free|it->not_free\s*==\s*true|it->not_free)\s*\)\s*;", head)
    if not chk_nf and re.search(r"not_free", head.replace("it->not_free = false", "")):
        raise TranslateError("deallocate: use of it->not_free not understood")
    out.append("/-- deallocate asserts that the entry found is still in use (a double free aborts) -/")
    out.append("def dbgChecksNotFree : Bool := %s" % ("true" if chk_nf else "false"))
    if not re.search(r"it->not_free\s*=\s*false\s*;", found[:mk.start()] + found[mk.end():]):
        raise TranslateError("deallocate no longer marks the entry as released (it->not_free = false)")
    if not re.search(r"return\s*;", found[mk.end():]):
        raise TranslateError("deallocate: no return after the entry found was released")
    # the destructor unmaps whatever is still recorded
    dtor = block_after(src, find(r"~AllocationManager\s*\(\s*\)\s*\{", src, "~AllocationManager"), "~AllocationManager")
    # the walk over the whole list: iterator loop or range-based for, any name for the entry
    m = find(r"munmap\s*\(\s*(\w+)\s*(->|\.)\s*page_ptr\s*,([^;]*)\)\s*;", dtor, "~AllocationManager: munmap(<entry>.page_ptr, …)")
    var, acc = m.group(1), m.group(2)
    loops = [r"for\s*\(\s*(?:[\w:]+\s+)?%s\s*=\s*allocation_list\.begin\s*\(\s*\)\s*;\s*%s\s*!=\s*allocation_list\.end\s*\(\s*\)\s*;\s*(?:\+\+\s*%s|%s\s*\+\+)\s*\)" % (var, var, var, var),
             r"for\s*\(\s*(?:const\s+)?[\w:]+\s*&\s*%s\s*:\s*allocation_list\s*\)" % var]
    lm = None
    for rx in loops:
        lm = lm or re.search(rx, dtor)
    if not lm:
        raise TranslateError("~AllocationManager no longer walks the whole allocation list")
    lbody = block_after(dtor, re.search(r"\{", dtor[lm.end():]) and re.compile(r"\{").search(dtor, lm.end()), "~AllocationManager loop body")
    # the munmap call must be a direct statement of the loop body, not guarded by a condition
    depth = 0
    pos = lbody.find(m.group(0))
    if pos < 0:
        raise TranslateError("~AllocationManager: munmap is not inside the loop over the allocation list")
    for ch in lbody[:pos]:
        depth += ch == "{"
        depth -= ch == "}"
    if depth != 0 or re.search(r"(if|while|for)\s*\([^;{}]*\)\s*$", lbody[:pos]):
        raise TranslateError("~AllocationManager: munmap of an entry is conditional")
    out.append("/-- ~AllocationManager unmaps this many bytes at it->page_ptr for every entry still recorded -/")
    env_dt = {"%s%spages" % (var, acc): ("pages", "pages"), "page_size": ("page", "page")}
    D.add("dbgDtorUnmapLen", ("pages", "page"), m.group(3), "%s%spages * page_size" % (var, acc), env_dt, grid=grid_p, wrap=True)
    # ---- rebind: the allocator the standard containers obtain for another element type stays in the family (an allocator
    # class without its own member `rebind` inherits the one of its base class: AlignedAllocator<T,A> would rebind to
    # MallocAllocator<U> and lose the requested alignment)
    out.append("/-! rebind<U>::other of the four allocator classes: the same template with the same non-type parameters -/")
    def class_body(path, rx, what):
        text = strip_comments(open(os.path.join(repo, path)).read())
        m_ = find(rx, text, what)
        return block_after(text, m_, what)
    rb = r"template\s*<\s*(?:class|typename)\s+(\w+)\s*>\s*struct\s+rebind\s*\{\s*(?:typedef\s+%s\s+other\s*;|using\s+other\s*=\s*%s\s*;)\s*\}\s*;"
    def has_rebind(body, target):
        for m_ in re.finditer(r"template\s*<\s*(?:class|typename)\s+(\w+)\s*>\s*struct\s+rebind\s*\{([^}]*)\}", body):
            t = nows(target % m_.group(1))
            if nows(m_.group(2)) in ("typedef" + t + "other;", "usingother=" + t + ";"):
                return True
        return False
    bodies = [
        ("mallocRebindInFamily", "dune/common/mallocallocator.hh", r"class\s+MallocAllocator\s*\{", "MallocAllocator<%s>"),
        ("alignedRebindKeepsAlignment", "dune/common/alignedallocator.hh", r"class\s+AlignedAllocator\s*:\s*public\s+MallocAllocator\s*<\s*T\s*>\s*\{", "AlignedAllocator<%s,Alignment>"),
        ("debugRebindInFamily", "dune/common/debugallocator.hh", r"template\s*<\s*class\s+T\s*>\s*class\s+DebugAllocator\s*\{", "DebugAllocator<%s>"),
        ("paRebindKeepsPoolSize", "dune/common/poolallocator.hh", r"class\s+PoolAllocator\s*\{", "PoolAllocator<%s,s>"),
    ]
    for name, path, rx, target in bodies:
        out.append("def %s : Bool := %s" % (name, "true" if has_rebind(class_body(path, rx, name), target) else "false"))
    # ---- DEBUG_NEW_DELETE: the replaced global operators are the manager's calls for T = char
    full = strip_comments(open(os.path.join(repo, "dune/common/debugallocator.hh")).read())
    nd = re.search(r"#\s*ifdef\s+DEBUG_NEW_DELETE\b(.*?)#\s*endif\s*(?://[^\n]*)?\s*#\s*endif", full, re.S)
    if not nd:
        nd = re.search(r"#\s*ifdef\s+DEBUG_NEW_DELETE\b(.*)", full, re.S)
    if nd:
        ops_src = re.sub(r"#\s*if\s+DEBUG_NEW_DELETE\s*>\s*2.*?#\s*endif", "", nd.group(1), flags=re.S)
        ops_n = nows(ops_src)
        want = [r"void\*operatornew\((?:std::)?size_t(\w+)\)\{void\*(\w+)=Dune::DebugMemory::alloc_man\.allocate<char>\(\1\);return\2;\}",
                r"voidoperatordelete\(void\*(\w+)\)noexcept\{Dune::DebugMemory::alloc_man\.deallocate<char>\(static_cast<char\*>\(\1\)\);\}",
                r"voidoperatordelete\(void\*(\w+),(?:std::)?size_t(\w+)\)noexcept\{Dune::DebugMemory::alloc_man\.deallocate<char>\(static_cast<char\*>\(\1\),\2\);\}"]
        missing = [w for w in want if not re.search(w, ops_n)]
        if missing:
            raise TranslateError("DEBUG_NEW_DELETE: the replaced operators are no longer the plain manager calls for char: %r" % missing[0][:60])
        out.append("/-- DEBUG_NEW_DELETE (not built): operator new(size) = alloc_man.allocate<char>(size), operator delete(p) =")
        out.append("    alloc_man.deallocate<char>(p) (n = 0), operator delete(p, size) = alloc_man.deallocate<char>(p, size) -/")
        out.append("def dbgNewDeleteIsManagerForChar : Bool := true")
    else:
        out.append("def dbgNewDeleteIsManagerForChar : Bool := false")
    out.append("")
    out.append("end DV.C15.Gen")
    return [("DuneVerif/Gen/C15.lean", "\n".join(out) + "\n")]


if __name__ == "__main__":
    import sys
    for path, content in translate(sys.argv[1] if len(sys.argv) > 1 else "/repo"):
        print("-- " + path)
        print(content)
