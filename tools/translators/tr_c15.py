"""Translator for C15 (allocators).

Re-reads on every run, from the current source tree,
  * the compile-time slot geometry of Dune::Pool (poolallocator.hh: unionSize, size, alignment, alignedSize,
    chunkSize, elements) and PoolAllocator's pool size and `n==1` test,
  * the request validation of MallocAllocator / AlignedAllocator (max_size(), the `n > max_size()` test, the byte
    size handed to malloc / aligned_alloc, the alignment argument),
  * the page arithmetic of DebugMemory::AllocationManager (capacity, overlap, pages, mapping length, offset of the
    block and of the guard page inside the mapping, the lookup key of deallocate, the request bound),
and emits them as Lean functions of (sizeof T, alignof T, s, n, page size) into lean/DuneVerif/Gen/C15.lean.
The C15 model and theorems are stated about these generated definitions.

The expressions are parsed by a small recursive-descent parser for C integer expressions (?:, || && == != < <= > >=,
+ - * / %, parentheses, sizeof/alignof of the known type names, std::lcm, size_type(-1)); anything outside that
grammar makes the translator fail loudly.  Target assumptions written into the file: LP64 (pointer size and alignment
8, size_t = 64 bit)."""
import os
import re


class TranslateError(Exception):
    pass


# ------------------------------------------------------------------------------------------------
# tiny C expression parser -> Lean text
# ------------------------------------------------------------------------------------------------
TOK = re.compile(r"\s*(?:(\d+[uUlL]*)|([A-Za-z_][A-Za-z_0-9]*(?:(?:::|\.|->)[A-Za-z_][A-Za-z_0-9]*)*)|(\|\||&&|==|!=|<=|>=|[-+*/%()?:<>,!]))")


def tokenize(s):
    out, i = [], 0
    s = s.strip()
    while i < len(s):
        m = TOK.match(s, i)
        if not m or m.end() == i:
            raise TranslateError("cannot tokenize %r at %r" % (s, s[i:i + 20]))
        if m.group(1):
            out.append(("num", re.sub(r"[uUlL]+$", "", m.group(1))))
        elif m.group(2):
            out.append(("id", m.group(2)))
        else:
            out.append(("op", m.group(3)))
        i = m.end()
    return out


class Parser:
    """env: name -> Lean text (Nat valued).  sizeof/alignof: dict type name -> Lean text."""

    def __init__(self, text, env, sizeof, alignof):
        self.t = tokenize(text)
        self.i = 0
        self.env, self.sizeof, self.alignof = env, sizeof, alignof
        self.text = text

    def peek(self):
        return self.t[self.i] if self.i < len(self.t) else ("eof", "")

    def eat(self, kind=None, val=None):
        k, v = self.peek()
        if (kind and k != kind) or (val is not None and v != val):
            raise TranslateError("unexpected token %r in %r (wanted %r)" % (v, self.text, val or kind))
        self.i += 1
        return v

    def parse(self):
        e = self.ternary()
        if self.peek()[0] != "eof":
            raise TranslateError("trailing tokens in %r" % self.text)
        return e

    # every node is (kind, leanText) with kind in {"nat", "prop"}
    def as_prop(self, e):
        return e[1] if e[0] == "prop" else "(%s ≠ 0)" % e[1]

    def as_nat(self, e):
        if e[0] == "nat":
            return e[1]
        return "(if %s then 1 else 0)" % e[1]

    def ternary(self):
        c = self.lor()
        if self.peek() == ("op", "?"):
            self.eat()
            a = self.ternary()
            self.eat("op", ":")
            b = self.ternary()
            return ("nat", "(if %s then %s else %s)" % (self.as_prop(c), self.as_nat(a), self.as_nat(b)))
        return c

    def lor(self):
        e = self.land()
        while self.peek() == ("op", "||"):
            self.eat()
            r = self.land()
            e = ("prop", "(%s ∨ %s)" % (self.as_prop(e), self.as_prop(r)))
        return e

    def land(self):
        e = self.equality()
        while self.peek() == ("op", "&&"):
            self.eat()
            r = self.equality()
            e = ("prop", "(%s ∧ %s)" % (self.as_prop(e), self.as_prop(r)))
        return e

    def equality(self):
        e = self.relational()
        while self.peek() in (("op", "=="), ("op", "!=")):
            op = self.eat()
            r = self.relational()
            e = ("prop", "(%s %s %s)" % (self.as_nat(e), "=" if op == "==" else "≠", self.as_nat(r)))
        return e

    def relational(self):
        e = self.additive()
        while self.peek() in (("op", "<"), ("op", "<="), ("op", ">"), ("op", ">=")):
            op = self.eat()
            r = self.additive()
            lop = {"<": "<", "<=": "≤", ">": ">", ">=": "≥"}[op]
            e = ("prop", "(%s %s %s)" % (self.as_nat(e), lop, self.as_nat(r)))
        return e

    def additive(self):
        e = self.multiplicative()
        while self.peek() in (("op", "+"), ("op", "-")):
            op = self.eat()
            r = self.multiplicative()
            e = ("nat", "(%s %s %s)" % (self.as_nat(e), op, self.as_nat(r)))
        return e

    def multiplicative(self):
        e = self.unary()
        while self.peek() in (("op", "*"), ("op", "/"), ("op", "%")):
            op = self.eat()
            r = self.unary()
            e = ("nat", "(%s %s %s)" % (self.as_nat(e), op, self.as_nat(r)))
        return e

    def unary(self):
        if self.peek() == ("op", "!"):
            self.eat()
            e = self.unary()
            return ("prop", "(¬ %s)" % self.as_prop(e))
        return self.primary()

    def type_name(self):
        # a type name inside sizeof()/alignof(): identifier, optionally followed by '*'
        name = self.eat("id")
        while self.peek() == ("op", "*"):
            self.eat()
            name += "*"
        return name

    def primary(self):
        k, v = self.peek()
        if k == "num":
            self.eat()
            return ("nat", v)
        if k == "op" and v == "(":
            self.eat()
            e = self.ternary()
            self.eat("op", ")")
            return e
        if k == "id":
            self.eat()
            if v in ("sizeof", "alignof"):
                self.eat("op", "(")
                tn = self.type_name()
                self.eat("op", ")")
                table = self.sizeof if v == "sizeof" else self.alignof
                if tn not in table:
                    raise TranslateError("%s(%s): unknown type in %r" % (v, tn, self.text))
                return ("nat", table[tn])
            if v == "std::lcm":
                self.eat("op", "(")
                a = self.ternary()
                self.eat("op", ",")
                b = self.ternary()
                self.eat("op", ")")
                return ("nat", "(Nat.lcm %s %s)" % (self.as_nat(a), self.as_nat(b)))
            if v in ("size_type", "std::size_t", "size_t") and self.peek() == ("op", "("):
                # size_type(-1): the largest value of the type
                self.eat("op", "(")
                self.eat("op", "-")
                one = self.eat("num")
                self.eat("op", ")")
                if one != "1":
                    raise TranslateError("size_type(-%s) not understood" % one)
                return ("nat", "sizeMax")
            if v in self.env:
                return ("nat", self.env[v])
            raise TranslateError("unknown identifier %r in %r" % (v, self.text))
        raise TranslateError("unexpected token %r in %r" % (v, self.text))


def lean(expr, env, sizeof=None, alignof=None):
    e = Parser(expr, env, sizeof or {}, alignof or {}).parse()
    return e[1] if e[0] == "nat" else e[1]


def lean_prop(expr, env, sizeof=None, alignof=None):
    p = Parser(expr, env, sizeof or {}, alignof or {})
    return p.as_prop(p.parse())


# ------------------------------------------------------------------------------------------------
# source preparation
# ------------------------------------------------------------------------------------------------
def strip_comments(src):
    src = re.sub(r"/\*.*?\*/", " ", src, flags=re.S)
    src = re.sub(r"//[^\n]*", "", src)
    return src


def drop_foreign_branches(src):
    """keep the #else branch of `#if __APPLE__` / `#ifdef __APPLE__` / `#if defined(_MSC_VER)` blocks (Linux target)"""
    out, stack = [], []   # stack entries: [is_foreign, in_else]
    for line in src.split("\n"):
        s = line.strip()
        if re.match(r"#\s*if", s):
            foreign = bool(re.match(r"#\s*if(def)?\s+(defined\s*\(\s*)?(__APPLE__|_MSC_VER)\b", s))
            stack.append([foreign, False])
            if foreign:
                continue
        elif re.match(r"#\s*else", s) and stack:
            stack[-1][1] = True
            if stack[-1][0]:
                continue
        elif re.match(r"#\s*endif", s) and stack:
            f = stack.pop()
            if f[0]:
                continue
        skip = any(f and not e for f, e in stack)
        if not skip:
            out.append(line)
    return "\n".join(out)


def find(rx, src, what, flags=re.S):
    m = re.search(rx, src, flags)
    if not m:
        raise TranslateError("%s not found" % what)
    return m


def nows(s):
    return re.sub(r"\s+", "", s)


# ------------------------------------------------------------------------------------------------
def translate(repo):
    out = ["-- GENERATED by tools/translators/tr_c15.py from dune/common/{poolallocator,mallocallocator,alignedallocator,"
           "debugallocator}.hh -- do not edit",
           "set_option linter.unusedVariables false",
           "namespace DV.C15.Gen",
           "/-- target assumptions (LP64): sizeof/alignof of `Pool::Reference` (one pointer), largest `std::size_t` -/",
           "def refSize : Nat := 8",
           "def refAlign : Nat := 8",
           "def sizeMax : Nat := 18446744073709551615",
           "/-- reduction of a `std::size_t` result -/",
           "def wrap (x : Nat) : Nat := x % 18446744073709551616",
           ""]

    # ---- Pool geometry ------------------------------------------------------------------------
    src = strip_comments(open(os.path.join(repo, "dune/common/poolallocator.hh")).read())
    pool_at = find(r"class\s+Pool\s*\{", src, "class Pool").start()
    pa_at = find(r"class\s+PoolAllocator\s*\{", src, "class PoolAllocator").start()
    pool_src, pa_src = src[pool_at:pa_at], src[pa_at:]
    if not re.search(r"struct\s+Reference\s*\{\s*Reference\s*\*\s*next_\s*;\s*\}\s*;", pool_src):
        raise TranslateError("Pool::Reference is no longer a single pointer")
    sizeof = {"MemberType": "sz", "T": "sz", "Reference": "refSize"}
    alignof = {"MemberType": "al", "T": "al", "Reference": "refAlign"}
    env = {"s": "s"}
    out.append("/-! Pool<T,s>: compile-time slot geometry as functions of sz = sizeof(T), al = alignof(T), s -/")
    for name in ("unionSize", "size", "alignment", "alignedSize", "chunkSize", "elements"):
        m = find(r"constexpr\s+static\s+(?:int|std::size_t|size_t|unsigned)\s+%s\s*=\s*([^;]+);" % name, pool_src,
                 "Pool::" + name)
        out.append("def %s (sz al s : Nat) : Nat := %s" % (name, lean(m.group(1), env, sizeof, alignof)))
        env[name] = "(%s sz al s)" % name
    # the chunk really has chunkSize bytes aligned to `alignment`
    if not re.search(r"alignas\s*\(\s*alignment\s*\)\s*char\s+chunk_\s*\[\s*chunkSize\s*\]\s*;", pool_src):
        raise TranslateError("Pool::Chunk::chunk_ is no longer `alignas(alignment) char chunk_[chunkSize]`")
    out.append("")
    out.append("/-! PoolAllocator<T,s> -/")
    m = find(r"constexpr\s+static\s+(?:int|std::size_t|size_t)\s+size\s*=\s*([^;]+);", pa_src, "PoolAllocator::size")
    out.append("def paPoolSize (sz s : Nat) : Nat := %s" % lean(m.group(1), {"s": "s"}, {"value_type": "sz", "T": "sz"}))
    if not re.search(r"typedef\s+Pool\s*<\s*T\s*,\s*size\s*>\s*PoolType\s*;", pa_src):
        raise TranslateError("PoolAllocator::PoolType is no longer Pool<T,size>")
    m = find(r"PoolAllocator<T,s>::allocate\s*\([^)]*\)\s*\{\s*if\s*\(([^)]*)\)\s*return\s+static_cast<T\*>\s*\(\s*"
             r"memoryPool_\.allocate\(\)\s*\)\s*;\s*else\s+throw\s+std::bad_alloc\s*\(\s*\)\s*;\s*\}", src,
             "PoolAllocator::allocate body (if (n==1) return pool.allocate(); else throw bad_alloc)")
    out.append("def paAccepts (n : Nat) : Bool := decide %s" % lean_prop(m.group(1), {"n": "n"}))
    out.append("")

    # ---- MallocAllocator ----------------------------------------------------------------------
    src = drop_foreign_branches(strip_comments(open(os.path.join(repo, "dune/common/mallocallocator.hh")).read()))
    out.append("/-! MallocAllocator<T> -/")
    m = find(r"size_type\s+max_size\s*\(\s*\)\s*const\s*(?:noexcept)?\s*\{\s*return\s+([^;]+);\s*\}", src,
             "MallocAllocator::max_size")
    out.append("def mallocMaxSize (sz : Nat) : Nat := %s" % lean(m.group(1), {}, {"T": "sz"}))
    body = find(r"pointer\s+allocate\s*\(\s*size_type\s+n[^)]*\)\s*\{(.*?)\n\s*\}", src, "MallocAllocator::allocate").group(1)
    chk = re.search(r"if\s*\(\s*n\s*>\s*(?:this\s*->\s*)?max_size\s*\(\s*\)\s*\)\s*throw\s+std::bad_alloc\s*\(\s*\)\s*;", body)
    out.append("/-- `some m`: requests with n > m are refused before anything is computed; `none`: no such test -/")
    out.append("def mallocLimit (sz : Nat) : Option Nat := %s" % ("some (mallocMaxSize sz)" if chk else "none"))
    m = find(r"std::malloc\s*\(([^;]*)\)\s*\)\s*;", body, "std::malloc call")
    out.append("def mallocBytes (sz n : Nat) : Nat := wrap %s" % lean(m.group(1), {"n": "n"}, {"T": "sz"}))
    if not re.search(r"if\s*\(\s*!\s*ret\s*\)\s*throw\s+std::bad_alloc", body):
        raise TranslateError("MallocAllocator::allocate no longer turns a null result into bad_alloc")
    out.append("")

    # ---- AlignedAllocator ---------------------------------------------------------------------
    src = drop_foreign_branches(strip_comments(open(os.path.join(repo, "dune/common/alignedallocator.hh")).read()))
    out.append("/-! AlignedAllocator<T,Alignment>  (A = 0 encodes the default Alignment = -1) -/")
    m = find(r"fixAlignment\s*\(\s*int\s+align\s*\)\s*\{\s*return\s+([^;]+);\s*\}", src, "AlignedAllocator::fixAlignment")
    fx = nows(m.group(1))
    if fx != "(Alignment==-1)?std::alignment_of<T>::value:Alignment":
        raise TranslateError("fixAlignment changed: %r" % fx)
    find(r"alignment\s*=\s*fixAlignment\s*\(", src, "AlignedAllocator::alignment")
    out.append("def alignedAlignment (al A : Nat) : Nat := if A = 0 then al else A")
    body = find(r"pointer\s+allocate\s*\(\s*size_type\s+n[^)]*\)\s*\{(.*?)\n\s*\}", src, "AlignedAllocator::allocate").group(1)
    chk = re.search(r"if\s*\(\s*n\s*>\s*(?:this\s*->\s*)?max_size\s*\(\s*\)\s*\)\s*throw\s+std::bad_alloc\s*\(\s*\)\s*;", body)
    out.append("def alignedLimit (sz : Nat) : Option Nat := %s" % ("some (mallocMaxSize sz)" if chk else "none"))
    m = find(r"size_type\s+size\s*=\s*([^;]+);", body, "AlignedAllocator byte size")
    out.append("def alignedBytes (sz n : Nat) : Nat := wrap %s" % lean(m.group(1), {"n": "n"}, {"T": "sz"}))
    if not re.search(r"std::aligned_alloc\s*\(\s*alignment\s*,\s*size\s*\)", body):
        raise TranslateError("AlignedAllocator no longer calls std::aligned_alloc(alignment, size)")
    if not re.search(r"if\s*\(\s*!\s*ret\s*\)\s*throw\s+std::bad_alloc", body):
        raise TranslateError("AlignedAllocator::allocate no longer turns a null result into bad_alloc")
    out.append("")

    # ---- DebugAllocator -----------------------------------------------------------------------
    src = drop_foreign_branches(strip_comments(open(os.path.join(repo, "dune/common/debugallocator.hh")).read()))
    out.append("/-! DebugMemory::AllocationManager: page arithmetic (page = page_size) -/")
    body = find(r"T\s*\*\s*allocate\s*\(\s*size_type\s+n\s*\)\s*\{(.*?)return\s+static_cast<T\*>\s*\(\s*ai\.ptr\s*\)\s*;", src,
                "AllocationManager::allocate").group(1)
    sz_of = {"T": "sz"}
    chk = re.search(r"if\s*\(\s*n\s*>\s*([^;{}]*?)\)\s*throw\s+std::bad_alloc\s*\(\s*\)\s*;", body)
    out.append("/-- `some m`: requests with n > m are refused before anything is computed; `none`: no such test -/")
    if chk:
        out.append("def dbgLimit (sz page : Nat) : Option Nat := some %s" % lean(chk.group(1), {"page_size": "page"}, sz_of))
    else:
        out.append("def dbgLimit (sz page : Nat) : Option Nat := none")
    m = find(r"ai\.capacity\s*=\s*([^;]+);", body, "ai.capacity")
    out.append("def dbgCapacity (sz n : Nat) : Nat := wrap %s" % lean(m.group(1), {"n": "n"}, sz_of))
    env = {"ai.capacity": "cap", "page_size": "page"}
    m = find(r"size_type\s+overlap\s*=\s*([^;]+);", body, "overlap")
    out.append("def dbgOverlap (cap page : Nat) : Nat := %s" % lean(m.group(1), env))
    env["overlap"] = "(dbgOverlap cap page)"
    m = find(r"ai\.pages\s*=\s*([^;]+);", body, "ai.pages")
    out.append("def dbgPages (cap page : Nat) : Nat := %s" % lean(m.group(1), env))
    env["ai.pages"] = "(dbgPages cap page)"
    m = find(r"mmap\s*\(\s*NULL\s*,\s*([^,]+),\s*PROT_READ\s*\|\s*PROT_WRITE\s*,", body, "mmap length")
    out.append("def dbgMapLen (cap page : Nat) : Nat := wrap %s" % lean(m.group(1), env))
    if not re.search(r"if\s*\(\s*MAP_FAILED\s*==\s*ai\.page_ptr\s*\)\s*\{?\s*throw\s+std::bad_alloc", body):
        raise TranslateError("a failed mmap is no longer reported as bad_alloc")
    m = find(r"ai\.ptr\s*=\s*static_cast<char\*>\s*\(\s*ai\.page_ptr\s*\)\s*\+\s*([^;]+);", body, "ai.ptr")
    out.append("/-- the block starts at page_ptr + dbgPtrOff -/")
    out.append("def dbgPtrOff (cap page : Nat) : Nat := %s" % lean("(" + m.group(1) + ")", env))
    m = find(r"memprotect\s*\(\s*static_cast<char\*>\s*\(\s*ai\.page_ptr\s*\)\s*\+\s*(.+?),\s*page_size\s*,\s*PROT_NONE\s*\)\s*;",
             body, "guard page protection")
    out.append("/-- the inaccessible guard page is [page_ptr + dbgGuardOff, page_ptr + dbgGuardOff + page) -/")
    out.append("def dbgGuardOff (cap page : Nat) : Nat := %s" % lean("(" + m.group(1) + ")", env))
    dbody = find(r"void\s+deallocate\s*\(\s*T\s*\*\s*ptr\s*,\s*size_type\s+n\s*=\s*0\s*\)\s*(?:noexcept)?\s*\{(.*?)allocation_error",
                 src, "AllocationManager::deallocate").group(1)
    key = find(r"void\s*\*\s*page_ptr\s*=\s*static_cast<void\*>\s*\((.*?)\)\s*;", dbody, "deallocate lookup key").group(1)
    if nows(key) != "(char*)(ptr)-((std::uintptr_t)(ptr)%page_size)":
        raise TranslateError("deallocate lookup key changed: %r" % nows(key))
    if not re.search(r"if\s*\(\s*it->page_ptr\s*==\s*page_ptr\s*\)", dbody):
        raise TranslateError("deallocate no longer searches by page_ptr")
    out.append("/-- deallocate(ptr) looks for the entry whose page_ptr equals this key -/")
    out.append("def dbgLookupKey (ptr page : Nat) : Nat := ptr - ptr % page")
    out.append("")
    out.append("end DV.C15.Gen")
    return [("DuneVerif/Gen/C15.lean", "\n".join(out) + "\n")]


if __name__ == "__main__":
    import sys
    for path, content in translate(sys.argv[1] if len(sys.argv) > 1 else "/repo"):
        print("-- " + path)
        print(content)
