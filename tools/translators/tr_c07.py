"""Translator for C07 (collectives and MPI marshalling).

Re-reads on every run, from the current source tree,
  * mpitraits.hh: the table `ComposeMPITraits(<C++ type>, <MPI datatype handle>)`,
  * mpicommunication.hh: the table `ComposeMPIOp(<functor template>, <MPI_Op handle>)`, the `commute` flag handed to
    `MPI_Op_create` for user functors and the argument order of the functor call inside the MPI callback,
  * communication.hh: the body of every collective of the sequential stand-in `Communication<No_Comm>` (primary
    template), translated statement by statement into the loop shape `DV.C07.Seq.forCopy`, the constants returned by
    `rank()`, `size()`, `barrier()` and which point-to-point methods throw `ParallelError`,
and writes them to lean/DuneVerif/Gen/C07.lean.  Props/C07.lean proves that the tables agree with what the MPI
standard says about the handles (`Model.mpiCType`, `Model.mpiOpFunctor`), that user ops are not declared commutative,
and that every generated stand-in body is the model's `Seq.*` function (about which the `seq_eq_oneproc_*` theorems
are proved).  Anything outside the small statement grammar makes the translator fail loudly.
"""
import os
import re


class TranslateError(Exception):
    pass


def strip_comments(s):
    s = re.sub(r"/\*.*?\*/", " ", s, flags=re.S)
    s = re.sub(r"//[^\n]*", " ", s)
    return s


def balanced(s, i, open_ch="{", close_ch="}"):
    """s[i] == open_ch; returns index just after the matching close"""
    assert s[i] == open_ch
    d = 0
    for j in range(i, len(s)):
        if s[j] == open_ch:
            d += 1
        elif s[j] == close_ch:
            d -= 1
            if d == 0:
                return j + 1
    raise TranslateError("unbalanced %s at %d" % (open_ch, i))


def lean_str(s):
    return '"' + s.replace("\\", "\\\\").replace('"', '\\"') + '"'


def norm_type(t):
    return re.sub(r"\s+", " ", t.strip()).replace("< ", "<").replace(" >", ">")


# ------------------------------------------------------------------------------------------------
# tables
# ------------------------------------------------------------------------------------------------
def traits_table(src):
    rows = []
    for m in re.finditer(r"^\s*ComposeMPITraits\s*\((.*),\s*(\w+)\s*\)\s*;", src, flags=re.M):
        rows.append((norm_type(m.group(1)), m.group(2)))
    if not rows:
        raise TranslateError("no ComposeMPITraits(...) lines found in mpitraits.hh")
    # the macro itself must still map (p, m) to `getType(){ return m; }` with is_intrinsic = true
    mac = re.search(r"#define\s+ComposeMPITraits\(p,m\)(.*?)\n\s*\n|#define\s+ComposeMPITraits\(p,m\)((?:.*\\\n)*.*)", src)
    body = src[src.index("#define ComposeMPITraits(p,m)"):]
    body = body[:body.index("ComposeMPITraits(char")]
    flat = re.sub(r"[\\\s]+", " ", body)
    if not re.search(r"struct MPITraits<p>\s*\{\s*static inline MPI_Datatype getType\(\)\s*\{\s*return m;\s*\}\s*static constexpr bool is_intrinsic = true;\s*\}", flat):
        raise TranslateError("the ComposeMPITraits macro no longer has the shape `getType(){ return m; } is_intrinsic = true`: " + flat[:200])
    return rows


def op_table(src):
    rows = []
    for m in re.finditer(r"^\s*ComposeMPIOp\s*\(\s*([\w:]+)\s*,\s*(\w+)\s*\)\s*;", src, flags=re.M):
        rows.append((m.group(1), m.group(2)))
    if not rows:
        raise TranslateError("no ComposeMPIOp(...) lines found in mpicommunication.hh")
    body = src[src.index("#define ComposeMPIOp(func,op)"):]
    body = body[:body.index("ComposeMPIOp(std::plus")]
    flat = re.sub(r"[\\\s]+", " ", body)
    if not re.search(r"class Generic_MPI_Op<T, func<S>, std::enable_if_t<MPITraits<S>::is_intrinsic>\s*>\s*\{\s*public:\s*static MPI_Op get\(\)\s*\{\s*return op;\s*\}", flat):
        raise TranslateError("the ComposeMPIOp macro no longer has the shape `Generic_MPI_Op<T, func<S>, enable_if intrinsic S>::get(){ return op; }`: " + flat[:240])
    return rows


def user_op(src):
    m = re.search(r"MPI_Op_create\s*\(\s*\(void \(\*\)\(void\*, void\*, int\*, MPI_Datatype\*\)\)\s*&operation\s*,\s*(\w+)\s*,\s*op\.get\(\)\s*\)", src)
    if not m:
        raise TranslateError("MPI_Op_create(...&operation, <commute>, op.get()) not found")
    if m.group(1) not in ("true", "false", "0", "1"):
        raise TranslateError("commute argument of MPI_Op_create is not a literal: " + m.group(1))
    commute = m.group(1) in ("true", "1")
    m2 = re.search(r"static void operation\s*\(Type \*(\w+), Type \*(\w+), int \*(\w+), MPI_Datatype\*\)\s*\{", src)
    if not m2:
        raise TranslateError("Generic_MPI_Op::operation not found")
    body = src[m2.end():balanced(src, m2.end() - 1) - 1]
    a_in, a_inout, a_len, body = m2.group(1), m2.group(2), m2.group(3), re.sub(r"\s+", " ", body).strip()
    pat = (r"BinaryFunction func; for \(int i=0; i< \*%s; \+\+i, \+\+%s, \+\+%s\) \{ Type temp; temp = func\(\*(\w+), \*(\w+)\); \*(\w+) = temp; \}"
           % (a_len, a_in, a_inout))
    m3 = re.fullmatch(pat, body)
    if not m3:
        raise TranslateError("body of Generic_MPI_Op::operation not recognised: " + body[:200])
    role = {a_in: "in", a_inout: "inout"}
    for g in m3.groups():
        if g not in role:
            raise TranslateError("unknown operand %s in Generic_MPI_Op::operation" % g)
    return commute, [role[m3.group(1)], role[m3.group(2)]], role[m3.group(3)]


# ------------------------------------------------------------------------------------------------
# lazily created singletons (MPI_Op per Generic_MPI_Op instantiation, MPI_Datatype per MPITraits instantiation)
# ------------------------------------------------------------------------------------------------
def split_top(text, sep=","):
    depth, cur, parts = 0, "", []
    for c in text:
        if c in "<([":
            depth += 1
        elif c in ">)]":
            depth -= 1
        if c == sep and depth == 0:
            parts.append(cur)
            cur = ""
        else:
            cur += c
    parts.append(cur)
    return [q for q in (x.strip() for x in parts) if q]


def template_params(header):
    """'typename Type, typename BinaryFunction, typename Enable=void' -> ['Type', 'BinaryFunction', 'Enable']"""
    names = []
    for prm in split_top(header):
        prm = prm.split("=")[0].strip()
        m = re.search(r"(%s)\s*$" % IDENT_, prm)
        if not m:
            raise TranslateError("template parameter not recognised: %r" % prm)
        names.append(m.group(1))
    return names


IDENT_ = r"[A-Za-z_]\w*"


def idents(text):
    return set(re.findall(IDENT_, text))


def singleton_rows(sources):
    """one row (family, slot, used) per class template MPITraits<...> / Generic_MPI_Op<...> that creates a handle lazily:
    family = class name + argument pattern with the template parameters numbered $1, $2, ...;
    slot   = positions of the template parameters that select the static storage holding the handle;
    used   = positions of the template parameters that occur in the class body / the out-of-class getter."""
    rows = []
    for src0 in sources:
        src = re.sub(r"\\\n", " ", src0)          # macro continuation lines
        for m in re.finditer(r"template\s*<([^{};]*?)>\s*(?:struct|class)\s+(MPITraits|Generic_MPI_Op)\s*(<[^{};]*>)?\s*\{", src):
            header, cname, spec = m.group(1), m.group(2), m.group(3)
            if not header.strip():
                continue                              # explicit specialisation (ComposeMPITraits): no template parameter, no state
            params = template_params(header)
            start = m.end() - 1
            body = src[start + 1:balanced(src, start) - 1]
            getter = "getType" if cname == "MPITraits" else "get"
            spec_n = re.sub(r"\s+", "", spec) if spec else "<" + ",".join(params) + ">"
            gm = re.search(r"\b%s\s*\(\s*\)\s*\{" % getter, body)
            if gm:
                gbody = body[gm.end():balanced(body, gm.end() - 1) - 1]
                outside = ""
            else:
                gbody = None
                for om in re.finditer(r"\b%s\s*(<[^{};()]*>)\s*::\s*%s\s*\(\s*\)\s*\{" % (cname, getter), src):
                    if re.sub(r"\s+", "", om.group(1)) == spec_n:
                        gbody = src[om.end():balanced(src, om.end() - 1) - 1]
                if gbody is None:
                    raise TranslateError("%s%s: definition of %s() not found" % (cname, spec_n, getter))
                outside = gbody
            flat = re.sub(r"\s+", " ", gbody).strip()
            if re.fullmatch(r"return %s ?;" % IDENT_, flat) and not re.search(r"\bstatic\b[^;(]*\b%s\s*;" % flat.split()[1].rstrip(";"), body):
                continue                              # returns a predefined handle (ComposeMPIOp): no state
            hm = re.search(r"if ?\( ?! ?(%s) ?\)|if ?\( ?(%s) ?== ?MPI_DATATYPE_NULL ?\)" % (IDENT_, IDENT_), flat)
            if not hm:
                raise TranslateError("%s%s::%s(): no `if (!handle)` / `if (handle == MPI_DATATYPE_NULL)` test: %s" % (cname, spec_n, getter, flat[:160]))
            var = hm.group(1) or hm.group(2)
            if not re.search(r"return \*? ?%s ?; ?$" % var, flat):
                raise TranslateError("%s%s::%s() does not end in `return %s;`" % (cname, spec_n, getter, var))
            decl = r"static\s+(?:inline\s+)?(?:MPI_Datatype|std::unique_ptr\s*<\s*MPI_Op\s*>)\s+%s\b" % var
            body_wo_getter = body if not gm else body[:gm.start()] + body[balanced(body, gm.end() - 1):]
            if re.search(decl, body_wo_getter) or re.search(decl, gbody):
                slot = list(params)                   # static data member / function-local static: one per instantiation
            else:
                vm = re.search(r"(?:auto|MPI_Datatype|std::unique_ptr\s*<\s*MPI_Op\s*>)\s*&\s*%s\s*=\s*[\w:]+\s*(?:<([^;]*)>)?\s*;" % var, gbody)
                if not vm:
                    raise TranslateError("%s%s::%s(): storage of the handle `%s` not recognised" % (cname, spec_n, getter, var))
                args = idents(vm.group(1) or "")
                slot = [q for q in params if q in args]   # variable (template): one per argument list
            used_ids = idents(body) | idents(outside)
            used = [q for q in params if q in used_ids]
            fam = cname + spec_n
            for k, q in enumerate(params):
                fam = re.sub(r"\b%s\b" % re.escape(q), "$%d" % (k + 1), fam)
            pos = {q: str(k + 1) for k, q in enumerate(params)}
            rows.append((fam, [pos[q] for q in slot], [pos[q] for q in used]))
    if not rows:
        raise TranslateError("no lazily created MPI handle found")
    return rows


# ------------------------------------------------------------------------------------------------
# the sequential stand-in
# ------------------------------------------------------------------------------------------------
def class_body(src):
    m = re.search(r"template\s*<\s*typename\s+Communicator\s*>\s*class\s+Communication\s*\{", src)
    if not m:
        raise TranslateError("primary template Communication<Communicator> not found")
    start = m.end() - 1
    return src[start + 1:balanced(src, start) - 1]


def methods(body):
    """yield (name, [(type, name)], bodytext) for every member function defined at depth 0 of the class body"""
    i, last = 0, 0
    out = []
    while i < len(body):
        ch = body[i]
        if ch == "{":
            end = balanced(body, i)
            sig = body[last:i]
            sig = sig.split(";")[-1]
            sig = re.sub(r"\b(public|private|protected)\s*:", " ", sig)
            sig = re.sub(r"\[\[maybe_unused\]\]", " ", sig)
            sig = re.sub(r"\s+", " ", sig).strip()
            # drop a leading template<...>
            while sig.startswith("template"):
                j = sig.index("<")
                sig = sig[balanced(sig, j, "<", ">"):].strip()
            # constructor initialiser lists are not used in this class
            p = sig.find("(")
            if p >= 0:
                q = balanced(sig, p, "(", ")")
                head, params = sig[:p].strip(), sig[p + 1:q - 1].strip()
                name = head.split()[-1] if head else ""
                if head.startswith("operator") or " operator" in head:
                    name = "operator"
                plist = []
                if params:
                    depth, cur, parts = 0, "", []
                    for c in params:
                        if c in "<(":
                            depth += 1
                        elif c in ">)":
                            depth -= 1
                        if c == "," and depth == 0:
                            parts.append(cur)
                            cur = ""
                        else:
                            cur += c
                    parts.append(cur)
                    for prm in parts:
                        prm = prm.split("=")[0].strip()
                        mm = re.match(r"(.*?)(\w+)$", prm)
                        if not mm or not mm.group(1).strip():
                            plist.append((prm, "_unnamed%d" % len(plist)))   # unnamed parameter (constructors)
                            continue
                        plist.append((mm.group(1).strip(), mm.group(2)))
                out.append((name, plist, re.sub(r"\s+", " ", body[i + 1:end - 1]).strip()))
            i = end
            last = end
        else:
            i += 1
    return out


def is_buffer(ctype):
    t = ctype.replace("const", "").strip()
    if re.fullmatch(r"int\s*\*?", t) or t in ("void*", "void *"):
        return False
    return True


IDENT = r"[A-Za-z_]\w*"


def lean_name(n):
    return n + "_" if n in ("in", "out", "end", "from", "to", "at", "do", "then", "else", "fun", "let", "have", "show") else n


def expr(text, nats, loopvar=None):
    """sum/difference of atoms {number, ident, *ident, loop variable} -> Lean Nat expression"""
    text = text.strip()
    toks = re.findall(r"\*?\s*%s|\d+|[-+]" % IDENT, text)
    if "".join(toks).replace(" ", "") != text.replace(" ", ""):
        raise TranslateError("index/bound expression not in the grammar: %r" % text)
    out = []
    expect_atom = True
    for t in toks:
        t = t.replace(" ", "")
        if t in "+-":
            if expect_atom:
                raise TranslateError("unary sign in %r" % text)
            out.append(t)
            expect_atom = True
            continue
        if not expect_atom:
            raise TranslateError("juxtaposed atoms in %r" % text)
        expect_atom = False
        if t.isdigit():
            out.append(t)
        else:
            nm = t.lstrip("*")
            if nm == loopvar:
                if t.startswith("*"):
                    raise TranslateError("dereferenced loop variable in %r" % text)
                out.append(nm)
            elif nm in nats:
                out.append(lean_name(nm))
            else:
                raise TranslateError("unknown name %s in %r" % (nm, text))
    if expect_atom:
        raise TranslateError("dangling operator in %r" % text)
    return " ".join(out)


def translate_body(name, params, body):
    """-> (lean expression of the result buffer, kind)"""
    bufs = [p for (t, p) in params if is_buffer(t)]
    nats = [p for (t, p) in params if not is_buffer(t)]
    fwd = r"(?:std::forward<\w+>\(\s*(%s)\s*\)|(%s))" % (IDENT, IDENT)

    def unf(m, k):
        return m.group(k) or m.group(k + 1)

    b = body
    if re.fullmatch(r"DUNE_THROW\s*\(\s*ParallelError\s*,.*\)\s*;", b):
        return None, "throws"
    m = re.fullmatch(r"return (%s) ?;" % IDENT, b)
    if m and m.group(1) in bufs:
        return lean_name(m.group(1)), "value"
    m = re.fullmatch(r"return (\d+) ?;", b)
    if m:
        if name in ("rank", "size", "barrier"):
            return m.group(1), "const"
        if m.group(1) != "0":
            raise TranslateError("%s returns the error code %s" % (name, m.group(1)))
        if not bufs:
            raise TranslateError("%s: no buffer parameter" % name)
        return lean_name(bufs[0]), "value"
    m = re.fullmatch(r"return \{ ?%s ?\} ?;" % fwd, b)
    if m and unf(m, 1) in bufs:
        return lean_name(unf(m, 1)), "value"
    # for (int i=S; i<B; i++) L[IL] = R[IR]; return 0;
    m = re.fullmatch(r"for ?\( ?int (%s) ?= ?([^;]+); ?(%s) ?< ?([^;]+); ?(?:(%s) ?\+\+|\+\+ ?(%s)) ?\) (%s) ?\[([^\]]+)\] ?= ?(%s) ?\[([^\]]+)\] ?; return 0 ?;"
                     % (IDENT, IDENT, IDENT, IDENT, IDENT, IDENT), b)
    if m:
        v = m.group(1)
        if m.group(3) != v or (m.group(5) or m.group(6)) != v:
            raise TranslateError("%s: loop variable mismatch" % name)
        L, R = m.group(7), m.group(9)
        if L not in bufs or R not in bufs:
            raise TranslateError("%s: loop assigns %s[..] = %s[..], not buffers" % (name, L, R))
        return ("DV.C07.Seq.forCopy e %s %s (%s) (%s) (fun %s => %s) (fun %s => %s)"
                % (lean_name(R), lean_name(L), expr(m.group(2), nats), expr(m.group(4), nats), v, expr(m.group(8), nats, v),
                   v, expr(m.group(10), nats, v))), "loop"
    # pointer walk: for(const T* end=S+N; S < end; ++S, ++D) *D=*S; return 0;
    m = re.fullmatch(r"for ?\( ?const T ?\* ?(%s) ?= ?(%s) ?\+ ?(%s) ?; ?(%s) ?< ?(%s) ?; ?\+\+(%s) ?, ?\+\+(%s) ?\) ?\* ?(%s) ?= ?\* ?(%s) ?; return 0 ?;"
                     % ((IDENT,) * 9), b)
    if m:
        endv, S, N, S2, end2, i1, i2, D, S3 = m.groups()
        if not (S == S2 == S3 and endv == end2 and {i1, i2} == {S, D} and S in bufs and D in bufs and N in nats):
            raise TranslateError("%s: pointer loop not recognised" % name)
        return ("DV.C07.Seq.forCopy e %s %s (0) (%s) (fun i => i) (fun i => i)" % (lean_name(S), lean_name(D), lean_name(N))), "loop"
    # std::copy(in, in+len, out); return 0;
    m = re.fullmatch(r"std::copy ?\( ?(%s) ?, ?(%s) ?\+ ?([^,]+), ?(%s) ?\) ?; return 0 ?;" % (IDENT, IDENT, IDENT), b)
    if m and m.group(1) == m.group(2) and m.group(1) in bufs and m.group(4) in bufs:
        return ("DV.C07.Seq.forCopy e %s %s (0) (%s) (fun i => i) (fun i => i)"
                % (lean_name(m.group(1)), lean_name(m.group(4)), expr(m.group(3), nats))), "loop"
    # *(out.begin()) = fwd(in); return {fwd(out)};
    m = re.fullmatch(r"\* ?\( ?(%s)\.begin\(\) ?\) ?= ?%s ?; return \{ ?%s ?\} ?;" % (IDENT, fwd, fwd), b)
    if m and m.group(1) in bufs and unf(m, 2) in bufs and unf(m, 4) == m.group(1):
        return "DV.C07.Seq.assignElem e %s 0 %s 0" % (lean_name(unf(m, 2)), lean_name(m.group(1))), "assign"
    # out = *(fwd(in).begin()); return {fwd(out)};
    m = re.fullmatch(r"(%s) ?= ?\* ?\( ?%s\.begin\(\) ?\) ?; return \{ ?%s ?\} ?;" % (IDENT, fwd, fwd), b)
    if m and m.group(1) in bufs and unf(m, 2) in bufs and unf(m, 4) == m.group(1):
        return "DV.C07.Seq.assignElem e %s 0 %s 0" % (lean_name(unf(m, 2)), lean_name(m.group(1))), "assign"
    # out = fwd(in); return {fwd(out)};
    m = re.fullmatch(r"(%s) ?= ?%s ?; return \{ ?%s ?\} ?;" % (IDENT, fwd, fwd), b)
    if m and m.group(1) in bufs and unf(m, 2) in bufs and unf(m, 4) == m.group(1):
        return lean_name(unf(m, 2)), "value"
    raise TranslateError("body of sequential %s/%d not in the statement grammar: %r" % (name, len(params), b[:160]))


COLLECTIVES = ["sum", "prod", "min", "max", "broadcast", "ibroadcast", "gather", "igather", "gatherv", "scatter", "iscatter",
               "scatterv", "allgather", "iallgather", "allgatherv", "allreduce", "iallreduce"]
P2P = ["send", "isend", "recv", "irecv", "rrecv"]


def translate(repo):
    par = os.path.join(repo, "dune/common/parallel")
    traits_src = strip_comments(open(os.path.join(par, "mpitraits.hh")).read())
    comm_src = strip_comments(open(os.path.join(par, "mpicommunication.hh")).read())
    seq_src = strip_comments(open(os.path.join(par, "communication.hh")).read())
    plocal_src = strip_comments(open(os.path.join(par, "plocalindex.hh")).read())
    remote_src = strip_comments(open(os.path.join(par, "remoteindices.hh")).read())

    out = ["import DuneVerif.Model.C07",
           "-- GENERATED by tools/translators/tr_c07.py from dune/common/parallel/{mpitraits,mpicommunication,communication}.hh"
           " -- do not edit",
           "set_option linter.unusedVariables false",
           "namespace DV.C07.Gen",
           "",
           "/-- `ComposeMPITraits(p, m)`: C++ type -> predefined MPI datatype handle -/",
           "def traitsTable : List (String × String) := ["]
    rows = traits_table(traits_src)
    out += ["  (%s, %s)%s" % (lean_str(p), lean_str(m), "," if k + 1 < len(rows) else "") for k, (p, m) in enumerate(rows)]
    out += ["]", "",
            "/-- `ComposeMPIOp(func, op)`: functor template (on an intrinsic element type) -> predefined MPI_Op handle -/",
            "def opTable : List (String × String) := ["]
    rows = op_table(comm_src)
    out += ["  (%s, %s)%s" % (lean_str(f), lean_str(o), "," if k + 1 < len(rows) else "") for k, (f, o) in enumerate(rows)]
    commute, args, target = user_op(comm_src)
    out += ["]", "",
            "/-- the `commute` argument `Generic_MPI_Op::get` passes to `MPI_Op_create` for user functors -/",
            "def userOpCommute : Bool := %s" % ("true" if commute else "false"),
            "/-- the MPI callback computes `<target>[i] = func(<args.0>[i], <args.1>[i])` -/",
            "def userOpArgs : List String := [%s]" % ", ".join(lean_str(a) for a in args),
            "def userOpTarget : String := %s" % lean_str(target),
            "",
            "/-- class templates that create an MPI handle lazily (`if (!handle) handle = create(); return handle;`): template",
            "parameters (by position) that select the static storage of the handle / that occur in the creating code -/",
            "def singletonTable : List DV.C07.Reg.Row := ["]
    srows = singleton_rows([comm_src, traits_src, plocal_src, remote_src])
    out += ["  ⟨%s, [%s], [%s]⟩%s" % (lean_str(f), ", ".join(lean_str(x) for x in sl), ", ".join(lean_str(x) for x in us),
                                  "," if k + 1 < len(srows) else "") for k, (f, sl, us) in enumerate(srows)]
    out += ["]",
            "",
            "/-! ### `Communication<No_Comm>` (primary template in communication.hh), body by body -/",
            "namespace Seq",
            "variable {α : Type}"]
    seen = {}
    throws = []
    consts = {}
    for (name, params, body) in methods(class_body(seq_src)):
        if name in ("Communication", "operator", ""):
            continue
        if name in ("rank", "size", "barrier"):
            val, kind = translate_body(name, params, body)
            if kind != "const":
                raise TranslateError("%s() does not return a constant" % name)
            consts[name] = val
            continue
        if name == "ibarrier":
            if body.replace(" ", "") != "return{true};":
                raise TranslateError("ibarrier() body changed: " + body)
            continue
        if name in P2P:
            val, kind = translate_body(name, params, body)
            throws.append((name, kind == "throws"))
            continue
        if name not in COLLECTIVES:
            raise TranslateError("unknown member function %s of the sequential Communication" % name)
        val, kind = translate_body(name, params, body)
        if kind == "throws":
            raise TranslateError("collective %s throws" % name)
        lname = "%s_%d" % (name, len(params))
        if lname in seen:
            raise TranslateError("two overloads %s with %d parameters" % (name, len(params)))
        seen[lname] = True
        binders = " ".join("(%s : %s)" % (lean_name(p), "List α" if is_buffer(t) else "Nat") for (t, p) in params)
        out.append("/-- `%s(%s) { %s }` -/" % (name, ", ".join((t + " " + p).strip() for (t, p) in params), body.replace("-/", "- /")))
        out.append("def %s (e : Nat) %s : List α := %s" % (lname, binders, val))
    need = ["sum_1", "sum_2", "prod_1", "prod_2", "min_1", "min_2", "max_1", "max_2", "broadcast_3", "ibroadcast_2", "gather_4",
            "igather_3", "gatherv_6", "scatter_4", "iscatter_3", "scatterv_6", "allgather_3", "iallgather_2", "allgatherv_5",
            "allreduce_2", "allreduce_3", "iallreduce_1", "iallreduce_2"]
    for n in need:
        if n not in seen:
            raise TranslateError("sequential Communication lost the overload %s" % n)
    for n in ("rank", "size", "barrier"):
        if n not in consts:
            raise TranslateError("sequential Communication lost %s()" % n)
        out.append("def %s : Nat := %s" % (n, consts[n]))
    for n in P2P:
        if n not in [t[0] for t in throws]:
            raise TranslateError("sequential Communication lost %s" % n)
    out.append("/-- point-to-point methods and whether their body is `DUNE_THROW(ParallelError, ...)` -/")
    out.append("def p2pThrows : List (String × Bool) := [%s]" % ", ".join("(%s, %s)" % (lean_str(n), "true" if t else "false") for (n, t) in throws))
    out += ["end Seq", "end DV.C07.Gen", ""]
    return [("DuneVerif/Gen/C07.lean", "\n".join(out))]


if __name__ == "__main__":
    import sys
    for path, content in translate(sys.argv[1] if len(sys.argv) > 1 else "/repo"):
        print(content)
