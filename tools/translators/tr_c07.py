"""Translator for C07 (collectives and MPI marshalling).

Re-reads on every run, from the current source tree,
  * mpitraits.hh: the table `ComposeMPITraits(<C++ type>, <MPI datatype handle>)`,
  * mpicommunication.hh: the table `ComposeMPIOp(<functor template>, <MPI_Op handle>)`, the `commute` flag handed to
    `MPI_Op_create` for user functors and the argument order of the functor call inside the MPI callback,
  * communication.hh: the body of every collective of the sequential stand-in `Communication<No_Comm>` (primary
    template), translated statement by statement into the loop shape `DV.C07.Seq.forCopy`, the constants returned by
    `rank()`, `size()`, `barrier()` and which point-to-point methods throw `ParallelError`,
  * R4: mpitraits.hh / plocalindex.hh / remoteindices.hh: the construction block of every `MPITraits<...>::getType()` with state,
    executed symbolically (declarations, MPI_Get_address pairs / offsetof, MPI_Type_contiguous / create_struct / create_resized /
    commit / free) into the expression the returned handle denotes (`Gen.TyProg.*`),
  * R4: mpicommunication.hh: every member function body of `Communication<MPI_Comm>`, executed symbolically (MPIData / MPIFuture
    views, local ints, the one MPI call or delegation) into the MPI call it issues (`Gen.wrapperTable`),
and writes them to lean/DuneVerif/Gen/C07.lean.  Props/C07.lean proves that the tables agree with what the MPI
standard says about the handles (`Model.mpiCType`, `Model.mpiOpFunctor`), that user ops are not declared commutative,
and that every generated stand-in body is the model's `Seq.*` function (about which the `seq_eq_oneproc_*` theorems
are proved).  Anything outside the small statement grammar makes the translator fail loudly.

R5: the grammar is closed under the ordinary behaviour-preserving respellings (see design_notes/C07.md, "Round five"): locals, parameters
and data members are followed by what they denote (names, `const`, `this->` do not matter), `create on first use` may be an if-block or a
guard clause (`lazy_getter`), element / copy loops may be index loops, pointer walks, count-down walks or std::copy / copy_n / transform
(`user_op_body`, `translate_body`), sums and products are put in canonical order, hoisted `const` locals are inlined, `a -= b` may be a
new local `c = a - b` (`_TypeProg.addrval`), `(me==root) * x` = `me==root ? x : 0`, the status pointer of rrecv may be defaulted by an
`if` or by a conditional expression.  Equivalent spellings therefore generate the same Lean text (docstrings aside).
`python3 tools/translators/tr_c07.py --selftest` replays the respellings (quiet) and the changes of meaning (loud / different output).
"""
import os
import re


class TranslateError(Exception):
    pass


def strip_comments(s):
    s = re.sub(r"/\*.*?\*/", " ", s, flags=re.S)
    s = re.sub(r"//[^\n]*", " ", s)
    return s


def balanced(s, i, open_ch="{", close_ch="}"):
    """s[i] == open_ch; returns index just after the matching close"""
    assert s[i] == open_ch
    d = 0
    for j in range(i, len(s)):
        if s[j] == open_ch:
            d += 1
        elif s[j] == close_ch:
            d -= 1
            if d == 0:
                return j + 1
    raise TranslateError("unbalanced %s at %d" % (open_ch, i))


def lean_str(s):
    return '"' + s.replace("\\", "\\\\").replace('"', '\\"') + '"'


def norm_type(t):
    return re.sub(r"\s+", " ", t.strip()).replace("< ", "<").replace(" >", ">")


# ------------------------------------------------------------------------------------------------
# tables
# ------------------------------------------------------------------------------------------------
def traits_table(src):
    rows = []
    for m in re.finditer(r"^\s*ComposeMPITraits\s*\((.*),\s*(\w+)\s*\)\s*;", src, flags=re.M):
        rows.append((norm_type(m.group(1)), m.group(2)))
    if not rows:
        raise TranslateError("no ComposeMPITraits(...) lines found in mpitraits.hh")
    # the macro itself must still map (p, m) to `getType(){ return m; }` with is_intrinsic = true
    mac = re.search(r"#define\s+ComposeMPITraits\(p,m\)(.*?)\n\s*\n|#define\s+ComposeMPITraits\(p,m\)((?:.*\\\n)*.*)", src)
    body = src[src.index("#define ComposeMPITraits(p,m)"):]
    body = body[:body.index("ComposeMPITraits(char")]
    flat = re.sub(r"[\\\s]+", " ", body)
    if not re.search(r"struct MPITraits<p>\s*\{\s*static inline MPI_Datatype getType\(\)\s*\{\s*return m;\s*\}\s*static constexpr bool is_intrinsic = true;\s*\}", flat):
        raise TranslateError("the ComposeMPITraits macro no longer has the shape `getType(){ return m; } is_intrinsic = true`: " + flat[:200])
    return rows


def op_table(src):
    rows = []
    for m in re.finditer(r"^\s*ComposeMPIOp\s*\(\s*([\w:]+)\s*,\s*(\w+)\s*\)\s*;", src, flags=re.M):
        rows.append((m.group(1), m.group(2)))
    if not rows:
        raise TranslateError("no ComposeMPIOp(...) lines found in mpicommunication.hh")
    body = src[src.index("#define ComposeMPIOp(func,op)"):]
    body = body[:body.index("ComposeMPIOp(std::plus")]
    flat = re.sub(r"[\\\s]+", " ", body)
    if not re.search(r"class Generic_MPI_Op<T, func<S>, std::enable_if_t<MPITraits<S>::is_intrinsic>\s*>\s*\{\s*public:\s*static MPI_Op get\(\)\s*\{\s*return op;\s*\}", flat):
        raise TranslateError("the ComposeMPIOp macro no longer has the shape `Generic_MPI_Op<T, func<S>, enable_if intrinsic S>::get(){ return op; }`: " + flat[:240])
    return rows


def user_op(src):
    m0 = re.search(r"MPI_Op_create\s*\(", src)
    if not m0:
        raise TranslateError("MPI_Op_create(...&operation, <commute>, op.get()) not found")
    oargs = split_top(src[m0.end():balanced(src, m0.end() - 1, "(", ")") - 1])
    # R5: any cast of `&operation` / `operation` to the MPI user function type; the handle is whatever `.get()` is called on
    if len(oargs) != 3 or not re.fullmatch(r"(?:\(void\(\*\)\(void\*,void\*,int\*,MPI_Datatype\*\)\)|reinterpret_cast<(?:MPI_User_function\*|void\(\*\)\(void\*,void\*,int\*,MPI_Datatype\*\))>\()\(?&?operation\)?\)?",
                                        _nows(oargs[0])) or not re.fullmatch(r"%s\.get\(\)" % IDENT_, _nows(oargs[2])):
        raise TranslateError("MPI_Op_create(...&operation, <commute>, op.get()) not found: " + ", ".join(oargs)[:160])

    class _M:
        def group(self, k):
            return _nows(oargs[1])
    m = _M()
    if m.group(1) not in ("true", "false", "0", "1"):
        raise TranslateError("commute argument of MPI_Op_create is not a literal: " + m.group(1))
    commute = m.group(1) in ("true", "1")
    m2 = re.search(r"static\s+void\s+operation\s*\(\s*Type\s*\*\s*(\w+)\s*,\s*Type\s*\*\s*(\w+)\s*,\s*int\s*\*\s*(\w+)\s*,\s*MPI_Datatype\s*\*\s*\w*\s*\)\s*\{", src)
    if not m2:
        raise TranslateError("Generic_MPI_Op::operation not found")
    body = src[m2.end():balanced(src, m2.end() - 1) - 1]
    return (commute,) + user_op_body(m2.group(1), m2.group(2), m2.group(3), body)


def _stmts(block):
    """top-level statements of a block (without the terminating `;`); a compound statement `for (..) {..}` / `if (..) {..}` /
    `{..}` ends at its closing brace, a braced initialiser (`= {..}`, `name{..}`) does not end the statement"""
    depth, cur, out, compound = 0, "", [], False
    for c in block:
        if c in "([{":
            if c == "{" and depth == 0:
                before = cur.rstrip()
                compound = before == "" or before.endswith(")") or re.search(r"\b(else|do)$", before) is not None
            depth += 1
        elif c in ")]}":
            depth -= 1
        cur += c
        if depth == 0 and (c == ";" or (c == "}" and compound)):
            out.append(re.sub(r"\s+", " ", cur).strip().rstrip(";").strip())
            cur = ""
            compound = False
    if cur.strip():
        out.append(re.sub(r"\s+", " ", cur).strip())
    return [x for x in out if x]


def _unparen(t):
    while t.startswith("(") and balanced(t, 0, "(", ")") == len(t):
        t = t[1:-1]
    return t


def user_op_body(a_in, a_inout, a_len, body):
    """R5: the element loop of the MPI callback, in any of its equivalent spellings:
         [BinaryFunction f;] [const int n = *len;]
         for (int i = 0; i < n; ++i [, ++in, ++inout]) { [Type t;] t = f(A, B); C = t; }      or   C = f(A, B);
       A, B, C are `*p` for a pointer advanced in the loop header and `p[i]` / `*(p+i)` for one that is not; counting down
       (`for (int i = n; i > 0; --i, ++in, ++inout)`) is the same walk when `i` is not used in the body.
       -> ([role of A, role of B], role of C).  `*p` of a pointer that is not advanced, `p[i]` of one that is, a bound other than
       `*len`, a second statement with an effect: TranslateError."""
    def fail(msg):
        raise TranslateError("body of Generic_MPI_Op::operation not recognised (%s): %s" % (msg, re.sub(r"\s+", " ", body).strip()[:200]))
    role = {a_in: "in", a_inout: "inout"}
    sts = _stmts(body)
    if not sts:
        fail("empty")
    func, bound_alias = None, set()
    for st in sts[:-1]:
        m = re.fullmatch(r"(?:const )?BinaryFunction (%s)(?: ?\{ ?\}| ?= ?BinaryFunction ?(?:\( ?\)|\{ ?\}))?" % IDENT_, st)
        if m and func is None:
            func = m.group(1)
            continue
        m = re.fullmatch(r"(?:const )?(?:int|auto) (?:const )?(%s) ?= ?\* ?%s" % (IDENT_, re.escape(a_len)), st)
        if m:
            bound_alias.add(m.group(1))
            continue
        fail("statement in front of the loop: " + st)
    loop = sts[-1]
    # std::transform(in, in + *len, inout, inout, func)  ==  for (i) inout[i] = func(in[i], inout[i])
    m = re.fullmatch(r"std::transform ?\((.*)\)", loop)
    if m:
        ta = [_nows(q) for q in split_top(m.group(1))]
        if len(ta) != 5 or not all(q in role for q in (ta[0], ta[2], ta[3])):
            fail("std::transform arguments")
        em = re.fullmatch(r"%s\+(.*)" % re.escape(ta[0]), ta[1])
        if not em or not (_nows(em.group(1)) == "*" + a_len or em.group(1) in bound_alias):
            fail("std::transform does not run over *len elements")
        if not ((func is not None and ta[4] == func) or ta[4] in ("BinaryFunction()", "BinaryFunction{}")):
            fail("std::transform applies something other than the functor")
        return [role[ta[0]], role[ta[2]]], role[ta[3]]
    m = re.match(r"for ?\(", loop)
    if not m:
        fail("no for loop")
    e = balanced(loop, m.end() - 1, "(", ")")
    header, lbody = loop[m.end():e - 1], loop[e:].strip()
    hp = [q.strip() for q in header.split(";")]
    if len(hp) != 3:
        fail("loop header")
    init, cond, incr = hp

    def is_bound(t):
        t = _nows(t)
        return t == "*" + a_len or t in bound_alias
    im = re.fullmatch(r"int (%s) ?= ?(.*)" % IDENT_, init)
    if not im:
        fail("loop initialisation")
    iv = im.group(1)
    if iv in role or iv == a_len or iv in bound_alias:
        fail("loop variable shadows a parameter")
    c = _nows(cond)
    incs = [_nows(q) for q in split_top(incr)]
    steps = {}
    for q in incs:
        mm = re.fullmatch(r"\+\+(%s)|(%s)\+\+|(%s)\+=1" % ((IDENT_,) * 3), q)
        if mm:
            steps.setdefault(mm.group(1) or mm.group(2) or mm.group(3), []).append(+1)
            continue
        mm = re.fullmatch(r"--(%s)|(%s)--|(%s)-=1" % ((IDENT_,) * 3), q)
        if mm:
            steps.setdefault(mm.group(1) or mm.group(2) or mm.group(3), []).append(-1)
            continue
        fail("loop increment " + q)
    if any(len(v) != 1 for v in steps.values()) or iv not in steps:
        fail("loop increments")
    walked = set(k for k in steps if k != iv)
    if not walked <= set(role) or any(steps[k] != [1] for k in walked):
        fail("loop advances something other than the two buffers")
    up = None
    if _nows(im.group(2)) == "0" and steps[iv] == [1]:
        mm = re.fullmatch(r"%s(<|!=)(.*)" % re.escape(iv), c) or None
        if mm and is_bound(mm.group(2)):
            up = True
        mm = re.fullmatch(r"(.*)(>|!=)%s" % re.escape(iv), c)
        if mm and is_bound(mm.group(1)):
            up = True
    elif is_bound(im.group(2)) and steps[iv] == [-1]:
        if c in ("%s>0" % iv, "0<%s" % iv, "%s!=0" % iv, "0!=%s" % iv):
            up = False
    if up is None:
        fail("the loop does not run over the elements 0 .. *len-1")
    if lbody.startswith("{"):
        if balanced(lbody, 0) != len(lbody):
            fail("code after the loop")
        lbody = lbody[1:-1]
    bs = _stmts(lbody)
    for n in list(bound_alias) + [a_len]:
        if any(re.search(r"\b%s\b" % re.escape(n), q) for q in bs):
            fail("the loop body uses the element count")

    def elem(t):
        t = _unparen(_nows(t))
        mm = re.fullmatch(r"\*(%s)" % IDENT_, t)
        if mm and mm.group(1) in role:
            if mm.group(1) not in walked:
                fail("`*%s` but %s is not advanced" % (mm.group(1), mm.group(1)))
            return role[mm.group(1)]
        mm = re.fullmatch(r"(%s)\[(%s)\]|\*\((%s)\+(%s)\)|\*\((%s)\+(%s)\)" % ((IDENT_,) * 6), t)
        if mm:
            g = mm.groups()
            pairs = [(g[0], g[1]), (g[2], g[3]), (g[5], g[4])]
            for (pp, ii) in pairs:
                if pp in role and ii == iv:
                    if pp in walked or not up:
                        fail("`%s[%s]` in a loop that also advances %s / counts down" % (pp, iv, pp))
                    return role[pp]
        fail("operand / target %s is not the current element of a buffer" % t)

    def call(t):
        t = _nows(t)
        mm = re.fullmatch(r"(BinaryFunction\(\)|BinaryFunction\{\}|%s)\((.*)\)" % IDENT_, t)
        if not mm:
            fail("no functor call: " + t)
        f = mm.group(1)
        if not ((func is not None and f == func) or (f.startswith("BinaryFunction") and len(f) > len("BinaryFunction"))):
            fail("call of something other than the functor: " + t)
        args = split_top(mm.group(2))
        if len(args) != 2:
            fail("functor called with %d arguments" % len(args))
        return [elem(args[0]), elem(args[1])]

    def assign(st):
        d, k = 0, None
        for j, ch in enumerate(st):
            if ch in "([":
                d += 1
            elif ch in ")]":
                d -= 1
            elif ch == "=" and d == 0 and st[j + 1:j + 2] != "=" and st[j - 1:j] not in "=!<>+-*/":
                k = j
                break
        if k is None:
            fail("not an assignment: " + st)
        return st[:k].strip(), st[k + 1:].strip()
    if not up and any(re.search(r"\b%s\b" % re.escape(iv), q) for q in bs):
        fail("the body uses the counter of a count-down loop")
    temp = None
    if len(bs) == 1:
        lhs, rhs = assign(bs[0])
        return call(rhs), elem(lhs)
    if len(bs) == 3:
        mm = re.fullmatch(r"Type (%s)" % IDENT_, bs[0])
        if not mm:
            fail("first statement of the body")
        temp = mm.group(1)
        lhs, rhs = assign(bs[1])
        if _nows(lhs) != temp:
            fail("the functor's result is not assigned to the temporary")
        args = call(rhs)
    elif len(bs) == 2:
        mm = re.fullmatch(r"(?:const )?Type (?:const )?(%s) ?(?:= ?(.*)|\((.*)\)|\{(.*)\})" % IDENT_, bs[0])
        if not mm:
            fail("first statement of the body")
        temp = mm.group(1)
        args = call(mm.group(2) or mm.group(3) or mm.group(4))
    else:
        fail("%d statements in the body" % len(bs))
    if temp in role or temp == iv:
        fail("temporary shadows")
    lhs, rhs = assign(bs[-1])
    if _unparen(_nows(rhs)) not in (temp, "std::move(%s)" % temp):
        fail("the stored value is not the temporary")
    return args, elem(lhs)


# ------------------------------------------------------------------------------------------------
# lazily created singletons (MPI_Op per Generic_MPI_Op instantiation, MPI_Datatype per MPITraits instantiation)
# ------------------------------------------------------------------------------------------------
def split_top(text, sep=","):
    depth, cur, parts = 0, "", []
    for c in text:
        if c in "<([{":
            depth += 1
        elif c in ">)]}":
            depth -= 1
        if c == sep and depth == 0:
            parts.append(cur)
            cur = ""
        else:
            cur += c
    parts.append(cur)
    return [q for q in (x.strip() for x in parts) if q]


def template_params(header):
    """'typename Type, typename BinaryFunction, typename Enable=void' -> ['Type', 'BinaryFunction', 'Enable']"""
    names = []
    for prm in split_top(header):
        prm = prm.split("=")[0].strip()
        m = re.search(r"(%s)\s*$" % IDENT_, prm)
        if not m:
            raise TranslateError("template parameter not recognised: %r" % prm)
        names.append(m.group(1))
    return names


IDENT_ = r"[A-Za-z_]\w*"


def idents(text):
    return set(re.findall(IDENT_, text))


def singleton_rows(sources):
    """one row (family, slot, used) per class template MPITraits<...> / Generic_MPI_Op<...> that creates a handle lazily:
    family = class name + argument pattern with the template parameters numbered $1, $2, ...;
    slot   = positions of the template parameters that select the static storage holding the handle;
    used   = positions of the template parameters that occur in the class body / the out-of-class getter."""
    rows = []
    for src0 in sources:
        src = re.sub(r"\\\n", " ", src0)          # macro continuation lines
        for m in re.finditer(r"template\s*<([^{};]*?)>\s*(?:struct|class)\s+(MPITraits|Generic_MPI_Op)\s*(<[^{};]*>)?\s*\{", src):
            header, cname, spec = m.group(1), m.group(2), m.group(3)
            if not header.strip():
                continue                              # explicit specialisation (ComposeMPITraits): no template parameter, no state
            params = template_params(header)
            start = m.end() - 1
            body = src[start + 1:balanced(src, start) - 1]
            getter = "getType" if cname == "MPITraits" else "get"
            spec_n = re.sub(r"\s+", "", spec) if spec else "<" + ",".join(params) + ">"
            gm = re.search(r"\b%s\s*\(\s*\)\s*\{" % getter, body)
            if gm:
                gbody = body[gm.end():balanced(body, gm.end() - 1) - 1]
                outside = ""
            else:
                gbody = None
                for om in re.finditer(r"\b%s\s*(<[^{};()]*>)\s*::\s*%s\s*\(\s*\)\s*\{" % (cname, getter), src):
                    if re.sub(r"\s+", "", om.group(1)) == spec_n:
                        gbody = src[om.end():balanced(src, om.end() - 1) - 1]
                if gbody is None:
                    raise TranslateError("%s%s: definition of %s() not found" % (cname, spec_n, getter))
                outside = gbody
            flat = re.sub(r"\s+", " ", gbody).strip()
            if re.fullmatch(r"return %s ?;" % IDENT_, flat) and not re.search(r"\bstatic\b[^;(]*\b%s\s*;" % flat.split()[1].rstrip(";"), body):
                continue                              # returns a predefined handle (ComposeMPIOp): no state
            var, _block = lazy_getter("%s%s::%s()" % (cname, spec_n, getter), gbody, "datatype" if cname == "MPITraits" else "op")
            decl = r"static\s+(?:inline\s+)?(?:MPI_Datatype|std::unique_ptr\s*<\s*MPI_Op\s*>)\s+%s\b" % var
            body_wo_getter = body if not gm else body[:gm.start()] + body[balanced(body, gm.end() - 1):]
            if re.search(decl, body_wo_getter) or re.search(decl, gbody):
                slot = list(params)                   # static data member / function-local static: one per instantiation
            else:
                vm = re.search(r"(?:auto|MPI_Datatype|std::unique_ptr\s*<\s*MPI_Op\s*>)\s*&\s*%s\s*=\s*[\w:]+\s*(?:<([^;]*)>)?\s*;" % var, gbody)
                if not vm:
                    raise TranslateError("%s%s::%s(): storage of the handle `%s` not recognised" % (cname, spec_n, getter, var))
                args = idents(vm.group(1) or "")
                slot = [q for q in params if q in args]   # variable (template): one per argument list
            used_ids = idents(body) | idents(outside)
            used = [q for q in params if q in used_ids]
            fam = cname + spec_n
            for k, q in enumerate(params):
                fam = re.sub(r"\b%s\b" % re.escape(q), "$%d" % (k + 1), fam)
            pos = {q: str(k + 1) for k, q in enumerate(params)}
            rows.append((fam, [pos[q] for q in slot], [pos[q] for q in used]))
    if not rows:
        raise TranslateError("no lazily created MPI handle found")
    return rows


# ------------------------------------------------------------------------------------------------
# R5: the shapes of "create on first use" (normalised to: handle, construction block)
# ------------------------------------------------------------------------------------------------
def _null_test(cond, kind):
    """condition of an `if` -> (handle, True if the condition holds when the handle is NOT yet created) or None.
    kind "datatype": the handle is an MPI_Datatype whose `not yet created` value is MPI_DATATYPE_NULL (a non-null pointer in Open MPI:
    `!h`, `h == nullptr`, `h == 0` are NOT null tests); kind "op": a std::unique_ptr<MPI_Op> (`!h`, `h`, `h == nullptr`)."""
    nulls = ("MPI_DATATYPE_NULL",) if kind == "datatype" else ("nullptr",)
    c = _nows(cond)
    while c.startswith("(") and balanced(c, 0, "(", ")") == len(c):
        c = c[1:-1]
    if kind == "op":
        m = re.fullmatch(r"!(%s)" % IDENT_, c)
        if m:
            return m.group(1), True
        m = re.fullmatch(r"(%s)" % IDENT_, c)
        if m and c not in nulls:
            return m.group(1), False
    m = re.fullmatch(r"(%s)(==|!=)(%s)" % (IDENT_, IDENT_), c)
    if m:
        a, op, b = m.groups()
        if b in nulls and a not in nulls:
            return a, op == "=="
        if a in nulls and b not in nulls:
            return b, op == "=="
    return None


def lazy_getter(where, gbody, kind):
    """body of a getter that creates a handle on first use -> (handle variable, text of the construction block).
    Recognised spellings (all mean `if (handle is null) { block } return handle;`):
      [decls] if (<null test>) { block } return [*]handle;        <null test>: h == N, N == h with N = MPI_DATATYPE_NULL for an MPI_Datatype;
                                                                   !h, h == nullptr, nullptr == h for the std::unique_ptr<MPI_Op>
      [decls] if (<null test>) stmt; return [*]handle;
      [decls] if (<non-null test>) [{] return [*]handle; [}] block return [*]handle;      (guard clause; test: h, h != NULL, NULL != h)
    where [decls] are declarations of function-local statics / references (kept in front of the block for the caller).
    Anything else fails loudly."""
    g = gbody.strip()
    im = re.search(r"\bif\s*\(", g)
    if not im:
        raise TranslateError("%s: no `if (handle is null)` test: %s" % (where, re.sub(r"\s+", " ", g)[:160]))
    pre = g[:im.start()].strip()
    if pre and not all(re.match(r"(static\b|auto\s*&|MPI_Datatype\s*&|std::unique_ptr\s*<\s*MPI_Op\s*>\s*&)", q.strip())
                       for q in pre.split(";") if q.strip()):
        raise TranslateError("%s: statements in front of the `if (handle is null)` test: %s" % (where, re.sub(r"\s+", " ", pre)[:160]))
    p0 = g.index("(", im.start())
    p1 = balanced(g, p0, "(", ")")
    nt = _null_test(g[p0 + 1:p1 - 1], kind)
    if not nt:
        raise TranslateError("%s: no `if (%s)` test (or its negation as a guard clause): %s"
                             % (where, "handle == MPI_DATATYPE_NULL" if kind == "datatype" else "!handle", re.sub(r"\s+", " ", g)[:160]))
    handle, when_null = nt
    rest = g[p1:].lstrip()
    if rest.startswith("{"):
        e = balanced(rest, 0)
        then, tail = rest[1:e - 1], rest[e:]
    else:
        e = rest.index(";") + 1
        then, tail = rest[:e], rest[e:]
    if re.match(r"\s*else\b", tail):
        raise TranslateError("%s: `else` branch of the null test" % where)
    ret = r"return\s*\*?\s*%s\s*;" % re.escape(handle)
    if when_null:
        block = then
        if not re.fullmatch(r"\s*%s\s*" % ret, tail):
            raise TranslateError("%s: code after the construction block other than `return %s;`: %s"
                                 % (where, handle, re.sub(r"\s+", " ", tail).strip()[:160]))
    else:
        if not re.fullmatch(r"\s*%s\s*" % ret, then):
            raise TranslateError("%s: the guard clause does not `return %s;`: %s" % (where, handle, re.sub(r"\s+", " ", then).strip()[:160]))
        m = re.search(r"%s\s*$" % ret, tail)
        if not m:
            raise TranslateError("%s: does not end in `return %s;`" % (where, handle))
        block = tail[:m.start()]
    if re.search(r"\breturn\b", block):
        raise TranslateError("%s: `return` inside the construction block" % where)
    return handle, block


# ------------------------------------------------------------------------------------------------
# R4: the construction code of the datatypes (symbolic execution of the straight-line block of getType())
# ------------------------------------------------------------------------------------------------
TYPEPROG_NAMES = {
    "MPITraits<$1>": "fallback",
    "MPITraits<FieldVector<$1,$2>>": "fieldVector",
    "MPITraits<bigunsignedint<$1>>": "bigUnsigned",
    "MPITraits<std::pair<$1,$2>>": "pair",
    "MPITraits<ParallelLocalIndex<$1>>": "localIndex",
    "MPITraits<IndexPair<$1,ParallelLocalIndex<$2>>>": "indexPair",
}


def _nows(t):
    return re.sub(r"\s+", "", t)


class _TypeProg:
    """symbolic execution of `if (handle == MPI_DATATYPE_NULL) { ... } return handle;`"""

    def __init__(self, fam, params, selftype, block, handle):
        self.fam, self.params, self.self_t, self.handle = fam, params, _nows(selftype), handle
        self.alias = {}          # using X = <self type>
        self.objs = set()        # local objects of the self type
        self.val = {}            # variable / array element -> symbolic value
        self.arr = {}            # array name -> length
        self.committed = set()
        self.freed = set()
        for st in self.statements(block):
            self.step(st)

    def fail(self, msg):
        raise TranslateError("%s::getType(): %s" % (self.fam, msg))

    @staticmethod
    def statements(block):
        return _stmts(block)

    def is_self(self, t):
        t = _nows(t)
        return t == self.self_t or t in self.alias

    def pnum(self, name):
        return self.params.index(name) + 1 if name in self.params else None

    # --- expressions -----------------------------------------------------------------------------
    def cnt(self, text):
        t = _nows(text)
        if re.fullmatch(r"\d+", t):
            return "(.lit %s)" % t
        if self.pnum(t):
            return "(.tparam %d)" % self.pnum(t)
        m = re.fullmatch(r"sizeof\((.*)\)", t)
        if m:
            if self.is_self(m.group(1)):
                return ".sizeofSelf"
            if self.pnum(m.group(1)):
                return "(.sizeofParam %d)" % self.pnum(m.group(1))
            self.fail("sizeof of an unexpected type: " + text)
        m = re.fullmatch(r"(.*)::(%s)" % IDENT_, t)
        if m and self.is_self(m.group(1)):
            return "(.selfConst %s)" % lean_str(m.group(2))
        self.fail("count expression not understood: " + text)

    def intval(self, text):
        t = _nows(text)
        if re.fullmatch(r"\d+", t):
            return int(t)
        if t in self.val and isinstance(self.val[t], int):
            return self.val[t]
        self.fail("integer not understood: " + text)

    def typ(self, text):
        t = _nows(text)
        m = re.fullmatch(r"MPITraits<(.*)>::getType\(\)", t)
        if m:
            a = m.group(1)
            if self.pnum(a):
                return "(.param %d)" % self.pnum(a)
            for k, q in enumerate(self.params):
                a = re.sub(r"\b%s\b" % re.escape(q), "$%d" % (k + 1), a)
            return "(.named %s)" % lean_str(a)
        if re.fullmatch(r"MPI_[A-Z_0-9]+", t) and t != "MPI_DATATYPE_NULL":
            return "(.named %s)" % lean_str(t)
        if t in self.val and isinstance(self.val[t], str):
            if t in self.freed:
                self.fail("datatype %s used after MPI_Type_free" % t)
            return self.val[t]
        self.fail("datatype expression not understood: " + text)

    def seq(self, text, what):
        """`name` (array) or `&name` (scalar / one element) -> list of element keys"""
        t = _nows(text)
        m = re.fullmatch(r"&(%s)\[0\]|(%s)\.data\(\)" % (IDENT_, IDENT_), t)
        if m and (m.group(1) or m.group(2)) in self.arr:
            t = m.group(1) or m.group(2)
        if t.startswith("&"):
            return [t[1:]]
        if t in self.arr:
            return ["%s[%d]" % (t, i) for i in range(self.arr[t])]
        self.fail("%s argument not understood: %s" % (what, text))

    def lvalue(self, text):
        t = _nows(text)
        m = re.fullmatch(r"(%s)(?:\[(\d+)\])?" % IDENT_, t)
        if not m:
            self.fail("assignment target not understood: " + text)
        return t

    # --- statements ------------------------------------------------------------------------------
    def addrval(self, text, st):
        """value of an address / offset expression: `x`, `x - y`, `offsetof(Self, member)`"""
        t = _nows(text)
        while t.startswith("(") and balanced(t, 0, "(", ")") == len(t):
            t = t[1:-1]
        m = re.fullmatch(r"offsetof\((.*),(%s)\)" % IDENT_, t)
        if m:
            if not self.is_self(m.group(1)):
                self.fail("offsetof into another type: " + st)
            return ("off", m.group(2))
        m = re.fullmatch(r"(%s(?:\[\d+\])?)-(%s(?:\[\d+\])?)" % (IDENT_, IDENT_), t)
        if m:
            return self.difference(self.val.get(m.group(1)), self.val.get(m.group(2)), st)
        m = re.fullmatch(r"%s(?:\[\d+\])?" % IDENT_, t)
        if m and isinstance(self.val.get(t), tuple):
            return self.val[t]
        self.fail("address / offset expression not understood: " + st)

    def step(self, st):
        # qualifiers that do not change the value of a local
        st = re.sub(r"^(?:(?:const|constexpr) )+", "", st)
        st = re.sub(r"^(int|MPI_Aint|MPI_Datatype) (?:const|constexpr) ", r"\1 ", st)
        m = re.fullmatch(r"\{(.*)\}", st)
        if m:                                             # a nested block
            for q in self.statements(m.group(1)):
                self.step(q)
            return
        m = re.fullmatch(r"static_assert ?\(.*\)", st)
        if m:
            return
        m = re.fullmatch(r"using (%s) ?= ?(.*)" % IDENT_, st)
        if m:
            if not self.is_self(m.group(2)):
                self.fail("alias of a type other than the specialised one: " + st)
            self.alias[m.group(1)] = True
            return
        m = re.fullmatch(r"int (%s) ?= ?(\d+)" % IDENT_, st)
        if m:
            self.val[m.group(1)] = int(m.group(2))
            return
        m = re.fullmatch(r"std::array ?< ?(int|MPI_Aint|MPI_Datatype) ?, ?(\d+) ?> (%s) ?=? ?(\{.*\})?" % IDENT_, st)
        if m:                                             # std::array<T,N> a = {...}  ==  T a[N] = {...}
            b = m.group(4)
            if b and b.startswith("{{") and b.endswith("}}"):
                b = b[1:-1]
            st = "%s %s[%s]%s" % (m.group(1), m.group(3), m.group(2), " = " + b if b else "")
        m = re.fullmatch(r"int (%s) ?\[ ?(\d+) ?\] ?= ?\{(.*)\}" % IDENT_, st)
        if m:
            items = split_top(m.group(3))
            if len(items) != int(m.group(2)):
                self.fail("initialiser length: " + st)
            self.arr[m.group(1)] = len(items)
            for i, it in enumerate(items):
                self.val["%s[%d]" % (m.group(1), i)] = self.intval(it)
            return
        m = re.fullmatch(r"MPI_Aint (.*)", st)
        if m:
            for d in split_top(m.group(1)):
                dm = re.fullmatch(r"(%s) ?(?:\[ ?(\d+) ?\])? ?(?:= ?(.*))?" % IDENT_, d)
                if not dm:
                    self.fail("declaration not understood: " + st)
                name, n, init = dm.groups()
                if n:
                    self.arr[name] = int(n)
                    if init is not None:
                        im = re.fullmatch(r"\{(.*)\}", init.strip())
                        items = split_top(im.group(1)) if im else None
                        if items is None or len(items) != int(n):
                            self.fail("initialiser length: " + st)
                        for i, it in enumerate(items):
                            self.val["%s[%d]" % (name, i)] = self.addrval(it, st)
                elif init is not None:
                    self.val[name] = self.addrval(init, st)
            return
        m = re.fullmatch(r"MPI_Datatype (%s) ?= ?(.*)" % IDENT_, st)
        if m and not m.group(2).lstrip().startswith("{"):
            self.val[m.group(1)] = self.typ(m.group(2))
            return
        m = re.fullmatch(r"MPI_Datatype (%s) ?\[ ?(\d+) ?\] ?= ?\{(.*)\}" % IDENT_, st)
        if m:
            items = split_top(m.group(3))
            if len(items) != int(m.group(2)):
                self.fail("initialiser length: " + st)
            self.arr[m.group(1)] = len(items)
            for i, it in enumerate(items):
                self.val["%s[%d]" % (m.group(1), i)] = self.typ(it)
            return
        m = re.fullmatch(r"MPI_Datatype (%s)" % IDENT_, st)
        if m:
            return
        m = re.fullmatch(r"MPI_Get_address ?\( ?& ?(.*?) ?, ?& ?(.*?) ?\)", st)
        if m:
            src, dst = _nows(m.group(1)), self.lvalue(m.group(2))
            if src in self.objs:
                self.val[dst] = ("addr", src, None)
                return
            sm = re.fullmatch(r"\(?(%s)(?:\.(%s)|(\[\d+\]))\)?" % (IDENT_, IDENT_), src)
            if sm and sm.group(1) in self.objs:
                self.val[dst] = ("addr", sm.group(1), sm.group(2) or sm.group(3))
                return
            self.fail("address of something that is not (a member of) a local object of the type: " + st)
        m = re.fullmatch(r"for ?\( ?(?:MPI_Aint|auto) ?& ?(%s) ?: ?(%s) ?\) ?\{? ?(%s) ?-= ?(%s) ?;? ?\}?" % (IDENT_, IDENT_, IDENT_, IDENT_), st)
        if m and m.group(1) == m.group(3) and m.group(2) in self.arr:
            for i in range(self.arr[m.group(2)]):
                self.subtract("%s[%d]" % (m.group(2), i), m.group(4), st)
            return
        # the same as an index loop: for (int i = 0; i < N; ++i) arr[i] -= base;
        m = re.fullmatch(r"for ?\( ?(?:int|unsigned|unsigned int|std::size_t|size_t) (%s) ?= ?0 ?; ?(%s) ?(?:<|!=) ?(\d+) ?; ?(?:\+\+ ?(%s)|(%s) ?\+\+) ?\)"
                         r" ?\{? ?(%s) ?\[ ?(%s) ?\] ?-= ?(%s) ?;? ?\}?" % ((IDENT_,) * 7), st)
        if m and m.group(6) in self.arr:
            i, i2, n, i3, i4, arr, i5, base = m.groups()
            if not (i == i2 == (i3 or i4) == i5) or int(n) != self.arr[arr]:
                self.fail("index loop does not run over the whole array: " + st)
            for k in range(self.arr[arr]):
                self.subtract("%s[%d]" % (arr, k), base, st)
            return
        m = re.fullmatch(r"(%s(?: ?\[ ?\d+ ?\])?) ?-= ?(%s)" % (IDENT_, IDENT_), st)
        if m:
            self.subtract(self.lvalue(m.group(1)), m.group(2), st)
            return
        m = re.fullmatch(r"(%s(?: ?\[ ?\d+ ?\])?) ?= ?(.*)" % IDENT_, st)
        if m and not re.match(r"(int|MPI_\w+|auto|using)$", m.group(1).split("[")[0].strip()) and " " not in m.group(1).strip():
            self.val[self.lvalue(m.group(1))] = self.addrval(m.group(2), st)
            return
        m = re.fullmatch(r"(MPI_Type_\w+) ?\((.*)\)", st)
        if m:
            self.mpi_call(m.group(1), split_top(m.group(2)), st)
            return
        # declaration of a local object of the specialised type: `<type> name`
        m = re.fullmatch(r"(.*[>\w]) (%s)" % IDENT_, st)
        if m and self.is_self(m.group(1)):
            self.objs.add(m.group(2))
            return
        self.fail("statement outside the grammar: " + st)

    def difference(self, a, b, st):
        if not (isinstance(a, tuple) and a[0] == "addr" and isinstance(b, tuple) and b[0] == "addr" and b[2] is None
                and a[1] == b[1] and a[2] is not None):
            self.fail("displacement is not (address of a member) - (address of the same object): " + st)
        return ("off", a[2])

    def subtract(self, key, base, st):
        self.val[key] = self.difference(self.val.get(key), self.val.get(base), st)

    def out(self, arg, st):
        t = _nows(arg)
        if not re.fullmatch(r"&%s" % IDENT_, t):
            self.fail("output handle not understood: " + st)
        return t[1:]

    def mpi_call(self, fn, args, st):
        if fn == "MPI_Type_contiguous" and len(args) == 3:
            self.val[self.out(args[2], st)] = "(.contig %s %s)" % (self.cnt(args[0]), self.typ(args[1]))
        elif fn == "MPI_Type_create_struct" and len(args) == 5:
            n = self.intval(args[0])
            lens, disps, types = self.seq(args[1], "blocklength"), self.seq(args[2], "displacement"), self.seq(args[3], "type")
            if not (len(lens) == len(disps) == len(types) == n):
                self.fail("member count %d does not match the arrays: %s" % (n, st))
            members = []
            for l, d, t in zip(lens, disps, types):
                lv, dv, tv = self.val.get(l), self.val.get(d), self.val.get(t)
                if not isinstance(lv, int):
                    self.fail("blocklength %s has no known value" % l)
                if not (isinstance(dv, tuple) and dv[0] == "off"):
                    self.fail("displacement %s is not an offset of a member" % d)
                if not isinstance(tv, str):
                    self.fail("member type %s has no known value" % t)
                members.append((dv[1], lv, tv))
            # the order of the members of a struct datatype does not change which cells are transferred: canonical order
            members.sort(key=lambda q: q[0])
            e = ".snil"
            for (mem, lv, tv) in reversed(members):
                e = "(.scons %s %d %s %s)" % (lean_str(mem), lv, tv, e)
            self.val[self.out(args[4], st)] = e
        elif fn == "MPI_Type_create_resized" and len(args) == 4:
            if _nows(args[1]) != "0":
                self.fail("lower bound other than 0: " + st)
            self.val[self.out(args[3], st)] = "(.resized %s %s)" % (self.typ(args[0]), self.cnt(args[2]))
        elif fn == "MPI_Type_commit" and len(args) == 1:
            self.committed.add(self.out(args[0], st))
        elif fn == "MPI_Type_free" and len(args) == 1:
            self.freed.add(self.out(args[0], st))
        else:
            self.fail("MPI call outside the grammar: " + st)

    def result(self):
        if self.handle not in self.committed:
            self.fail("the returned handle `%s` is never committed" % self.handle)
        if self.handle in self.freed:
            self.fail("the returned handle `%s` is freed" % self.handle)
        v = self.val.get(self.handle)
        if not isinstance(v, str):
            self.fail("the returned handle `%s` is never built" % self.handle)
        return v


def type_programs(sources):
    """(lean name, family, expression) for the construction block of every MPITraits<...>::getType() with state"""
    progs = []
    for src0 in sources:
        src = re.sub(r"\\\n", " ", src0)
        for m in re.finditer(r"template\s*<([^{};]*?)>\s*(?:struct|class)\s+MPITraits\s*(<[^{};]*>)?\s*\{", src):
            header, spec = m.group(1), m.group(2)
            if not header.strip():
                continue
            params = template_params(header)
            start = m.end() - 1
            body = src[start + 1:balanced(src, start) - 1]
            spec_n = _nows(spec) if spec else "<" + ",".join(params) + ">"
            gm = re.search(r"\bgetType\s*\(\s*\)\s*\{", body)
            if gm:
                gbody = body[gm.end():balanced(body, gm.end() - 1) - 1]
            else:
                gbody = None
                for om in re.finditer(r"\bMPITraits\s*(<[^{};()]*>)\s*::\s*getType\s*\(\s*\)\s*\{", src):
                    if _nows(om.group(1)) == spec_n:
                        gbody = src[om.end():balanced(src, om.end() - 1) - 1]
                if gbody is None:
                    raise TranslateError("MPITraits%s: definition of getType() not found" % spec_n)
            fam = "MPITraits" + spec_n
            for k, q in enumerate(params):
                fam = re.sub(r"\b%s\b" % re.escape(q), "$%d" % (k + 1), fam)
            if fam not in TYPEPROG_NAMES:
                raise TranslateError("datatype construction of an unknown class template: " + fam)
            handle, block = lazy_getter("%s::getType()" % fam, gbody, "datatype")
            selftype = spec_n[1:-1]
            progs.append((TYPEPROG_NAMES[fam], fam, _TypeProg(fam, params, selftype, block, handle).result()))
    missing = [f for f in TYPEPROG_NAMES if f not in [p[1] for p in progs]]
    if missing:
        raise TranslateError("datatype construction not found for " + ", ".join(missing))
    if len(set(p[0] for p in progs)) != len(progs):
        raise TranslateError("a datatype is constructed twice")
    return progs


# ------------------------------------------------------------------------------------------------
# R4: the MPI call every wrapper of Communication<MPI_Comm> issues (symbolic execution of the wrapper bodies)
# ------------------------------------------------------------------------------------------------
WRAPPERS = ["send_3", "isend_3", "recv_4", "irecv_3", "broadcast_3", "ibroadcast_2", "gather_4", "igather_3", "gatherv_6",
            "scatter_4", "iscatter_3", "scatterv_6", "allgather_3", "iallgather_2", "allgatherv_5", "allreduce_3",
            "allreduce_1", "iallreduce_2", "iallreduce_1", "allreduce_2", "sum_1", "sum_2", "prod_1", "prod_2", "min_1",
            "min_2", "max_1", "max_2", "rrecv_4", "barrier_0", "ibarrier_0"]

ALLREDUCE2_EXTRA = ["Type*out=newType[len]", "std::copy(out,out+len,inout)", "delete[]out"]

# R5: the meaning of the int / status parameters is fixed by the public signature (callers pass them by position), not by their names
PARAM_ROLES = {
    "send_3": {2: "peer", 3: "tag"}, "isend_3": {2: "peer", 3: "tag"}, "recv_4": {2: "peer", 3: "tag", 4: "status"},
    "irecv_3": {2: "peer", 3: "tag"}, "rrecv_4": {2: "peer", 3: "tag", 4: "status"},
    "broadcast_3": {3: "root"}, "ibroadcast_2": {2: "root"}, "gather_4": {4: "root"}, "igather_3": {3: "root"},
    "gatherv_6": {6: "root"}, "scatter_4": {4: "root"}, "iscatter_3": {3: "root"}, "scatterv_6": {6: "root"},
}


def mpi_class_body(src):
    m = re.search(r"class\s+Communication\s*<\s*MPI_Comm\s*>\s*\{", src)
    if not m:
        raise TranslateError("class Communication<MPI_Comm> not found")
    start = m.end() - 1
    return src[start + 1:balanced(src, start) - 1]


def method_templates(body):
    """template parameter names of every member function, in the order methods() yields them"""
    res, i, last = [], 0, 0
    while i < len(body):
        if body[i] == "{":
            end = balanced(body, i)
            sig = body[last:i].split(";")[-1]
            names = []
            tm = re.search(r"template\s*<", sig)
            if tm:
                j = sig.index("<", tm.start())
                names = template_params(sig[j + 1:balanced(sig, j, "<", ">") - 1])
            res.append(names)
            i = last = end
        else:
            i += 1
    return res


def body_statements(body):
    """top-level statements of a wrapper body; an `if (...) stmt` stays one statement"""
    return _TypeProg.statements(body)


class _Wrapper:
    """symbolic execution of one member function body of Communication<MPI_Comm>.
    R5: locals are followed by what they denote, not by their names (the future, the MPIData views, the local result object, the int
    that holds a delegation's return value, the temporary array of the in-place allreduce, the status / message / count locals of
    rrecv); `const`, `this->`, redundant parentheses are dropped; `(me==root) * x` = `(me==root) ? x : 0`; std::copy = std::copy_n;
    the status pointer of rrecv may be defaulted by `if (p == MPI_STATUS_IGNORE) p = &local;` or by a conditional expression
    initialising a new pointer."""

    def __init__(self, name, params, tparams, body):
        self.name, self.params, self.tparams = "%s_%d" % (name, len(params)), params, tparams
        self.pos = {p: k + 1 for k, (t, p) in enumerate(params)}
        self.ptype = {p: _nows(t) for (t, p) in params}
        roles = PARAM_ROLES.get(self.name, {})
        self.role = {}
        for (t, p) in params:
            r = roles.get(self.pos[p])
            if r:
                want = "MPI_Status*" if r == "status" else "int"
                if self.ptype[p] != want:
                    self.fail("parameter %d (%s) is not of type %s" % (self.pos[p], r, want))
                self.role[p] = r
        self.obj = {}       # local object / MPIData view -> parameter position it denotes (0 = local result object)
        self.ints = {}      # local int -> count expression (num, den)
        self.calls = []
        self.deleg = None
        self.guard = None
        self.extra = []
        self.same = []
        self.fut = None     # name of the MPIFuture local
        self.locals = set()  # local objects of a template parameter type (`T lvalue_data(...)`, `T out`)
        self.retvar = None  # int holding the delegation's return value
        self.temp = None    # temporary array of allreduce_2
        self.returned = None
        # rrecv
        self.statusobj, self.msg, self.cntvar = set(), set(), set()
        self.sptr = {}      # MPI_Status* variable -> "param" (the caller's pointer, maybe MPI_STATUS_IGNORE) | "defaulted"
        for p, r in self.role.items():
            if r == "status":
                self.sptr[p] = "param"
        self.events = []
        self.order = []
        self.stmts = body_statements(body)
        for st in self.stmts:
            self.step(st)

    def fail(self, msg):
        raise TranslateError("Communication<MPI_Comm>::%s: %s" % (self.name, msg))

    def tnum(self, t):
        t = _nows(t)
        for k, q in enumerate(self.tparams):
            t = re.sub(r"\b%s\b" % re.escape(q), "$%d" % (k + 1), t)
        return t

    def objpos(self, name):
        name = _nows(name)
        fm = re.fullmatch(r"std::forward<[^()]*>\((%s)\)" % IDENT_, name)
        if fm:
            name = fm.group(1)
        if name in self.obj:
            return self.obj[name]
        if name in self.pos:
            return self.pos[name]
        self.fail("object not understood: " + name)

    def is_root_test(self, t):
        t = _unparen(t)
        m = re.fullmatch(r"(%s)==(%s)" % (IDENT_, IDENT_), t)
        return bool(m and sorted(self.role.get(x, x) for x in m.groups()) == ["me", "root"])

    def atom(self, t):
        t = _unparen(_nows(t))
        if re.fullmatch(r"\d+", t):
            return [".lit %s" % t], []
        if self.is_root_test(t):
            return [".isRoot"], []
        # (me==root) ? x : 0   ==   (me==root) * x
        q = t.find("?")
        if q > 0 and self.is_root_test(t[:q]):
            rest = t[q + 1:]
            d, k = 0, None
            for j, ch in enumerate(rest):
                if ch in "(<[":
                    d += 1
                elif ch in ")>]":
                    d -= 1
                elif ch == ":" and d == 0 and rest[j - 1:j] != ":" and rest[j + 1:j + 2] != ":":
                    k = j
                    break
            if k is not None and _unparen(rest[k + 1:]) == "0":
                n2, d2 = self.cexpr(rest[:k])
                if d2:
                    self.fail("quotient inside a conditional count (integer division does not commute with the root test): " + t)
                return [".isRoot"] + n2, []
        if t == "procs":
            return [".procs"], []
        m = re.fullmatch(r"(?:static_cast<int>|int)?\(?(%s)\.size\(\)\)?" % IDENT_, t)
        if m and m.group(1) in self.obj:
            return [".sizeOf %d" % self.obj[m.group(1)]], []
        if t in self.ints:
            return self.ints[t]
        if t in self.pos and self.ptype[t] == "int" and t not in self.role:
            return [".par %d" % self.pos[t]], []
        self.fail("count expression not understood: " + t)

    def cexpr(self, text):
        """left-associative products / quotients of atoms: a*b/c -> (a*b)/c; the factors of a product are sorted"""
        toks, depth, cur = [], 0, ""
        for c in _unparen(_nows(text)):
            if c == "(":
                depth += 1
            elif c == ")":
                depth -= 1
            if c in "*/" and depth == 0:
                toks += [cur, c]
                cur = ""
            else:
                cur += c
        toks.append(cur)
        num, den = self.atom(toks[0])
        num, den = list(num), list(den)
        for k in range(1, len(toks), 2):
            n2, d2 = self.atom(toks[k + 1])
            if toks[k] == "*":
                if den or d2:
                    self.fail("multiplication after a division (integer division does not commute): " + text)
                num += n2
            else:
                if d2:
                    self.fail("nested division: " + text)
                den += n2
        return sorted(num), sorted(den)

    @staticmethod
    def cstr(e):
        return "⟨[%s], [%s]⟩" % (", ".join(e[0]), ", ".join(e[1]))

    def arg(self, a):
        t = _nows(a)
        if t == "communicator":
            return ".comm"
        if self.fut and t == "&%s.req_" % self.fut:
            return ".req"
        if t == "MPI_IN_PLACE":
            return ".inPlace"
        if self.role.get(t) == "status":
            return ".status"
        m = re.fullmatch(r"(%s)\.(ptr|size|type)\(\)" % IDENT_, t)
        if m and m.group(1) in self.obj:
            k = self.obj[m.group(1)]
            return {"ptr": ".buf %d" % k, "size": ".cnt ⟨[.sizeOf %d], []⟩" % k, "type": ".tyOf %d" % k}[m.group(2)]
        m = re.fullmatch(r"const_cast<(.*)\*>\((%s)\)" % IDENT_, t)
        if m:
            p = m.group(2)
            if p not in self.pos or self.ptype[p] != "const" + m.group(1) + "*":
                self.fail("const_cast changes the type: " + a)
            return ".buf %d" % self.pos[p]
        m = re.fullmatch(r"&?(%s)" % IDENT_, t)
        if m and m.group(1) in self.pos:
            p = m.group(1)
            pt = self.ptype[p]
            if t.startswith("&"):
                if pt.endswith("&") and not pt.endswith("&&"):
                    return ".buf %d" % self.pos[p]        # address of a reference parameter
                self.fail("address of a parameter: " + a)
            if pt == "int*":
                return ".arr %d" % self.pos[p]
            if pt.endswith("*") and pt != "MPI_Status*":
                return ".buf %d" % self.pos[p]
            if self.role.get(p) in ("root", "peer", "tag"):
                return "." + self.role[p]
        m = re.fullmatch(r"&(%s)" % IDENT_, t)
        if m and m.group(1) in self.obj:
            return ".buf %d" % self.obj[m.group(1)]
        if "*" + t in self.obj:
            return ".buf %d" % self.obj["*" + t]
        m = re.fullmatch(r"MPITraits<(.*)>::getType\(\)", t)
        if m:
            return ".tyT %s" % lean_str(self.tnum(m.group(1)))
        m = re.fullmatch(r"\(?Generic_MPI_Op<(.*),(%s)>::get\(\)\)?" % IDENT_, t)
        if m:
            e = m.group(1)
            dm = re.fullmatch(r"typenamedecltype\((%s)\)::element_type" % IDENT_, e)
            if dm and dm.group(1) in self.obj:
                return ".op (.elemOf %d) %s" % (self.obj[dm.group(1)], lean_str(self.tnum(m.group(2))))
            return ".op (.named %s) %s" % (lean_str(self.tnum(e)), lean_str(self.tnum(m.group(2))))
        return ".cnt " + self.cstr(self.cexpr(a))

    # --- rrecv: the status pointer, the message handle, the count -----------------------------------
    def rr_arg(self, a):
        t = _nows(a)
        if t in self.sptr:
            return "status" if self.sptr[t] == "defaulted" else "status-possibly-MPI_STATUS_IGNORE"
        m = re.fullmatch(r"&(%s)" % IDENT_, t)
        if m and m.group(1) in self.msg:
            return "&message"
        if m and m.group(1) in self.cntvar:
            return "&count"
        if m and m.group(1) in self.statusobj:
            return "&localstatus"
        if t in self.cntvar:
            return "count"
        if self.role.get(t) in ("peer", "tag"):
            return self.role[t]
        m = re.fullmatch(r"(%s)\.(ptr|size|type)\(\)" % IDENT_, t)
        if m and m.group(1) in self.obj:
            return "view%d.%s()" % (self.obj[m.group(1)], m.group(2))
        return t

    def rr_default(self, cond, a, b):
        """`cond ? a : b` with cond a comparison of a status pointer with MPI_STATUS_IGNORE -> True if the value is
        `the caller's pointer, or the address of a local status object when that is MPI_STATUS_IGNORE`"""
        m = re.fullmatch(r"(%s)(==|!=)(%s)" % (IDENT_, IDENT_), _unparen(_nows(cond)))
        if not m:
            return None
        x, op, y = m.groups()
        if y == "MPI_STATUS_IGNORE":
            pv = x
        elif x == "MPI_STATUS_IGNORE":
            pv = y
        else:
            return None
        if self.sptr.get(pv) != "param":
            return None
        a, b = _unparen(_nows(a)), _unparen(_nows(b))
        if op == "!=":
            a, b = b, a
        ma = re.fullmatch(r"&(%s)" % IDENT_, a)
        return bool(ma and ma.group(1) in self.statusobj and b == pv)

    def step_rrecv(self, st):
        m = re.fullmatch(r"MPI_Status (%s)" % IDENT_, st)
        if m:
            self.statusobj.add(m.group(1))
            return True
        m = re.fullmatch(r"MPI_Message (%s)" % IDENT_, st)
        if m:
            self.msg.add(m.group(1))
            return True
        m = re.fullmatch(r"int (%s)(?: ?= ?0| ?\{ ?0? ?\})?" % IDENT_, st)
        if m:
            self.cntvar.add(m.group(1))
            return True
        # if (p == MPI_STATUS_IGNORE) p = &local;
        m = re.fullmatch(r"if ?\((.*?)\) ?\{? ?(%s) ?= ?& ?(%s) ?;? ?\}?" % (IDENT_, IDENT_), st)
        if m:
            c = re.fullmatch(r"(%s)==(%s)" % (IDENT_, IDENT_), _unparen(_nows(m.group(1))))
            pv = m.group(2)
            if c and sorted(c.groups()) == sorted([pv, "MPI_STATUS_IGNORE"]) and self.sptr.get(pv) == "param" and m.group(3) in self.statusobj:
                self.sptr[pv] = "defaulted"
                return True
            self.fail("defaulting of the status pointer not understood: " + st)
        # MPI_Status* p = status;   /   MPI_Status* p = (status == MPI_STATUS_IGNORE) ? &local : status;
        m = re.fullmatch(r"(?:MPI_Status ?\*|auto ?\*?) ?(%s) ?= ?(.*)" % IDENT_, st)
        if m:
            v = _unparen(_nows(m.group(2)))
            if v in self.sptr:
                self.sptr[m.group(1)] = self.sptr[v]
                return True
            q = v.find("?")
            if q > 0 and ":" in v[q:]:
                k = v.index(":", q)
                if self.rr_default(v[:q], v[q + 1:k], v[k + 1:]):
                    self.sptr[m.group(1)] = "defaulted"
                    return True
            self.fail("status pointer not understood: " + st)
        m = re.fullmatch(r"(%s)\.resize ?\((.*)\)" % IDENT_, st)
        if m and m.group(1) in self.obj:
            self.events.append(("resize", ["view%d" % self.obj[m.group(1)], self.rr_arg(m.group(2))]))
            return True
        m = re.fullmatch(r"(MPI_Mprobe|MPI_Get_count|MPI_Mrecv) ?\((.*)\)", st)
        if m:
            self.events.append((m.group(1), [self.rr_arg(a) for a in split_top(m.group(2))]))
            return True
        return False

    def step(self, st):
        if not st:
            return
        # qualifiers / spellings that do not change the meaning
        st = re.sub(r"\bthis ?-> ?", "", st)
        st = re.sub(r"^(?:const )+", "", st)
        st = re.sub(r"^(int|auto|MPI_Status ?\*|%s) const " % IDENT_, r"\1 ", st)
        st = re.sub(r"^auto ?&& ", "auto ", st) if re.match(r"auto ?&& %s ?= ?(future|%s)\.get" % (IDENT_, IDENT_), st) else st
        m = re.fullmatch(r"assert ?\( ?(%s)\.type\(\) ?== ?(%s)\.type\(\) ?\)" % (IDENT_, IDENT_), st)
        if m and m.group(1) in self.obj and m.group(2) in self.obj:
            self.same.append(tuple(sorted((self.obj[m.group(1)], self.obj[m.group(2)]))))   # asserted: same datatype
            return
        if re.fullmatch(r"(static_)?assert ?\(.*\)", st):
            return
        m = re.fullmatch(r"MPIFuture<[^()]*> (%s) ?[({](.*)[)}]" % IDENT_, st)
        if m:
            if self.fut:
                self.fail("two futures")
            self.fut = m.group(1)
            args = split_top(m.group(2))
            if len(args) == 1 and _nows(args[0]) == "true":
                return
            self.obj["future.data"] = self.objpos(args[0])
            if len(args) == 2:
                self.obj["future.send"] = self.objpos(args[1])
            elif len(args) != 1:
                self.fail("future constructed from %d objects" % len(args))
            return
        m = re.fullmatch(r"auto (%s) ?= ?(%s)\.(get_mpidata|get_send_mpidata) ?\( ?\)" % (IDENT_, IDENT_), st)
        if m and m.group(2) == self.fut:
            key = "future.data" if m.group(3) == "get_mpidata" else "future.send"
            if key not in self.obj:
                self.fail("future has no such data: " + st)
            self.obj[m.group(1)] = self.obj[key]
            return
        m = re.fullmatch(r"auto (%s) ?= ?getMPIData ?\((.*)\)" % IDENT_, st)
        if m:
            self.obj[m.group(1)] = self.objpos(m.group(2))
            return
        m = re.fullmatch(r"(%s) (%s) ?(?:\((.*)\)|\{(.*)\}|= ?(.*))" % (IDENT_, IDENT_), st)
        if m and m.group(1) in self.tparams and (m.group(3) or m.group(4) or m.group(5)):
            self.obj[m.group(2)] = self.objpos(m.group(3) or m.group(4) or m.group(5))      # `T lvalue_data(std::forward<T>(data))`
            self.locals.add(m.group(2))
            return
        m = re.fullmatch(r"(%s) (%s)" % (IDENT_, IDENT_), st)
        if m and m.group(1) in self.tparams:
            self.obj[m.group(2)] = 0                                          # a local result object `T out;`
            self.locals.add(m.group(2))
            return
        if self.name == "rrecv_4" and self.step_rrecv(st):
            return
        m = re.fullmatch(r"(?:int|auto) (%s) ?= ?(.*)" % IDENT_, st)
        if m and not re.match(r"(MPI_|allreduce)", m.group(2)):
            self.ints[m.group(1)] = self.cexpr(m.group(2))
            return
        m = re.fullmatch(r"if ?\( ?(.*?) ?\) ?\{? ?DUNE_THROW ?\( ?ParallelError.*\) ?;? ?\}?", st)
        if m:
            c = _nows(m.group(1))
            cm = re.fullmatch(r"(%s)\.size\(\)==0|0==(%s)\.size\(\)|!(%s)\.size\(\)|(%s)\.size\(\)<=0|(%s)\.size\(\)<1" % ((IDENT_,) * 5), c)
            v = cm and [g for g in cm.groups() if g][0]
            if v and v in self.obj:
                if self.calls:
                    self.fail("guard after the MPI call")
                self.guard = "throwIfEmpty %d" % self.obj[v]
                return
        m = re.fullmatch(r"(?:return )?(MPI_\w+) ?\((.*)\)", st)
        if m:
            if self.deleg and self.name != "allreduce_2":
                self.fail("delegation and an MPI call")
            self.calls.append((m.group(1), [self.arg(a) for a in split_top(m.group(2))]))
            return
        m = re.fullmatch(r"(return |int (%s) ?= ?)?allreduce ?<(.*)> ?\((.*)\)" % IDENT_, st)
        if m:
            if self.deleg:
                self.fail("two delegations")
            self.deleg = (self.tnum(m.group(3)), [self.arg(a) for a in split_top(m.group(4))])
            self.order.append("deleg")
            if m.group(2):
                self.retvar = m.group(2)
            return
        m = re.fullmatch(r"return (%s)" % IDENT_, st)
        if m and m.group(1) in ({self.fut, self.retvar} | self.locals) - {None}:
            if self.returned:
                self.fail("two return statements")
            self.returned = m.group(1)
            return
        if self.name == "allreduce_2":
            c = self.canon_allreduce2(st)
            if c in ALLREDUCE2_EXTRA:
                self.extra.append(c)
                self.order.append(c)
                return
        self.fail("statement outside the grammar: " + st)

    def canon_allreduce2(self, st):
        """temporary array / copy back / release of the in-place allreduce with the temporary and the parameters renamed to the
        names used in ALLREDUCE2_EXTRA (inout, len by position)"""
        t = _nows(st)
        if len(self.params) != 2:
            return t
        p_inout, p_len = self.params[0][1], self.params[1][1]
        m = re.fullmatch(r"(%s)\*(%s)=new(%s)\[(%s)\]" % ((IDENT_,) * 4), t)
        if m and m.group(1) == m.group(3) and m.group(1) in self.tparams and m.group(4) == p_len and self.temp is None \
                and self.ptype[p_inout] == m.group(1) + "*":
            self.temp = m.group(2)
            self.obj["*" + self.temp] = 0
            return "Type*out=newType[len]"
        if self.temp:
            x = re.escape(self.temp)
            if re.fullmatch(r"std::copy\(%s,%s\+%s,%s\)" % (x, x, re.escape(p_len), re.escape(p_inout)), t) or \
                    re.fullmatch(r"std::copy_n\(%s,%s,%s\)" % (x, re.escape(p_len), re.escape(p_inout)), t):
                return "std::copy(out,out+len,inout)"
            if re.fullmatch(r"delete\[\]%s" % x, t):
                return "delete[]out"
        return t

    def ptrs(self):
        out = []
        for (t, p) in self.params:
            t = _nows(t)
            if t in ("int*", "MPI_Status*"):
                continue
            m = re.fullmatch(r"(?:const)?(.*?)(\*|&)", t)
            if m and not t.endswith("&&"):
                out.append("(%d, %s)" % (self.pos[p], lean_str(self.tnum(m.group(1)))))
        return "[%s]" % ", ".join(out)

    def lean(self):
        g = ".none" if self.guard is None else "(.%s)" % self.guard
        g = "%s, [%s], %s" % (self.ptrs(), ", ".join("(%d, %d)" % q for q in sorted(self.same)), g)
        # what is returned: the future / the local object the data were received into / the delegation's return value
        if self.fut and self.returned != self.fut:
            self.fail("the future is not returned")
        if self.locals and self.returned not in self.locals:
            self.fail("the local result object is not returned")
        if self.retvar and self.returned != self.retvar:
            self.fail("the return value of the delegation is not returned")
        if self.name == "rrecv_4":
            views = [k for k, v in self.obj.items() if k not in self.locals and not k.startswith("future.") and v == 1]
            if len(views) != 1:
                self.fail("no MPIData view of the received object")
            v = "view1"
            want = [("MPI_Mprobe", ["peer", "tag", "communicator", "&message", "status"]),
                    ("MPI_Get_count", ["status", v + ".type()", "&count"]),
                    ("resize", [v, "count"]),
                    ("MPI_Mrecv", [v + ".ptr()", v + ".size()", v + ".type()", "&message", "status"])]
            if self.events != want or self.calls or self.deleg or self.extra:
                self.fail("probe / count / resize / receive sequence changed: %r" % (self.events,))
            if len(self.statusobj) != 1 or len(self.msg) != 1 or len(self.cntvar) != 1:
                self.fail("probe / count / resize / receive sequence changed (locals)")
            if self.obj.get(self.returned) != 1:
                self.fail("the received object is not returned")
            return "⟨%s, .probeCountResizeRecv %d, %s⟩" % (lean_str(self.name), 1, g)
        if self.name == "allreduce_2":
            if self.extra != ALLREDUCE2_EXTRA or self.calls or not self.deleg or not self.retvar:
                self.fail("temporary / copy back sequence changed")
            if self.order != [ALLREDUCE2_EXTRA[0], "deleg"] + ALLREDUCE2_EXTRA[1:]:
                self.fail("temporary / delegation / copy back / release out of order")
            return "⟨%s, .delegateCopyBack %s [%s], %s⟩" % (lean_str(self.name), lean_str(self.deleg[0]), ", ".join(self.deleg[1]), g)
        if self.extra:
            self.fail("unexpected statements")
        if self.deleg:
            if self.calls:
                self.fail("delegation and an MPI call")
            return "⟨%s, .delegate %s [%s], %s⟩" % (lean_str(self.name), lean_str(self.deleg[0]), ", ".join(self.deleg[1]), g)
        if len(self.calls) != 1:
            self.fail("%d MPI calls" % len(self.calls))
        fn, args = self.calls[0]
        return "⟨%s, .call %s [%s], %s⟩" % (lean_str(self.name), lean_str(fn), ", ".join(args), g)


def wrapper_rows(src):
    body = mpi_class_body(src)
    ms = methods(body)
    tps = method_templates(body)
    if len(ms) != len(tps):
        raise TranslateError("member functions of Communication<MPI_Comm> not parsed consistently")
    # R5: the data members are identified by what the constructor stores in them, not by their names
    flat = re.sub(r"\s+", "", body)
    mr = re.search(r"MPI_Comm_rank\((%s),&(%s)\)" % (IDENT_, IDENT_), flat)
    mz = re.search(r"MPI_Comm_size\((%s),&(%s)\)" % (IDENT_, IDENT_), flat)
    if not mr or not mz or mr.group(1) != mz.group(1) or mr.group(2) == mz.group(2):
        raise TranslateError("constructor of Communication<MPI_Comm>: MPI_Comm_rank / MPI_Comm_size on the stored communicator not found")
    members = {mr.group(1): "communicator", mr.group(2): "me", mz.group(2): "procs"}
    for mem, canon in members.items():
        ty = "MPI_Comm" if canon == "communicator" else "int"
        if not re.search(r"[;}:]\s*%s\s+%s\s*;" % (ty, re.escape(mem)), body):
            raise TranslateError("Communication<MPI_Comm>: data member %s (%s) not declared as `%s %s;`" % (mem, canon, ty, mem))
    rows = {}
    for (name, params, mbody), tparams in zip(ms, tps):
        if any(p in members or p in members.values() for (t, p) in params):
            raise TranslateError("Communication<MPI_Comm>::%s: a parameter hides a data member" % name)
        for mem, canon in members.items():
            if mem != canon:
                if re.search(r"\b%s\b" % canon, mbody):
                    raise TranslateError("Communication<MPI_Comm>::%s: `%s` is not the data member any more" % (name, canon))
                mbody = re.sub(r"\b%s\b" % re.escape(mem), canon, mbody)
        key = "%s_%d" % (name, len(params))
        if key not in WRAPPERS:
            if name in ("Communication", "operator", "rank", "size"):
                continue
            raise TranslateError("unknown member function %s of Communication<MPI_Comm>" % key)
        if key in rows:
            raise TranslateError("two overloads " + key)
        rows[key] = _Wrapper(name, params, tparams, mbody).lean()
    for w in WRAPPERS:
        if w not in rows:
            raise TranslateError("Communication<MPI_Comm> lost the overload " + w)
    return [rows[w] for w in WRAPPERS]


# ------------------------------------------------------------------------------------------------
# the sequential stand-in
# ------------------------------------------------------------------------------------------------
def class_body(src):
    m = re.search(r"template\s*<\s*typename\s+Communicator\s*>\s*class\s+Communication\s*\{", src)
    if not m:
        raise TranslateError("primary template Communication<Communicator> not found")
    start = m.end() - 1
    return src[start + 1:balanced(src, start) - 1]


def methods(body):
    """yield (name, [(type, name)], bodytext) for every member function defined at depth 0 of the class body"""
    i, last = 0, 0
    out = []
    while i < len(body):
        ch = body[i]
        if ch == "{":
            end = balanced(body, i)
            sig = body[last:i]
            sig = sig.split(";")[-1]
            sig = re.sub(r"\b(public|private|protected)\s*:", " ", sig)
            sig = re.sub(r"\[\[maybe_unused\]\]", " ", sig)
            sig = re.sub(r"\s+", " ", sig).strip()
            # drop a leading template<...>
            while sig.startswith("template"):
                j = sig.index("<")
                sig = sig[balanced(sig, j, "<", ">"):].strip()
            # constructor initialiser lists are not used in this class
            p = sig.find("(")
            if p >= 0:
                q = balanced(sig, p, "(", ")")
                head, params = sig[:p].strip(), sig[p + 1:q - 1].strip()
                name = head.split()[-1] if head else ""
                if head.startswith("operator") or " operator" in head:
                    name = "operator"
                plist = []
                if params:
                    depth, cur, parts = 0, "", []
                    for c in params:
                        if c in "<(":
                            depth += 1
                        elif c in ">)":
                            depth -= 1
                        if c == "," and depth == 0:
                            parts.append(cur)
                            cur = ""
                        else:
                            cur += c
                    parts.append(cur)
                    for prm in parts:
                        prm = prm.split("=")[0].strip()
                        mm = re.match(r"(.*?)(\w+)$", prm)
                        if not mm or not mm.group(1).strip():
                            plist.append((prm, "_unnamed%d" % len(plist)))   # unnamed parameter (constructors)
                            continue
                        plist.append((mm.group(1).strip(), mm.group(2)))
                out.append((name, plist, re.sub(r"\s+", " ", body[i + 1:end - 1]).strip()))
            i = end
            last = end
        else:
            i += 1
    return out


def is_buffer(ctype):
    t = ctype.replace("const", "").strip()
    if re.fullmatch(r"int\s*\*?", t) or t in ("void*", "void *"):
        return False
    return True


IDENT = r"[A-Za-z_]\w*"


def lean_name(n):
    return n + "_" if n in ("in", "out", "end", "from", "to", "at", "do", "then", "else", "fun", "let", "have", "show") else n


def expr(text, nats, loopvar=None, consts=None):
    """sum/difference of atoms {number, ident, *ident, loop variable, const local} -> Lean Nat expression in canonical form:
    literals, then names in alphabetical order, the loop variable last, subtracted terms at the end (R5: `i + *displ` and
    `*displ + i` give the same text; a `const` local that is initialised once from such an expression is replaced by it)"""
    consts = consts or {}
    text = text.strip()
    while text.startswith("(") and balanced(text, 0, "(", ")") == len(text):
        text = text[1:-1].strip()
    toks = re.findall(r"\*?\s*%s|\d+|[-+]" % IDENT, text)
    if "".join(toks).replace(" ", "") != text.replace(" ", ""):
        raise TranslateError("index/bound expression not in the grammar: %r" % text)
    pos, neg = [], []
    sign = +1
    expect_atom = True
    for t in toks:
        t = t.replace(" ", "")
        if t in "+-":
            if expect_atom:
                raise TranslateError("unary sign in %r" % text)
            sign = +1 if t == "+" else -1
            expect_atom = True
            continue
        if not expect_atom:
            raise TranslateError("juxtaposed atoms in %r" % text)
        expect_atom = False
        if t.isdigit():
            p_, n_ = [(0, int(t), t)], []
        else:
            nm = t.lstrip("*")
            if nm == loopvar:
                if t.startswith("*"):
                    raise TranslateError("dereferenced loop variable in %r" % text)
                p_, n_ = [(2, 0, nm)], []
            elif nm in consts and not t.startswith("*"):
                p_, n_ = consts[nm]
            elif nm in nats:
                p_, n_ = [(1, 0, lean_name(nm))], []
            else:
                raise TranslateError("unknown name %s in %r" % (nm, text))
        if sign > 0:
            pos += p_
            neg += n_
        else:
            pos += n_
            neg += p_
    if expect_atom:
        raise TranslateError("dangling operator in %r" % text)
    return pos, neg


def render(pn):
    pos, neg = pn
    lit = sum(q[1] for q in pos if q[0] == 0)
    names = sorted(q for q in pos if q[0] != 0)
    nlit = sum(q[1] for q in neg if q[0] == 0)
    nnames = sorted(q for q in neg if q[0] != 0)
    if nlit and lit >= nlit:
        lit, nlit = lit - nlit, 0
    items = ([str(lit)] if lit or not names else []) + [q[2] for q in names]
    if not items:
        raise TranslateError("expression without a positive term")
    out = " + ".join(items)
    for q in ([(0, nlit, str(nlit))] if nlit else []) + nnames:
        out += " - " + q[2]
    return out


def translate_body(name, params, body):
    """-> (lean expression of the result buffer, kind)"""
    bufs = [p for (t, p) in params if is_buffer(t)]
    nats = [p for (t, p) in params if not is_buffer(t)]
    fwd = r"(?:std::forward<\w+>\(\s*(%s)\s*\)|(%s))" % (IDENT, IDENT)

    def unf(m, k):
        return m.group(k) or m.group(k + 1)

    b = body
    if re.fullmatch(r"DUNE_THROW\s*\(\s*ParallelError\s*,.*\)\s*;", b):
        return None, "throws"
    m = re.fullmatch(r"return (%s) ?;" % IDENT, b)
    if m and m.group(1) in bufs:
        return lean_name(m.group(1)), "value"
    m = re.fullmatch(r"return (\d+) ?;", b)
    if m:
        if name in ("rank", "size", "barrier"):
            return m.group(1), "const"
        if m.group(1) != "0":
            raise TranslateError("%s returns the error code %s" % (name, m.group(1)))
        if not bufs:
            raise TranslateError("%s: no buffer parameter" % name)
        return lean_name(bufs[0]), "value"
    m = re.fullmatch(r"return \{ ?%s ?\} ?;" % fwd, b)
    if m and unf(m, 1) in bufs:
        return lean_name(unf(m, 1)), "value"
    # *(out.begin()) = fwd(in); return {fwd(out)};
    m = re.fullmatch(r"\* ?\( ?(%s)\.begin\(\) ?\) ?= ?%s ?; return \{ ?%s ?\} ?;" % (IDENT, fwd, fwd), b)
    if m and m.group(1) in bufs and unf(m, 2) in bufs and unf(m, 4) == m.group(1):
        return "DV.C07.Seq.assignElem e %s 0 %s 0" % (lean_name(unf(m, 2)), lean_name(m.group(1))), "assign"
    # out = *(fwd(in).begin()); return {fwd(out)};
    m = re.fullmatch(r"(%s) ?= ?\* ?\( ?%s\.begin\(\) ?\) ?; return \{ ?%s ?\} ?;" % (IDENT, fwd, fwd), b)
    if m and m.group(1) in bufs and unf(m, 2) in bufs and unf(m, 4) == m.group(1):
        return "DV.C07.Seq.assignElem e %s 0 %s 0" % (lean_name(unf(m, 2)), lean_name(m.group(1))), "assign"
    # out = fwd(in); return {fwd(out)};
    m = re.fullmatch(r"(%s) ?= ?%s ?; return \{ ?%s ?\} ?;" % (IDENT, fwd, fwd), b)
    if m and m.group(1) in bufs and unf(m, 2) in bufs and unf(m, 4) == m.group(1):
        return lean_name(unf(m, 2)), "value"

    # ---- [const locals] <one copy loop / std::copy / std::copy_n> return 0;
    def bad(why):
        raise TranslateError("body of sequential %s/%d not in the statement grammar (%s): %r" % (name, len(params), why, b[:160]))
    sts = _stmts(b)
    if len(sts) < 2 or sts[-1] != "return 0":
        bad("does not end in one copy statement and `return 0;`")
    consts = {}
    for st in sts[:-2]:
        m = re.fullmatch(r"const (?:int|auto|std::size_t|size_t|unsigned|unsigned int) (%s) ?= ?(.*)" % IDENT, st)
        if not m or m.group(1) in consts or m.group(1) in nats or m.group(1) in bufs:
            bad("statement in front of the copy: " + st)
        consts[m.group(1)] = expr(m.group(2), nats, None, consts)
    st = sts[-2]

    def ex(t, v=None):
        return expr(t, nats, v, consts)

    def forcopy(R, L, start, bound, v, il, ir):
        return ("DV.C07.Seq.forCopy e %s %s (%s) (%s) (fun %s => %s) (fun %s => %s)"
                % (lean_name(R), lean_name(L), render(start), render(bound), v, render(il), v, render(ir))), "loop"

    def based(t):
        """`buf` or `buf + offset` / `offset + buf` -> (buffer, offset expression)"""
        t = _unparen(_nows(t))
        parts = re.split(r"\+", t)
        bs_ = [q for q in parts if q in bufs]
        if len(bs_) != 1 or "-" in t:
            bad("pointer argument " + t)
        rest = [q for q in parts if q != bs_[0] or parts.count(q) > 1]
        return bs_[0], ex("+".join(rest) if rest else "0")

    ZERO = ([(0, 0, "0")], [])
    I = ([(2, 0, "i")], [])

    def add(a, c):
        return a[0] + c[0], a[1] + c[1]
    # for (int i=S; i<B; i++) L[IL] = R[IR];
    m = re.fullmatch(r"for ?\( ?(?:int|std::size_t|size_t|unsigned|unsigned int) (%s) ?= ?([^;]+); ?([^;]+); ?([^;)]+)\) ?(.*)" % IDENT, st)
    if m:
        v, start, cond, incr, lb = m.groups()
        if v in nats or v in bufs or v in consts:
            bad("loop variable shadows a name")
        c = _nows(cond)
        cm = re.fullmatch(r"%s(?:<|!=)(.*)" % re.escape(v), c)
        cm2 = re.fullmatch(r"(.*)(?:>|!=)%s" % re.escape(v), c)
        if cm:
            bound = cm.group(1)
        elif cm2:
            bound = cm2.group(1)
        else:
            bad("loop condition " + cond)
        if _nows(incr) not in ("%s++" % v, "++%s" % v, "%s+=1" % v):
            bad("loop increment " + incr)
        lb = lb.strip()
        if lb.startswith("{"):
            if balanced(lb, 0) != len(lb):
                bad("code after the loop body")
            inner = _stmts(lb[1:-1])
            if len(inner) != 1:
                bad("loop body with %d statements" % len(inner))
            lb = inner[0]
        am = re.fullmatch(r"(%s) ?\[([^\]]+)\] ?= ?(%s) ?\[([^\]]+)\]" % (IDENT, IDENT), lb) or \
            re.fullmatch(r"\* ?\( ?(%s) ?\+([^()]+)\) ?= ?\* ?\( ?(%s) ?\+([^()]+)\)" % (IDENT, IDENT), lb)
        if not am:
            bad("loop body " + lb)
        L, il, R, ir = am.groups()
        if L not in bufs or R not in bufs:
            raise TranslateError("%s: loop assigns %s[..] = %s[..], not buffers" % (name, L, R))
        return forcopy(R, L, ex(start), ex(bound), v, ex(il, v), ex(ir, v))
    # pointer walk: for(const T* end=S+N; S < end; ++S, ++D) *D=*S;
    m = re.fullmatch(r"for ?\( ?(?:const T ?\*|const auto ?\*|auto) ?(?:const )?(%s) ?= ?(%s) ?\+ ?(%s) ?; ?([^;]+); ?([^;)]+)\) ?\{? ?\* ?(%s) ?= ?\* ?(%s) ?;? ?\}?"
                     % ((IDENT,) * 5), st)
    if m:
        endv, S, N, cond, incr, D, S3 = m.groups()
        c = _nows(cond)
        incs = sorted(_nows(q) for q in split_top(incr))
        ok_inc = all(re.fullmatch(r"\+\+%s|%s\+\+" % (IDENT, IDENT), q) for q in incs) and \
            sorted(q.replace("++", "") for q in incs) == sorted([S, D])
        if not (S == S3 and c in ("%s<%s" % (S, endv), "%s!=%s" % (S, endv), "%s>%s" % (endv, S), "%s!=%s" % (endv, S))
                and ok_inc and S in bufs and D in bufs and S != D and N in nats):
            raise TranslateError("%s: pointer loop not recognised" % name)
        return forcopy(S, D, ZERO, ex(N), "i", I, I)
    # std::copy(in+o, in+o+len, out+p);  std::copy_n(in+o, len, out+p);
    m = re.fullmatch(r"std::(copy|copy_n) ?\((.*)\)", st)
    if m:
        args = split_top(m.group(2))
        if len(args) != 3:
            bad("std::%s with %d arguments" % (m.group(1), len(args)))
        R, ro = based(args[0])
        L, lo = based(args[2])
        if m.group(1) == "copy_n":
            n = ex(args[1])
        else:
            a0, a1 = _nows(args[0]), _nows(args[1])
            if not a1.startswith(a0 + "+"):
                bad("std::copy: the end of the range is not <first> + <count>")
            n = ex(a1[len(a0) + 1:])
        if R == L:
            bad("copy within one buffer")
        return forcopy(R, L, ZERO, n, "i", add(lo, I), add(ro, I))
    bad("copy statement " + st)


COLLECTIVES = ["sum", "prod", "min", "max", "broadcast", "ibroadcast", "gather", "igather", "gatherv", "scatter", "iscatter",
               "scatterv", "allgather", "iallgather", "allgatherv", "allreduce", "iallreduce"]
P2P = ["send", "isend", "recv", "irecv", "rrecv"]


def translate(repo):
    par = os.path.join(repo, "dune/common/parallel")
    traits_src = strip_comments(open(os.path.join(par, "mpitraits.hh")).read())
    comm_src = strip_comments(open(os.path.join(par, "mpicommunication.hh")).read())
    seq_src = strip_comments(open(os.path.join(par, "communication.hh")).read())
    plocal_src = strip_comments(open(os.path.join(par, "plocalindex.hh")).read())
    remote_src = strip_comments(open(os.path.join(par, "remoteindices.hh")).read())

    out = ["import DuneVerif.Model.C07",
           "-- GENERATED by tools/translators/tr_c07.py from dune/common/parallel/{mpitraits,mpicommunication,communication}.hh"
           " -- do not edit",
           "set_option linter.unusedVariables false",
           "namespace DV.C07.Gen",
           "",
           "/-- `ComposeMPITraits(p, m)`: C++ type -> predefined MPI datatype handle -/",
           "def traitsTable : List (String × String) := ["]
    rows = traits_table(traits_src)
    out += ["  (%s, %s)%s" % (lean_str(p), lean_str(m), "," if k + 1 < len(rows) else "") for k, (p, m) in enumerate(rows)]
    out += ["]", "",
            "/-- `ComposeMPIOp(func, op)`: functor template (on an intrinsic element type) -> predefined MPI_Op handle -/",
            "def opTable : List (String × String) := ["]
    rows = op_table(comm_src)
    out += ["  (%s, %s)%s" % (lean_str(f), lean_str(o), "," if k + 1 < len(rows) else "") for k, (f, o) in enumerate(rows)]
    commute, args, target = user_op(comm_src)
    out += ["]", "",
            "/-- the `commute` argument `Generic_MPI_Op::get` passes to `MPI_Op_create` for user functors -/",
            "def userOpCommute : Bool := %s" % ("true" if commute else "false"),
            "/-- the MPI callback computes `<target>[i] = func(<args.0>[i], <args.1>[i])` -/",
            "def userOpArgs : List String := [%s]" % ", ".join(lean_str(a) for a in args),
            "def userOpTarget : String := %s" % lean_str(target),
            "",
            "/-- class templates that create an MPI handle lazily (`if (!handle) handle = create(); return handle;`): template",
            "parameters (by position) that select the static storage of the handle / that occur in the creating code -/",
            "def singletonTable : List DV.C07.Reg.Row := ["]
    srows = singleton_rows([comm_src, traits_src, plocal_src, remote_src])
    out += ["  ⟨%s, [%s], [%s]⟩%s" % (lean_str(f), ", ".join(lean_str(x) for x in sl), ", ".join(lean_str(x) for x in us),
                                  "," if k + 1 < len(srows) else "") for k, (f, sl, us) in enumerate(srows)]
    out += ["]", "",
            "/-! ### R4: what the construction block of every `MPITraits<...>::getType()` builds (symbolic execution of the",
            "straight-line code; struct members in canonical (alphabetical) order) -/",
            "namespace TyProg", "open DV.C07.TyProg DV.C07.TyProg.Expr"]
    for (lname, fam, e) in type_programs([traits_src, plocal_src, remote_src]):
        out.append("/-- `%s::getType()` -/" % fam)
        out.append("def %s : DV.C07.TyProg.Expr := %s" % (lname, e[1:-1] if e.startswith("(") else e))
    out += ["end TyProg", "",
            "/-! ### R4: the MPI call issued by every member function of `Communication<MPI_Comm>` (parameters and template",
            "parameters by position; factors of a product sorted) -/",
            "open DV.C07.Wrap in",
            "def wrapperTable : List DV.C07.Wrap.Row := ["]
    wrows = wrapper_rows(comm_src)
    out += ["  %s%s" % (r, "," if k + 1 < len(wrows) else "") for k, r in enumerate(wrows)]
    out += ["]",
            "",
            "/-! ### `Communication<No_Comm>` (primary template in communication.hh), body by body -/",
            "namespace Seq",
            "variable {α : Type}"]
    seen = {}
    throws = []
    consts = {}
    for (name, params, body) in methods(class_body(seq_src)):
        if name in ("Communication", "operator", ""):
            continue
        if name in ("rank", "size", "barrier"):
            val, kind = translate_body(name, params, body)
            if kind != "const":
                raise TranslateError("%s() does not return a constant" % name)
            consts[name] = val
            continue
        if name == "ibarrier":
            if body.replace(" ", "") != "return{true};":
                raise TranslateError("ibarrier() body changed: " + body)
            continue
        if name in P2P:
            val, kind = translate_body(name, params, body)
            throws.append((name, kind == "throws"))
            continue
        if name not in COLLECTIVES:
            raise TranslateError("unknown member function %s of the sequential Communication" % name)
        val, kind = translate_body(name, params, body)
        if kind == "throws":
            raise TranslateError("collective %s throws" % name)
        lname = "%s_%d" % (name, len(params))
        if lname in seen:
            raise TranslateError("two overloads %s with %d parameters" % (name, len(params)))
        seen[lname] = True
        binders = " ".join("(%s : %s)" % (lean_name(p), "List α" if is_buffer(t) else "Nat") for (t, p) in params)
        out.append("/-- `%s(%s) { %s }` -/" % (name, ", ".join((t + " " + p).strip() for (t, p) in params), body.replace("-/", "- /")))
        out.append("def %s (e : Nat) %s : List α := %s" % (lname, binders, val))
    need = ["sum_1", "sum_2", "prod_1", "prod_2", "min_1", "min_2", "max_1", "max_2", "broadcast_3", "ibroadcast_2", "gather_4",
            "igather_3", "gatherv_6", "scatter_4", "iscatter_3", "scatterv_6", "allgather_3", "iallgather_2", "allgatherv_5",
            "allreduce_2", "allreduce_3", "iallreduce_1", "iallreduce_2"]
    for n in need:
        if n not in seen:
            raise TranslateError("sequential Communication lost the overload %s" % n)
    for n in ("rank", "size", "barrier"):
        if n not in consts:
            raise TranslateError("sequential Communication lost %s()" % n)
        out.append("def %s : Nat := %s" % (n, consts[n]))
    for n in P2P:
        if n not in [t[0] for t in throws]:
            raise TranslateError("sequential Communication lost %s" % n)
    out.append("/-- point-to-point methods and whether their body is `DUNE_THROW(ParallelError, ...)` -/")
    out.append("def p2pThrows : List (String × Bool) := [%s]" % ", ".join("(%s, %s)" % (lean_str(n), "true" if t else "false") for (n, t) in throws))
    out += ["end Seq", "end DV.C07.Gen", ""]
    return [("DuneVerif/Gen/C07.lean", "\n".join(out))]


# ------------------------------------------------------------------------------------------------
# R5: self test of the normalisations: `python3 tools/translators/tr_c07.py --selftest [repo]`
# POS: behaviour-preserving respellings of the current sources - the generated file must not change (docstrings aside);
# NEG: changes of meaning (the seeded / hand-made mutants of rounds 2-4 and near misses of every normalisation) - the translator
#      must fail loudly or generate something different.
# ------------------------------------------------------------------------------------------------
_MC, _TR, _SQ, _PL, _RI = "mpicommunication.hh", "mpitraits.hh", "communication.hh", "plocalindex.hh", "remoteindices.hh"
_OPLOOP = """      for (int i=0; i< *len; ++i, ++in, ++inout) {
        Type temp;
        temp = func(*in, *inout);
        *inout = temp;
      }"""
_ST_POS = {
 "op_index": [(_MC, _OPLOOP, "const int n = *len; for (int i=0; i<n; ++i) { Type temp; temp = func(in[i], inout[i]); inout[i] = temp; }")],
 "op_notemp": [(_MC, _OPLOOP, "for (int i=0; *len > i; i++, inout++, in++) *inout = func(*in, *inout);")],
 "op_countdown": [(_MC, _OPLOOP, "for (int k=*len; k>0; --k, ++in, ++inout) { const Type t = func(*in, *inout); *inout = t; }")],
 "op_ptrarith": [(_MC, _OPLOOP, "for (int i=0; i != *len; ++i) { *(inout+i) = func(*(in+i), *(inout+i)); }")],
 "op_nofunc": [(_MC, "      BinaryFunction func;\n", ""), (_MC, "temp = func(*in, *inout);", "temp = BinaryFunction()(*in, *inout);")],
 "op_transform": [(_MC, _OPLOOP, "std::transform(in, in + *len, inout, inout, func);")],
 "get_guard": [(_MC, """      if (!op)
      {
        op = std::make_unique<MPI_Op>();""", """      if (op)
        return *op;
      {
        op = std::make_unique<MPI_Op>();""")],
 "fallback_guard": [(_TR, """      if(datatype==MPI_DATATYPE_NULL) {
        MPI_Type_contiguous(sizeof(T),MPI_BYTE,&datatype);
        MPI_Type_commit(&datatype);
      }
      return datatype;""", """      if(MPI_DATATYPE_NULL != datatype) { return datatype; }
        MPI_Type_contiguous(sizeof(T),MPI_BYTE,&datatype);
        MPI_Type_commit(&datatype);
      return datatype;""")],
 "pair_arrayinit": [(_TR, """      MPI_Aint disp[2];
      MPI_Datatype types[2]""", """      using Pair = std::pair<T1, T2>;
      const MPI_Aint disp[2] = {offsetof(Pair, first), offsetof(Pair, second)};
      MPI_Datatype types[2]"""), (_TR, """      using Pair = std::pair<T1, T2>;
      static_assert""", "      static_assert"), (_TR, "      disp[0] = offsetof(Pair, first);\n      disp[1] = offsetof(Pair, second);\n", "")],
 "ip_indexloop": [(_RI, "      for (MPI_Aint& d : disp)\n        d -= base;", "      for (int i = 0; i < 2; ++i) {\n        disp[i] -= base;\n      }")],
 "ip_diffs": [(_RI, "      for (MPI_Aint& d : disp)\n        d -= base;", "      disp[1] = disp[1] - base; disp[0] = disp[0] - base;")],
 "pli_newlocal": [(_PL, "      disp -= base;\n", "      const MPI_Aint off = disp - base;\n"), (_PL, "&length, &disp, types", "&length, &off, types")],
 "seq_gatherv_copy": [(_SQ, "      for (int i=0; i<sendDataLen; i++)\n        out[*displ+i] = in[i];\n      return 0;", "      std::copy(in, in+sendDataLen, out+*displ);\n      return 0;")],
 "seq_scatterv_hoist": [(_SQ, "      for (int i=0; i<*sendDataLen; i++)\n        recvData[i] = sendData[*displ+i];", "      const int offset = *displ;\n      const int n = *sendDataLen;\n      for (int i=0; n != i; ++i) {\n        recvData[i] = sendData[i + offset];\n      }")],
 "seq_gather_copyn": [(_SQ, "      for (int i=0; i<len; i++)\n        out[i] = in[i];", "      std::copy_n(in, len, out);")],
 "seq_allgather_idx": [(_SQ, "      for(const T* end=sbuf+count; sbuf < end; ++sbuf, ++rbuf)\n        *rbuf=*sbuf;", "      for (int i=0; i<count; ++i)\n        rbuf[i] = sbuf[i];")],
 "seq_allgather_walk2": [(_SQ, "      for(const T* end=sbuf+count; sbuf < end; ++sbuf, ++rbuf)\n        *rbuf=*sbuf;", "      for(const T* const last=sbuf+count; sbuf != last; rbuf++, sbuf++) { *rbuf = *sbuf; }")],
 "w_igather_ternary": [(_MC, "int outlen = (me==root) * mpidata_in.size();", "const int outlen = (root == me) ? mpidata_in.size() : 0;")],
 "w_iscatter_commute": [(_MC, "int inlen = (me==root) * mpidata_in.size()/procs;", "const int inlen = mpidata_in.size() * (me==root) / procs;")],
 "w_rename_future": [(_MC, """      MPIFuture<T> future(std::forward<T>(data));
      auto mpidata = future.get_mpidata();
      MPI_Ibcast(mpidata.ptr(),
                 mpidata.size(),
                 mpidata.type(),
                 root,
                 communicator,
                 &future.req_);
      return future;""", """      MPIFuture<T> result(std::forward<T>(data));
      const auto view = result.get_mpidata();
      MPI_Ibcast(view.ptr(), view.size(), view.type(), root, this->communicator, &result.req_);
      return result;""")],
 "w_rename_root": [(_MC, "int broadcast (T* inout, int len, int root) const\n    {\n      return MPI_Bcast(inout,len,MPITraits<T>::getType(),root,communicator);", "int broadcast (T* buffer, int count, int rootRank) const\n    {\n      return MPI_Bcast(buffer,count,MPITraits<T>::getType(),rootRank,communicator);")],
 "w_sum_rename": [(_MC, "      T out;\n      allreduce<std::plus<T> >(&in,&out,1);\n      return out;", "      T result;\n      allreduce<std::plus<T> >(&in,&result,1);\n      return result;")],
 "w_allreduce2_copyn": [(_MC, """      Type* out = new Type[len];
      int ret = allreduce<BinaryFunction>(inout,out,len);
      std::copy(out, out+len, inout);
      delete[] out;
      return ret;""", """      Type* tmp = new Type[len];
      const int rc = allreduce<BinaryFunction>(inout,tmp,len);
      std::copy_n(tmp, len, inout);
      delete[] tmp;
      return rc;""")],
 "w_rrecv_ptrcopy": [(_MC, """      if(status == MPI_STATUS_IGNORE)
        status = &_status;
      MPI_Mprobe(source_rank, tag, communicator, &_message, status);
      int size;
      MPI_Get_count(status, mpi_data.type(), &size);
      mpi_data.resize(size);
      MPI_Mrecv(mpi_data.ptr(), mpi_data.size(), mpi_data.type(), &_message, status);""", """      MPI_Status* st = status;
      if (MPI_STATUS_IGNORE == st) { st = &_status; }
      int n = 0;
      MPI_Mprobe(source_rank, tag, communicator, &_message, st);
      MPI_Get_count(st, mpi_data.type(), &n);
      mpi_data.resize(n);
      MPI_Mrecv(mpi_data.ptr(), mpi_data.size(), mpi_data.type(), &_message, st);""")],
 "w_rrecv_cond": [(_MC, """      if(status == MPI_STATUS_IGNORE)
        status = &_status;
      MPI_Mprobe(source_rank, tag, communicator, &_message, status);""", """      MPI_Status* const ps = (status != MPI_STATUS_IGNORE) ? status : &_status;
      MPI_Mprobe(source_rank, tag, communicator, &_message, ps);"""), (_MC, "MPI_Get_count(status, mpi_data.type(), &size);", "MPI_Get_count(ps, mpi_data.type(), &size);"), (_MC, "mpi_data.type(), &_message, status);", "mpi_data.type(), &_message, ps);")],
 "w_irecv_guard": [(_MC, "if (mpidata.size() == 0)\n        DUNE_THROW", "if (0 == mpidata.size()) DUNE_THROW")],
}
_ST_NEG = {
 "op_swapped": [(_MC, _OPLOOP, "for (int i=0; i< *len; ++i, ++in, ++inout) *inout = func(*inout, *in);")],
 "op_short": [(_MC, _OPLOOP, "for (int i=1; i< *len; ++i, ++in, ++inout) *inout = func(*in, *inout);")],
 "op_nowalk": [(_MC, _OPLOOP, "for (int i=0; i< *len; ++i) *inout = func(*in, *inout);")],
 "op_doublewalk": [(_MC, _OPLOOP, "for (int i=0; i< *len; ++i, ++in, ++inout) inout[i] = func(in[i], inout[i]);")],
 "op_lenm1": [(_MC, _OPLOOP, "const int n = *len - 1; for (int i=0; i<n; ++i) inout[i] = func(in[i], inout[i]);")],
 "op_target_in": [(_MC, _OPLOOP, "for (int i=0; i< *len; ++i) in[i] = func(in[i], inout[i]);")],
 "op_transform_swapped": [(_MC, _OPLOOP, "std::transform(inout, inout + *len, in, inout, func);")],
 "op_transform_short": [(_MC, _OPLOOP, "std::transform(in, in + *len - 1, inout, inout, func);")],
 "op_commute": [(_MC, "&operation,false,op.get()", "&operation,true,op.get()")],
 "fallback_nulltest_bang": [(_TR, "      if(datatype==MPI_DATATYPE_NULL) {\n        MPI_Type_contiguous(sizeof(T),MPI_BYTE,&datatype);", "      if(!datatype) {\n        MPI_Type_contiguous(sizeof(T),MPI_BYTE,&datatype);")],
 "fallback_nulltest_nullptr": [(_TR, "      if(datatype==MPI_DATATYPE_NULL) {\n        MPI_Type_contiguous(sizeof(T),MPI_BYTE,&datatype);", "      if(datatype == nullptr) {\n        MPI_Type_contiguous(sizeof(T),MPI_BYTE,&datatype);")],
 "get_guard_wrong": [(_MC, "      if (!op)\n      {", "      if (op)\n      {")],
 "fv_offset_swapped": [(_TR, "        displ -= base;\n        int length[1]={1};\n\n        MPI_Type_create_struct(1, length, &displ, &vectortype, &datatype);", "        MPI_Aint off = base - displ;\n        int length[1]={1};\n\n        MPI_Type_create_struct(1, length, &off, &vectortype, &datatype);")],
 "ip_loop_short": [(_RI, "      for (MPI_Aint& d : disp)\n        d -= base;", "      for (int i = 0; i < 1; ++i)\n        disp[i] -= base;")],
 "pli_len3": [(_PL, "int length = 1;", "int length = 3;")],
 "pair_noresize": [(_TR, "MPI_Type_create_resized(tmp, 0, sizeof(Pair), &type);", "type = tmp;")],
 "seq_gatherv_nodispl": [(_SQ, "        out[*displ+i] = in[i];\n      return 0;", "        out[i] = in[i];\n      return 0;")],
 "seq_gatherv_fwd": [(_SQ, "      for (int i=0; i<sendDataLen; i++)\n        out[*displ+i] = in[i];\n      return 0;", "      return gather(in, out, sendDataLen, root);")],
 "seq_copy_short": [(_SQ, "std::copy(in, in+len, out);", "std::copy(in, in+len-1, out);")],
 "seq_loop_le": [(_SQ, "      for (int i=0; i<len; i++)\n        out[i] = in[i];", "      for (int i=0; i<=len; i++)\n        out[i] = in[i];")],
 "w_m2": [(_MC, "      mpi_data.resize(size);", "      if (size > mpi_data.size()) mpi_data.resize(size);")],
 "w_m3": [(_MC, "int outlen = (me==root) * mpidata_in.size();", "int outlen = (me==root) * mpidata_out.size()/procs;")],
 "w_Mg": [(_MC, "MPI_Get_count(status, mpi_data.type(), &size);", "MPI_Get_count(status, MPI_BYTE, &size);")],
 "w_rrecv_nodefault": [(_MC, "      if(status == MPI_STATUS_IGNORE)\n        status = &_status;\n", "")],
 "w_rrecv_default_wrong": [(_MC, "      if(status == MPI_STATUS_IGNORE)\n        status = &_status;\n", "      if(status != MPI_STATUS_IGNORE)\n        status = &_status;\n")],
 "w_rrecv_order": [(_MC, "      mpi_data.resize(size);\n      MPI_Mrecv(mpi_data.ptr(), mpi_data.size(), mpi_data.type(), &_message, status);", "      MPI_Mrecv(mpi_data.ptr(), mpi_data.size(), mpi_data.type(), &_message, status);\n      mpi_data.resize(size);")],
 "w_rrecv_ret_data": [(_MC, "mpi_data.type(), &_message, status);\n      return lvalue_data;", "mpi_data.type(), &_message, status);\n      return data;")],
 "w_Mc": [(_MC, "                 root,\n                 communicator,\n                 &future.req_);", "                 0,\n                 communicator,\n                 &future.req_);")],
 "w_Me": [(_MC, "std::copy(out, out+len, inout);", "std::copy(out, out+len-1, inout);")],
 "w_Mf": [(_MC, "return allreduce<Min<T> >(inout,len);", "return allreduce<Max<T> >(inout,len);")],
 "w_Mk": [(_MC, "out,recvDataLen,displ,MPITraits<T>::getType(),\n                            communicator);", "out,displ,recvDataLen,MPITraits<T>::getType(),\n                            communicator);")],
 "w_ternary_wrong": [(_MC, "int outlen = (me==root) * mpidata_in.size();", "int outlen = (me==root) ? 0 : mpidata_in.size();")],
 "w_root_as_count": [(_MC, "return MPI_Bcast(inout,len,MPITraits<T>::getType(),root,communicator);", "return MPI_Bcast(inout,root,MPITraits<T>::getType(),len,communicator);")],
 "w_allreduce2_order": [(_MC, "      std::copy(out, out+len, inout);\n      delete[] out;", "      delete[] out;\n      std::copy(out, out+len, inout);")],
 "w_sum_ret_in": [(_MC, "      allreduce<std::plus<T> >(&in,&out,1);\n      return out;", "      allreduce<std::plus<T> >(&in,&out,1);\n      return in;")],
}


def _selftest(repo="/repo"):
    import shutil
    import tempfile
    src_dir = os.path.join(repo, "dune/common/parallel")
    files = ["mpitraits.hh", "mpicommunication.hh", "communication.hh", "plocalindex.hh", "remoteindices.hh"]
    tmp = tempfile.mkdtemp(prefix="tr_c07_selftest_")

    def run(edits, whole=None):
        d = os.path.join(tmp, "dune/common/parallel")
        shutil.rmtree(os.path.join(tmp, "dune"), ignore_errors=True)
        os.makedirs(d)
        txt = {f: open(os.path.join(src_dir, f)).read() for f in files}
        for (f, old, new) in edits:
            if old not in txt[f]:
                raise AssertionError("self test edit does not apply any more (the sources moved on): %s: %r" % (f, old[:60]))
            txt[f] = txt[f].replace(old, new, 1)
        if whole:
            txt = whole(txt)
        for f in files:
            open(os.path.join(d, f), "w").write(txt[f])
        out = translate(tmp)[0][1]
        return "\n".join(l for l in out.split("\n") if not l.startswith("/-- `"))

    def rename_members(txt):
        t = txt["mpicommunication.hh"]
        i = t.index("class Communication<MPI_Comm>")
        cls = t[i:]
        for a, b in (("communicator", "comm_"), ("me", "rank_"), ("procs", "size_")):
            cls = re.sub(r"\b%s\b" % a, b, cls)
        t = t[:i] + cls
        txt["mpicommunication.hh"] = t.replace("(void (*)(void*, void*, int*, MPI_Datatype*))&operation,false,op.get()",
                                               "reinterpret_cast<MPI_User_function*>(&operation), false, op.get()")
        return txt
    BASE = run([])
    POS, NEG = _ST_POS, _ST_NEG

    bad = 0
    try:
        if run([], rename_members) != BASE:
            bad += 1
            print("POS members_renamed DIFFERS")
        for k, e in POS.items():
            try:
                if run(e) != BASE:
                    bad += 1
                    print("POS", k, "DIFFERS")
            except TranslateError as x:
                bad += 1
                print("POS", k, "FAILS:", str(x)[:300])
        for k, e in NEG.items():
            try:
                if run(e) == BASE:
                    bad += 1
                    print("NEG", k, "NOT DETECTED")
            except TranslateError:
                pass
    finally:
        shutil.rmtree(tmp, ignore_errors=True)
    print("tr_c07 self test: %d respellings quiet, %d changes of meaning detected, %d problems" % (len(POS) + 1, len(NEG), bad))
    return bad


if __name__ == "__main__":
    import sys
    if len(sys.argv) > 1 and sys.argv[1] == "--selftest":
        sys.exit(1 if _selftest(*sys.argv[2:3]) else 0)
    for path, content in translate(sys.argv[1] if len(sys.argv) > 1 else "/repo"):
        print(content)
