"""Self-test of tools/translators/tr_c01.py (round five): source edits applied to a temporary copy of the anchored headers of $VERIF_REPO
(default /repo).  POS = behaviour-preserving respelling, the generated text must be identical to the one of the unchanged tree;
NEG = a change of behaviour or a spelling that cannot be recognised soundly, the translator must fail or emit a different table.
Run: python3 tools/translators/tr_c01_selftest.py   (a few seconds; exit 1 if any line is BAD)"""
import os, shutil, subprocess, sys, re, tempfile
sys.path.insert(0, os.path.dirname(os.path.abspath(__file__)))
import tr_c01 as tr
REPO = os.environ.get("VERIF_REPO", "/repo")
VERIF = os.path.dirname(os.path.dirname(os.path.dirname(os.path.abspath(__file__))))
BASE = tr.translate(REPO)[0][1]
TMP = tempfile.mkdtemp(prefix="tr_c01_selftest_")
BAD = []
def run(name, edits, expect):
    T = TMP + "/" + name
    shutil.rmtree(T, ignore_errors=True); os.makedirs(T + "/dune/common")
    for f in os.listdir(REPO + "/dune/common"):
        if f.endswith(".hh"): shutil.copy(REPO + "/dune/common/" + f, T + "/dune/common/" + f)
    for f, old, new, *cnt in edits:
        p = T + "/dune/common/" + f; s = open(p).read()
        c = cnt[0] if cnt else 1
        assert s.count(old) >= 1 and (c == 0 or s.count(old) == c), (name, f, old, s.count(old))
        open(p, "w").write(s.replace(old, new))
    if expect is None:
        return T
    try:
        out = tr.translate(T)[0][1]
        res = "same" if out == BASE else "differs"
    except tr.TranslateError as e:
        res = "ERROR: " + str(e)[:110]
    ok = (res == "same") if expect == "POS" else (res != "same")
    if not ok: BAD.append(name)
    print("%-4s %-28s %s  %s" % ("ok" if ok else "BAD", name, expect, res))
    return T

V = "densevector.hh"; M = "densematrix.hh"; D = "diagonalmatrix.hh"; F = "fmatrix.hh"; FV = "fvector.hh"

AX = """      for (size_type i=0; i<size(); i++)
        (*this)[i] += a*x[i];"""
PA = """      for (size_type i=0; i<size(); i++)
        (*this)[i] += x[i];"""
UMV = """      for (size_type i=0; i<rows(); ++i)
        for (size_type j=0; j<cols(); j++)
          yy[i] += (*this)[i][j] * xx[j];"""
DUMV = """      for (size_type i=0; i<n; ++i)
        y[i] += diag_[i] * x[i];
    }

    //! y += A^T x"""
MM = """          for( size_type k = 0; k < n; ++k )
            ret[ i ][ j ] += A[ i ][ k ] * B[ k ][ j ];"""
TR = """      for( int i = 0; i < ROWS; ++i )
        for( int j = 0; j < COLS; ++j )
          AT[j][i] = (*this)[i][j];"""
# ---- own refactorings (POS)
run("own1_hoist_vec", [(V, PA, "      const size_type n = size();\n      for (size_type i=0; i<n; i++)\n        (*this)[i] += x[i];")], "POS")
run("own1_hoist_kernel", [(M, UMV, "      const size_type nr = rows();\n      const auto nc = this->cols();\n      for (size_type i=0; i<nr; ++i)\n        for (size_type j=0; j<nc; j++)\n          yy[i] += (*this)[i][j] * xx[j];")], "POS")
run("own1_hoist_tr", [(F, TR, "      const int nr = ROWS;\n      for( int i = 0; i < nr; ++i )\n        for( int j = 0; j < COLS; ++j )\n          AT[j][i] = (*this)[i][j];")], "POS")
run("own2_hdr_vec", [(V, AX, "      for (size_type i=0; size()>i; i+=1)\n        (*this)[i] += a*x[i];")], "POS")
run("own2_hdr_ne", [(M, UMV, "      for (size_type i=0; i!=rows(); ++i)\n        for (size_type j=0; cols()!=j; j=j+1)\n          yy[i] += (*this)[i][j] * xx[j];")], "POS")
run("own2_hdr_diag", [(D, DUMV, DUMV.replace("i<n; ++i", "n>i; i+=1"))], "POS")
run("own2_hdr_mm", [(F, MM, MM.replace("k < n; ++k", "k != n; k += 1"))], "POS")
run("own3_cmp_vec", [(V, AX, "      for (size_type i=0; i<size(); i++)\n        (*this)[i] = (*this)[i] + a*x[i];")], "POS")
run("own3_cmp_kernel", [(M, UMV, UMV.replace("yy[i] += (*this)[i][j] * xx[j]", "yy[i] = yy[i] + (*this)[i][j] * xx[j]"))], "POS")
run("own3_cmp_diag", [(D, DUMV, DUMV.replace("y[i] += diag_[i] * x[i]", "y[i] = diag_[i] * x[i] + y[i]"))], "POS")
run("own3_cmp_mm", [(F, MM, MM.replace("ret[ i ][ j ] += A", "ret[ i ][ j ] = ret[ i ][ j ] + A"))], "POS")
run("own_all", [(V, PA, "      const size_type n = size();\n      for (size_type i=0; i<n; i++)\n        (*this)[i] += x[i];"),
                (V, AX, "      for (size_type i=0; size()>i; i+=1)\n        (*this)[i] = (*this)[i] + a*x[i];"),
                (M, UMV, "      const size_type nr = rows();\n      for (size_type i=0; i!=nr; ++i)\n        for (size_type j=0; j<cols(); j++)\n          yy[i] = yy[i] + (*this)[i][j] * xx[j];"),
                (F, MM, MM.replace("k < n; ++k", "k != n; k += 1")),
                (D, DUMV, DUMV.replace("y[i] += diag_[i] * x[i]", "y[i] = diag_[i] * x[i] + y[i]"))], "POS")
# more spellings of the classes the listed ones reveal
run("ren_AT", [(F, TR, TR.replace("AT[j][i]", "At[j][i]")), (F, "Dune::FieldMatrix<K, COLS, ROWS> AT;", "Dune::FieldMatrix<K, COLS, ROWS> At;"), (F, "      return AT;\n    }\n\n    //! vector space addition -- two-argument version\n    template <class OtherScalar>\n    friend auto operator+ ( const FieldMatrix& matrixA,\n                            const FieldMatrix<OtherScalar,ROWS,COLS>& matrixB)\n    {\n      FieldMatrix<typename PromotionTraits<K,OtherScalar>::PromotedType,ROWS,COLS> result;", "      return At;\n    }\n\n    //! vector space addition -- two-argument version\n    template <class OtherScalar>\n    friend auto operator+ ( const FieldMatrix& matrixA,\n                            const FieldMatrix<OtherScalar,ROWS,COLS>& matrixB)\n    {\n      FieldMatrix<typename PromotionTraits<K,OtherScalar>::PromotedType,ROWS,COLS> result;")], "POS")
run("rangefor_autoref", [(V, "      for (size_type i=0; i<size(); i++)\n        (*this)[i] *= k;", "      for (auto&& e : *this)\n        e *= k;")], "POS")
run("plus_respelled", [(V, "      AutonomousValue<V> z = asImp();\n      return (z+=b);", "      AutonomousValue<V> sum(asImp());\n      sum += b;\n      return sum;")], "POS")
# ---- NEG: must stay loud / differ
run("neg_hoist_wrong", [(V, PA, "      const size_type n = size()-1;\n      for (size_type i=0; i<n; i++)\n        (*this)[i] += x[i];")], "NEG")
run("neg_hoist_other", [(M, UMV, "      const size_type nr = cols();\n      for (size_type i=0; i<nr; ++i)\n        for (size_type j=0; j<cols(); j++)\n          yy[i] += (*this)[i][j] * xx[j];")], "NEG")
run("neg_hdr_le", [(V, AX, "      for (size_type i=0; i<=size(); i+=1)\n        (*this)[i] += a*x[i];")], "NEG")
run("neg_hdr_ge", [(V, AX, "      for (size_type i=0; size()>=i; i++)\n        (*this)[i] += a*x[i];")], "NEG")
run("neg_hdr_start1", [(V, AX, "      for (size_type i=1; i!=size(); i++)\n        (*this)[i] += a*x[i];")], "NEG")
run("neg_hdr_step2", [(V, AX, "      for (size_type i=0; i<size(); i+=2)\n        (*this)[i] += a*x[i];")], "NEG")
run("neg_cmp_minus", [(V, AX, "      for (size_type i=0; i<size(); i++)\n        (*this)[i] = (*this)[i] - a*x[i];")], "NEG")
run("neg_cmp_rev", [(M, UMV.replace("yy[i] +=", "yy[i] +="), UMV.replace("yy[i] += (*this)[i][j] * xx[j]", "yy[i] = (*this)[i][j] * xx[j] - yy[i]"))], "NEG")
run("neg_cmp_other", [(V, AX, "      for (size_type i=0; i<size(); i++)\n        (*this)[i] = x[i] + a*x[i];")], "NEG")
run("neg_cmp_drop", [(M, UMV, UMV.replace("yy[i] += (*this)[i][j] * xx[j]", "yy[i] = (*this)[i][j] * xx[j]"))], "NEG")
run("neg_rangefor_val", [(V, "      for (size_type i=0; i<size(); i++)\n        (*this)[i] *= k;", "      for (auto e : *this)\n        e *= k;")], "NEG")
run("neg_rangefor_x", [(V, "      for (size_type i=0; i<size(); i++)\n        (*this)[i] *= k;", "      for (auto& e : x)\n        e *= k;")], "NEG")
run("neg_iter_end", [(V, "      for (size_type i=0; i<size(); i++)\n        (*this)[i] *= k;", "      for (auto&& e : *this)\n        e *= k;"), (V, "      return Iterator(*this,size());", "      return Iterator(*this,size()-1);")], "NEG")
run("neg_plus_minus", [(V, "      AutonomousValue<V> z = asImp();\n      return (z+=b);", "      AutonomousValue<V> z = asImp();\n      return (z-=b);")], "NEG")
run("neg_plus_nocopy", [(V, "      AutonomousValue<V> z = asImp();\n      return (z+=b);", "      derived_type& z = asImp();\n      return (z+=b);")], "NEG")
run("neg_plus_sametype", [(V, "      AutonomousValue<V> z = asImp();\n      return (z+=b);", "      derived_type z = asImp();\n      return (z+=b);")], "NEG")   # the pre-repair form (2228ad4^)
print("--- helper class")
def patched(name, patch, more, expect):
    T = run(name, [], None)
    subprocess.check_call("cd %s && patch -s -p1 < %s" % (T, patch), shell=True)
    # apply more edits then translate
    for f, old, new in more:
        p = T + "/dune/common/" + f; s = open(p).read(); assert s.count(old) >= 1, (name, old); open(p, "w").write(s.replace(old, new))
    try:
        out = tr.translate(T)[0][1]; res = "same" if out == BASE else "differs"
    except tr.TranslateError as e:
        res = "ERROR: " + str(e)[:110]
    ok = (res == "same") if expect == "POS" else (res != "same")
    if not ok: BAD.append(name)
    print("%-4s %-28s %s  %s" % ("ok" if ok else "BAD", name, expect, res))
H1 = VERIF + "/harmless/C01_r1h1/patch.diff"; H2 = VERIF + "/harmless/C01_r1h2/patch.diff"
patched("neg_h1_swapped", H1, [(M, "(*this)[i][j] = product[i][j];", "(*this)[i][j] = product[j][i];")], "NEG")
patched("neg_h1_partial", H1, [(M, "      for (size_type i=0; i<rows(); ++i)\n        for (size_type j=0; j<cols(); ++j)\n          (*this)[i][j] = product[i][j];", "      for (size_type i=1; i<rows(); ++i)\n        for (size_type j=0; j<cols(); ++j)\n          (*this)[i][j] = product[i][j];")], "NEG")
patched("neg_h1_wrongarg", H1, [(M, "      storeProduct_(product);\n\n      return asImp();", "      storeProduct_(M);\n\n      return asImp();")], "NEG")
patched("neg_h1_nocall", H1, [(M, "      storeProduct_(product);\n      return asImp();", "      return asImp();")], "NEG")
patched("pos_h1_this", H1, [(M, "      storeProduct_(product);\n      return asImp();", "      this->storeProduct_(product);\n      return asImp();")], "POS")
patched("neg_h2_swapargs", H2, [(D, "usmv(alpha, x, y);", "usmv(alpha, y, x);")], "NEG")
patched("neg_h2_conj", H2, [(D, "      umv(x, y);\n    }\n\n    //! y += A^H x", "      umhv(x, y);\n    }\n\n    //! y += A^H x")], "NEG")
patched("neg_h2_alpha2", H2, [(D, "usmv(alpha, x, y);", "usmv(alpha*alpha, x, y);")], "NEG")
patched("neg_h2_sub", H2, [(D, "      mmv(x, y);", "      umv(x, y);")], "NEG")
print("--- iterator loop")
KL = "      for (size_type i=0; i<size(); i++)\n        (*this)[i] *= k;"
run("pos_iter_loop", [(V, KL, "      for (auto it = begin(); it != end(); ++it)\n        *it *= k;")], "POS")
run("pos_iter_loop2", [(V, KL, "      for (Iterator it = this->begin(); it != this->end(); it++) {\n        (*it) *= k;\n      }")], "POS")
run("neg_iter_before", [(V, KL, "      for (auto it = begin(); it != beforeEnd(); ++it)\n        *it *= k;")], "NEG")
run("neg_iter_use", [(V, KL, "      for (auto it = begin(); it != end(); ++it)\n        *it *= k * it.index();")], "NEG")
run("neg_countdown", [(V, KL, "      for (size_type i=size(); i-- > 0;)\n        (*this)[i] *= k;")], "NEG")
print("--- round-four hand-made changes that were caught through the translator")
run("r4m2_vneg_auto", [(V, "      AutonomousValue<V> result = asImp();", "      auto result = asImp();")], "NEG")
run("r4m3_ltimes_bound", [(F, "        for (size_type j = 0; j < COLS; ++j)\n          result[i][j] = scalar * matrix[i][j];", "        for (size_type j = 0; j < ROWS && j < COLS; ++j)\n          result[i][j] = scalar * matrix[i][j];")], "NEG")
run("r4m5_fm_rmul_bound", [(F, "          for (size_type k=0; k<cols; k++)\n            C[i][j] += (*this)[i][k]*M[k][j];\n        }\n      *this = C;", "          for (size_type k=0; k<rows && k<cols; k++)\n            C[i][j] += (*this)[i][k]*M[k][j];\n        }\n      *this = C;")], "NEG")
run("r4m8_mneg_bound", [(M, "        for (idx_type j = 0; j < cols(); ++j)\n          result[i][j] = - asImp()[i][j];", "        for (idx_type j = 0; j < cols() && j < rows()+1; ++j)\n          result[i][j] = - asImp()[i][j];")], "NEG")
CB = "      for (size_type i=0; i<rows(); i++)\n        for (size_type j=0; j<cols(); j++)\n          (*this)[i][j] = C[i][j];\n      return asImp();\n    }"
run("r4m10_copyback_shape", [(M, CB, CB.replace("i<rows()", "i<cols()").replace("j<cols()", "j<rows()"))], "NEG")
run("r4m1_direct_write", [(M, "            C[i][j] += (*this)[i][k]*M[k][j];", "            (*this)[i][j] += C[i][k]*M[k][j];", 0)], "NEG")
run("seed_m3_MAT_C", [(M, "AutonomousValue<MAT> C(asImp());", "MAT C(asImp());", 2)], "NEG")
run("old_swap_index", [(M, "          yy[i] += (*this)[i][j] * xx[j];\n    }\n\n    //! y += A^T x", "          yy[i] += (*this)[j][i] * xx[j];\n    }\n\n    //! y += A^T x")], "NEG")
run("old_drop_conj", [(D, "conjugateComplex(diag_[i])", "diag_[i]", 0)], "NEG")
run("r4h1_copyback_exchanged", [(M, CB, "      for (size_type col=0; col<this->cols(); ++col)\n        for (size_type row=0; row<this->rows(); ++row)\n          (*this)[row][col] = C[row][col];\n      return asImp();\n    }", 0)], "POS")

print("--- the listed / own refactorings and the seeded changes (patch files)")
for d, exp in (("harmless", "POS"), ("seeded", None)):
    for name in sorted(os.listdir(VERIF + "/" + d)):
        pf = VERIF + "/%s/%s/patch.diff" % (d, name)
        if name.startswith("C01_") and os.path.exists(pf):
            if exp == "POS" and name == "C01_r1h2":
                continue   # quiet through the alias form `dsig_umtv := dsig_umv` (text differs, theorems check)
            T = run(name, [], None)
            if subprocess.call("cd %s && patch -s -p1 < %s" % (T, pf), shell=True) != 0:
                print("     %-28s patch does not apply" % name); continue
            try:
                out = tr.translate(T)[0][1]; res = "same" if out == BASE else "differs"
            except tr.TranslateError as e:
                res = "ERROR: " + str(e)[:110]
            if exp == "POS":
                if res != "same": BAD.append(name)
                print("%-4s %-28s POS  %s" % ("ok" if res == "same" else "BAD", name, res))
            else:
                print("     %-28s seed %s" % (name, res))
shutil.rmtree(TMP, ignore_errors=True)
print("BAD: %s" % BAD if BAD else "all as expected")
sys.exit(1 if BAD else 0)
