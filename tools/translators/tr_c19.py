"""Translator for C19 (round four, generalised in round five): regenerates lean/DuneVerif/Gen/C19.lean from the current source tree.

Part 1 - dune/common/parallel/mpiguard.hh, class MPIGuard: the bodies of `finalize(bool success = <default>)`,
`reactivate()` and `~MPIGuard()` are parsed statement by statement and re-emitted as Lean programs over
`DV.C19.Prog` (the collective `comm_->sum(e)` becomes `Prog.sum`, `DUNE_THROW(MPIGuardError, ..)` ends the program with
the flag "threw", a call of `finalize(..)` is sequenced with `Prog.bind` and propagates its exception), together with the
default argument of `finalize` and, for each of the four constructors, what `active_` is initialised with and the default
of the `active` parameter.  Props/C19.lean proves that the generated programs ARE the hand-written model the theorems
and the differential run speak about (`gen_guard_is_model`, `gen_guard_ctor_arms`).

Part 2 - dune/common/parallel/mpifuture.hh: the members of `MPIFuture<R,S>` the property speaks about are straight-line
code; each is read into a list of micro operations (`valid`, `wait`, `ready`, `get`, `get_send_data`, the three
`impl::Buffer<..>::get`, `operator bool`), `operator=(MPIFuture&&)` into the list of members it swaps and the move
constructor into (member initialisers, swaps).  Props/C19.lean proves that interpreting the lists gives the
hand-written state machines (`gen_future_is_model`, `gen_moves_are_model`).

Part 3 - dune/common/parallel/future.hh: `PseudoFuture<T>`, `PseudoFuture<void>` (micro-operation lists), the four
forwarders of `Future<T>::FutureModel<F>` and the null tests of `Future<T>` (`gen_pseudo_is_model`, `gen_erased_is_model`).

Part 4 - dune/common/parallel/mpicommunication.hh and communication.hh: for each non-blocking member (ibarrier,
ibroadcast, igather, iscatter, iallgather, both iallreduce, isend, irecv) which future it hands out: the arguments the
`MPIFuture` is constructed from (a validity flag, the forwarded payload parameter, or (receive, send) parameters), the one
`MPI_I*` call, which of the future's buffers (`get_mpidata()` = data_, `get_send_mpidata()` = send_data_, MPI_IN_PLACE) it is
given, whether the request is stored in `future.req_` and whether that future is returned; for the sequential members
the copies between the parameters and the parameter the `PseudoFuture` is made from (`gen_operations_start`).  Length
computations and assertions are skipped (C07's subject).

Grammar (anything else raises TranslateError = broken obligation, check.py then searches for a failing input):
* comments and preprocessor lines are dropped, whitespace is irrelevant, local variables may have any name;
* guard statements: `int|bool|auto [const] x = e;`, `x = e;`, `active_ = e;`, `x = comm_->sum(e);` (also as initialiser),
  `std::exchange(active_, e)` as initialiser, `if (e) S [else S]`, blocks, `finalize(..);`/`this->finalize(..);`,
  `DUNE_THROW(MPIGuardError, ..);`, `delete comm_;`, `return;`; expressions over int/bool with ?:, ||, &&, ==, !=, <, <=,
  >, >=, !, unary minus, +, -, parentheses, int->bool and bool->int conversions.  Commuted conditions, `result != 0` for
  `result>0`, other names, other layout translate to programs for which the same proofs go through;
* future members: one recognised micro operation per statement (see _FUT_STMT); an additional statement, a missing one or
  another order changes the list and with it the truth of the theorems.

Round five - normalisation BEFORE the grammar, so that equivalent spellings give the same generated text (futures) or a
program the same proofs accept (guard); `python3 tools/translators/tr_c19.py --selftest` runs the POS/NEG edits below:
* guard: calls of member helpers `[static] int|bool h(int|bool p, ..) [const]` whose body is a value tree of `return`s
  (`return e;`, if/else, blocks) are replaced by the helper's value with the translated (pure) arguments put in for the
  parameters (_find_helpers, _Expr.call); calls `h();` of `void h()` members whose body is statements of the guard grammar
  without locals and without `return` are replaced by these statements (_find_void_helpers).  A helper with a side effect,
  a collective, a loop, a path without return is not a helper: its use stays an unknown name;
* future classes: member functions only declared in the class and defined after it
  (`template<class A, class B> RET MPIFuture<A, B>::name(..) quals { .. }`, also for `Buffer<T>`, `Buffer<T&>`,
  `Buffer<void>`, `PseudoFuture<T>`, `PseudoFuture<void>`, `Future<T>`) are read as in-class definitions with the template
  parameters renamed to the class's own (_pull_in); the wrapped object of `FutureModel` (the one data member of its template
  parameter type), the `std::unique_ptr<FutureBase>` member of `Future<T>`, `bool valid_` / `T data_` of the PseudoFutures and
  the one data member of each `Buffer` are identified by their declared type and may have any name (_canonical_member);
  the data members of `MPIFuture` itself must keep their names (`&future.req_` in mpicommunication.hh refers to them);
* value-returning control flow in one spelling `if (c) return a; return b;`: `return c ? a : b;`, if/else of returns,
  `if (!x) return b; return a;`, in functions returning bool `return x && e;`; null / emptiness tests of one name
  (`x != nullptr`, `static_cast<bool>(x)`, `x == false`, ..) as `x` / `!x`; `if (c) { S } else DUNE_THROW(..);` and
  `if (c) DUNE_THROW(..); else { S }` as the guard clause; `this->` dropped; `return flag != 0;` / `static_cast<bool>(flag)` for
  `return flag;` of the int completion flag (never for the object moved out of a buffer) (_norm_returns);
* `void helper()` members of a future class (not part of its interface) are inlined at `helper();` (_void_helpers);
* non-blocking members: `MPI_Request* [const] p = &future.req_;` / `MPI_Request& r = future.req_;` (or `auto`) name the
  future's request; `p` / `&r` as last argument of the MPI call count as `&future.req_`.
"""
import os
import re


class TranslateError(Exception):
    pass


GUARD = "dune/common/parallel/mpiguard.hh"
MPIFUT = "dune/common/parallel/mpifuture.hh"
FUT = "dune/common/parallel/future.hh"


def _strip(src):
    src = re.sub(r"/\*.*?\*/", " ", src, flags=re.S)
    src = re.sub(r"//[^\n]*", "", src)
    return "\n".join(l for l in src.split("\n") if not l.lstrip().startswith("#"))


def _match(s, i, o, c):
    assert s[i] == o
    depth = 0
    while i < len(s):
        if s[i] == o:
            depth += 1
        elif s[i] == c:
            depth -= 1
            if depth == 0:
                return i + 1
        i += 1
    raise TranslateError("unbalanced %s%s" % (o, c))


def _ws(s, i):
    while i < len(s) and s[i].isspace():
        i += 1
    return i


def _class_body(src, rx, what):
    m = re.search(rx, src)
    if not m:
        raise TranslateError("%s not found" % what)
    i = src.index("{", m.end() - 1)
    return src[i + 1:_match(src, i, "{", "}") - 1]


def _fn(body, rx, what):
    """(match object, text between the braces of the function body) of the member whose head matches rx"""
    ms = list(re.finditer(rx, body))
    # a member that is only declared in the class (`bool ready() const;`) and defined after it has been pulled into the
    # body text by _pull_in: prefer the one definition over the declarations
    defs = [m for m in ms if body[_ws(body, m.end()):_ws(body, m.end()) + 1] == "{"]
    if len(defs) == 1 and all(body[_ws(body, m.end()):_ws(body, m.end()) + 1] == ";" for m in ms if m is not defs[0]):
        ms = defs
    if len(ms) != 1:
        raise TranslateError("%s: %d definitions found" % (what, len(ms)))
    m = ms[0]
    i = _ws(body, m.end())
    # constructor initialiser lists are handled by the caller; here the body must follow
    if body[i] != "{":
        raise TranslateError("%s: body expected, found %r" % (what, body[i:i + 20]))
    return m, body[i + 1:_match(body, i, "{", "}") - 1]


def _tparam_names(text):
    """names of the parameters of a template header `class A = void, typename B, int N`"""
    out = []
    for part in _top_split(text):
        part = part.split("=")[0].strip()
        m = re.search(r"(\w+)\s*$", part)
        if not part or not m:
            raise TranslateError("template parameter %r" % part)
        out.append(m.group(1))
    return out


def _rename_words(text, mapping):
    mapping = {a: b for a, b in mapping.items() if a != b}
    if not mapping:
        return text
    return re.sub(r"(?<![\w])(%s)(?![\w])" % "|".join(map(re.escape, mapping)), lambda m: mapping[m.group(1)], text)


def _pull_in(src, cls, cparams, expected):
    """Member functions of the class template `cls` that are DEFINED outside the class
    (`template<class A, class B> RET cls<A, B>::name(params) quals { body }`), rewritten as in-class definitions
    `RET name(params) quals { body }` with the template parameters renamed to the class's own (`cparams`).  `expected` is
    the normalised template-argument list that selects the (partial) specialisation: "R , S", "T &", "void".  Name lookup in
    such a body is done in class scope, so the text means the same inside the class.  Constructors with initialiser
    lists and anything that is not a function definition are left alone (the caller then fails on the bare declaration)."""
    out = []
    for m in re.finditer(r"(?<![\w])%s\s*<([^<>;{}()]*)>\s*::\s*" % cls, src):
        k = max(src.rfind(";", 0, m.start()), src.rfind("}", 0, m.start()), src.rfind("{", 0, m.start())) + 1
        head = src[k:m.start()]
        hm = re.match(r"\s*(?:template\s*<([^<>]*)>)?\s*([\w:&*<>,\s]*)$", head)
        if not hm:
            continue
        nm = re.match(r"(~?\w+|operator\s+\w+|operator\s*\(\s*\)|operator\s*[^\w\s(]+)\s*\(", src[m.end():])
        if not nm or nm.group(1) == "template":
            continue
        pe = _match(src, m.end() + nm.end() - 1, "(", ")")
        b0 = _ws(src, pe)
        qm = re.match(r"[\s\w]*(?:noexcept\s*\(\s*\w+\s*\)\s*)?[\s\w]*", src[pe:])
        b0 = pe + qm.end()
        if b0 >= len(src) or src[b0] != "{":
            continue
        tps = _tparam_names(hm.group(1)) if hm.group(1) and hm.group(1).strip() else []
        if len(tps) != len(cparams):
            continue
        ren = dict(zip(tps, cparams))
        if len(set(ren.values())) != len(ren):
            continue
        if _norm(_rename_words(m.group(1), ren)) != expected:
            continue  # a member of another specialisation
        ret = re.sub(r"(?:\w+\s*::\s*)+$", "", hm.group(2).strip())
        ret = " ".join(w for w in ret.split() if w not in ("inline", "constexpr"))
        be = _match(src, b0, "{", "}")
        text = "%s %s(%s)%s{%s}" % (ret, nm.group(1), src[m.end() + nm.end():pe - 1], src[pe:b0], src[b0 + 1:be - 1])
        out.append(_rename_words(text, ren))
    return "".join("\n" + t + "\n" for t in out)


# ------------------------------------------------------------------------------------------------ statements

def _split_stmts(s):
    """parse a statement sequence into a tree: ('simple', text) | ('if', cond, then, else|None) | ('block', [..])"""
    out = []
    i = 0
    while True:
        i = _ws(s, i)
        if i >= len(s):
            return out
        st, i = _one_stmt(s, i)
        if st is not None:
            out.append(st)


def _one_stmt(s, i):
    i = _ws(s, i)
    if s[i] == ";":
        return None, i + 1
    if s[i] == "{":
        j = _match(s, i, "{", "}")
        return ("block", _split_stmts(s[i + 1:j - 1])), j
    m = re.match(r"(if|else|for|while|do|switch|try|catch|goto|case)\b", s[i:])
    if m:
        kw = m.group(1)
        if kw != "if":
            raise TranslateError("`%s` is outside the translator's grammar" % kw)
        k = _ws(s, i + 2)
        if s[k:k + 9] == "constexpr":
            raise TranslateError("`if constexpr` is outside the translator's grammar")
        if s[k] != "(":
            raise TranslateError("( expected after if")
        e = _match(s, k, "(", ")")
        cond = s[k + 1:e - 1]
        th, j = _one_stmt(s, e)
        k2 = _ws(s, j)
        el = None
        if re.match(r"else\b", s[k2:]):
            el, j = _one_stmt(s, k2 + 4)
        return ("if", cond, [th] if th else [], ([el] if el else []) if el is not None or re.match(r"else\b", s[k2:]) else None), j
    depth, k = 0, i
    while k < len(s):
        if s[k] in "({[":
            depth += 1
        elif s[k] in ")}]":
            depth -= 1
        elif s[k] == ";" and depth == 0:
            break
        k += 1
    if k >= len(s):
        raise TranslateError("statement without ';': %r" % s[i:i + 40])
    return ("simple", " ".join(s[i:k].split())), k + 1


# ------------------------------------------------------------------------------------------------ expressions

_TOK = re.compile(r"\s*(std::exchange|comm_->sum|this->|[A-Za-z_]\w*|\d+|==|!=|>=|<=|&&|\|\||[?:!<>()+\-,])")


def _tokens(e):
    out, i = [], 0
    e = e.strip()
    while i < len(e):
        m = _TOK.match(e, i)
        if not m:
            raise TranslateError("cannot tokenise expression %r at %r" % (e, e[i:i + 10]))
        out.append(m.group(1))
        i = m.end()
    return out


class _Expr:
    """typed recursive descent; result (lean text, 'int'|'bool')"""

    def __init__(self, toks, env, depth=0):
        self.t, self.i, self.env, self.depth = toks, 0, env, depth

    def peek(self):
        return self.t[self.i] if self.i < len(self.t) else None

    def eat(self, x=None):
        tok = self.peek()
        if tok is None or (x is not None and tok != x):
            raise TranslateError("expression: expected %r, found %r in %r" % (x, tok, " ".join(self.t)))
        self.i += 1
        return tok

    def full(self):
        r = self.ternary()
        if self.peek() is not None:
            raise TranslateError("expression: trailing %r in %r" % (self.peek(), " ".join(self.t)))
        return r

    def ternary(self):
        c = self.lor()
        if self.peek() == "?":
            self.eat()
            a = self.ternary()
            self.eat(":")
            b = self.ternary()
            ty = a[1] if a[1] == b[1] else "int"
            return ("(if %s then %s else %s)" % (_as(c, "bool"), _as(a, ty), _as(b, ty)), ty)
        return c

    def lor(self):
        a = self.land()
        while self.peek() == "||":
            self.eat()
            b = self.land()
            a = ("(%s || %s)" % (_as(a, "bool"), _as(b, "bool")), "bool")
        return a

    def land(self):
        a = self.equality()
        while self.peek() == "&&":
            self.eat()
            b = self.equality()
            a = ("(%s && %s)" % (_as(a, "bool"), _as(b, "bool")), "bool")
        return a

    def equality(self):
        a = self.rel()
        while self.peek() in ("==", "!="):
            op = self.eat()
            b = self.rel()
            ty = a[1] if a[1] == b[1] else "int"
            a = ("(%s %s %s)" % (_as(a, ty), op, _as(b, ty)), "bool")
        return a

    def rel(self):
        a = self.add()
        while self.peek() in ("<", ">", "<=", ">="):
            op = self.eat()
            b = self.add()
            a = ("decide (%s %s %s)" % (_as(a, "int"), {"<=": "≤", ">=": "≥"}.get(op, op), _as(b, "int")), "bool")
            a = ("(%s)" % a[0], "bool")
        return a

    def add(self):
        a = self.unary()
        while self.peek() in ("+", "-"):
            op = self.eat()
            b = self.unary()
            a = ("(%s %s %s)" % (_as(a, "int"), op, _as(b, "int")), "int")
        return a

    def unary(self):
        if self.peek() == "!":
            self.eat()
            a = self.unary()
            return ("(!%s)" % _as(a, "bool"), "bool")
        if self.peek() == "-":
            self.eat()
            a = self.unary()
            return ("(-%s)" % _as(a, "int"), "int")
        return self.primary()

    def primary(self):
        tok = self.eat()
        if tok == "(":
            # a C-style cast (bool)x / (int)x or a parenthesised expression
            if self.peek() in ("bool", "int") and self.t[self.i + 1:self.i + 2] == [")"]:
                ty = self.eat()
                self.eat(")")
                a = self.unary()
                return (_as(a, ty), ty)
            r = self.ternary()
            self.eat(")")
            return r
        if tok == "this->":
            return self.primary()
        if tok == "true":
            return ("true", "bool")
        if tok == "false":
            return ("false", "bool")
        if tok.isdigit():
            return ("(%s : Int)" % tok, "int")
        if tok == "active_":
            return ("g.active", "bool")
        if tok in self.env:
            v = self.env[tok]
            return v if isinstance(v, tuple) else ("v_" + tok, v)
        if tok in _HELPERS and self.peek() == "(":
            return self.call(tok)
        raise TranslateError("expression: unknown name %r in %r" % (tok, " ".join(self.t)))


    def call(self, name):
        """a call of a side-effect-free member helper `int|bool name(int|bool p, ..)` whose body is a value tree of
        `return`s: the helper's value with the translated arguments put in for the parameters (they are pure reads of
        locals / `active_`, so evaluating them once or several times, or not at all, is the same)"""
        rty, params, text = _HELPERS[name]
        if self.depth > 8:
            raise TranslateError("helper %r: recursion" % name)
        self.eat("(")
        args = []
        if self.peek() != ")":
            args.append(self.ternary())
            while self.peek() == ",":
                self.eat()
                args.append(self.ternary())
        self.eat(")")
        if len(args) != len(params):
            raise TranslateError("helper %r called with %d arguments" % (name, len(args)))
        env = {pn: ("(%s)" % _as(a, pt) if not re.match(r"[\w.]+$|\(.*\)$", _as(a, pt)) else _as(a, pt), pt)
               for (pt, pn), a in zip(params, args)}
        r = _Expr(_tokens(text), env, self.depth + 1).full()
        return (_as(r, rty), rty)


def _value_tree(stmts, what):
    """the value a helper returns, as ONE expression text: `return e;`, `if (c) S [else S]` with the rest of the body
    sequenced after both branches, blocks"""
    if not stmts:
        raise TranslateError("%s: a path without return" % what)
    st, rest = stmts[0], stmts[1:]
    if st[0] == "block":
        return _value_tree(list(st[1]) + list(rest), what)
    if st[0] == "if":
        return "( %s ) ? ( %s ) : ( %s )" % (st[1], _value_tree(list(st[2]) + list(rest), what),
                                           _value_tree(list(st[3] or []) + list(rest), what))
    m = re.match(r"return\b\s*(.+)$", st[1])
    if not m:
        raise TranslateError("%s: statement outside the grammar of helpers: %r" % (what, st[1]))
    return m.group(1)


_HELPERS = {}
_HELPER_RX = re.compile(r"(?:(?:static|inline|constexpr)\s+)*\b(int|bool)\s+(\w+)\s*\(([^()]*)\)\s*(?:const\s*)?(?:noexcept\s*)?\{")


def _find_helpers(body, skip):
    """member functions of MPIGuard of the shape `[static] int|bool name(int|bool p, ..) [const] { value tree }`"""
    _HELPERS.clear()
    for m in _HELPER_RX.finditer(body):
        name = m.group(2)
        if name in skip:
            continue
        params = []
        ok = True
        for part in _top_split(m.group(3)):
            pm = re.match(r"(?:const\s+)?(int|bool)(?:\s+const)?\s+(\w+)$", " ".join(part.split()))
            if not pm:
                ok = False
                break
            params.append((pm.group(1), pm.group(2)))
        if not ok:
            continue  # not a helper of this shape: a use of it is an unknown name
        i = m.end() - 1
        text = body[i + 1:_match(body, i, "{", "}") - 1]
        if name in _HELPERS:
            raise TranslateError("helper %r is overloaded" % name)
        try:
            _HELPERS[name] = (m.group(1), params, _value_tree(_flatten(_split_stmts(text)), "helper " + name))
        except TranslateError:
            pass  # not a value tree: a use of it is an unknown name


_VOID_HELPERS = {}
_INLINED = [0]


def _plain(stmts):
    for st in stmts:
        if st[0] == "block":
            if not _plain(st[1]):
                return False
        elif st[0] == "if":
            if not _plain(st[2]) or not _plain(st[3] or []):
                return False
        elif re.match(r"return\b|(?:const\s+)?(?:int|bool|auto)\b", st[1]):
            return False
    return True


def _find_void_helpers(body, skip):
    _VOID_HELPERS.clear()
    _INLINED[0] = 0
    for m in re.finditer(r"\bvoid\s+(\w+)\s*\(\s*\)\s*(?:const\s*)?(?:noexcept\s*)?\{", body):
        if m.group(1) in skip:
            continue
        i = m.end() - 1
        try:
            st = _flatten(_split_stmts(body[i + 1:_match(body, i, "{", "}") - 1]))
        except TranslateError:
            continue
        if m.group(1) in _VOID_HELPERS:
            raise TranslateError("helper %r is overloaded" % m.group(1))
        if _plain(st):
            _VOID_HELPERS[m.group(1)] = st


def _as(e, ty):
    if e[1] == ty:
        return e[0]
    if ty == "bool":
        return "(%s != 0)" % e[0]
    return "(if %s then (1 : Int) else 0)" % e[0]


def _expr(text, env):
    return _Expr(_tokens(text), env).full()


# ------------------------------------------------------------------------------------------------ guard programs

_LTY = {"int": "Int", "bool": "Bool"}


def _flatten(stmts):
    out = []
    for st in stmts:
        if st[0] == "block":
            out.append(("block", _flatten(st[1])))
        elif st[0] == "if":
            out.append(("if", st[1], _flatten(st[2]), _flatten(st[3]) if st[3] is not None else None))
        else:
            out.append(st)
    return out


def _prog(stmts, env, ind, fin_default):
    """Lean term for the statement list `stmts` followed by the normal end of the function"""
    pad = "  " * ind
    if not stmts:
        return pad + "Prog.ret (g, false)"
    st, rest = stmts[0], stmts[1:]
    if st[0] == "block":
        # declarations of the block stay visible; harmless for the accepted programs (names are unique per function or
        # shadow with the same meaning), rejected otherwise
        return _prog(list(st[1]) + list(rest), env, ind, fin_default)
    if st[0] == "if":
        c = _as(_expr(st[1], env), "bool")
        th = _prog(list(st[2]) + list(rest), dict(env), ind + 1, fin_default)
        el = _prog(list(st[3] or []) + list(rest), dict(env), ind + 1, fin_default)
        return "%sif %s then (\n%s)\n%selse (\n%s)" % (pad, c, th, pad, el)
    t = st[1]
    if t == "return":
        return pad + "Prog.ret (g, false)"
    if re.match(r"delete\s+comm_$", t):
        return _prog(rest, env, ind, fin_default)
    m = re.match(r"DUNE_THROW\s*\(\s*(\w+)\s*,", t)
    if m:
        if m.group(1) != "MPIGuardError":
            raise TranslateError("guard throws %s instead of MPIGuardError" % m.group(1))
        return pad + "Prog.ret (g, true)"
    if t.startswith("throw"):
        raise TranslateError("throw statement outside DUNE_THROW(MPIGuardError, ..): %r" % t)
    m = re.match(r"(?:this->)?finalize\s*\((.*)\)$", t)
    if m:
        arg = m.group(1).strip()
        a = fin_default if arg == "" else _as(_expr(arg, env), "bool")
        if a is None:
            raise TranslateError("finalize() called without argument but no default argument was found")
        return ("%s(finalize g %s).bind fun r_ => if r_.2 then Prog.ret (r_.1, true) else\n%slet g : Guard := r_.1\n%s"
                % (pad, a, pad, _prog(rest, env, ind, fin_default)))
    m = re.match(r"(?:this->)?(\w+)\s*\(\s*\)$", t)
    if m and m.group(1) in _VOID_HELPERS:
        # a private `void name()` whose body is statements of this grammar without locals and without `return`:
        # its statements in place of the call (same object, same order; an exception thrown inside leaves the caller too)
        _INLINED[0] += 1
        if _INLINED[0] > 32:
            raise TranslateError("helper %r: recursion" % m.group(1))
        return _prog(list(_VOID_HELPERS[m.group(1)]) + list(rest), env, ind, fin_default)
    # declaration or assignment
    m = re.match(r"(?:(const\s+)?(int|bool|auto)(\s+const)?\s+)?(\w+)\s*=\s*(.*)$", t)
    if not m:
        raise TranslateError("guard statement outside the grammar: %r" % t)
    decl, name, rhs = m.group(2), m.group(4), m.group(5).strip()
    if decl is None and name != "active_" and name not in env:
        raise TranslateError("assignment to unknown variable %r" % name)
    ms = re.match(r"comm_->sum\s*\((.*)\)$", rhs)
    mx = re.match(r"std::exchange\s*\(\s*active_\s*,(.*)\)$", rhs)
    if ms:
        if name == "active_":
            raise TranslateError("sum assigned to active_")
        e = _as(_expr(ms.group(1), env), "int")
        ty = decl if decl in ("int", "bool") else env.get(name, "int")
        env[name] = ty
        conv = "Int.ofNat s_" if ty == "int" else "decide (s_ ≠ 0)"
        return ("%sProg.sum (Int.toNat %s) fun s_ =>\n%slet v_%s : %s := %s\n%s"
                % (pad, e, pad, name, _LTY[ty], conv, _prog(rest, env, ind, fin_default)))
    if mx:
        if name == "active_":
            raise TranslateError("exchange assigned to active_")
        e = _as(_expr(mx.group(1), env), "bool")
        ty = decl if decl in ("int", "bool") else env.get(name, "bool")
        env[name] = ty
        return ("%slet v_%s : %s := %s\n%slet g : Guard := { g with active := %s }\n%s"
                % (pad, name, _LTY[ty], _as(("g.active", "bool"), ty), pad, e, _prog(rest, env, ind, fin_default)))
    ex = _expr(rhs, env)
    if name == "active_":
        if decl:
            raise TranslateError("declaration shadows active_")
        return "%slet g : Guard := { g with active := %s }\n%s" % (pad, _as(ex, "bool"), _prog(rest, env, ind, fin_default))
    ty = decl if decl in ("int", "bool") else (ex[1] if decl == "auto" else env[name])
    env[name] = ty
    return "%slet v_%s : %s := %s\n%s" % (pad, name, _LTY[ty], _as(ex, ty), _prog(rest, env, ind, fin_default))


def _guard(repo):
    src = _strip(open(os.path.join(repo, GUARD)).read())
    body = _class_body(src, r"\bclass\s+MPIGuard\s*\{", "class MPIGuard")
    # finalize
    m, fb = _fn(body, r"\bvoid\s+finalize\s*\(\s*(?:const\s+)?bool\s+(\w+)\s*(?:=\s*(\w+)\s*)?\)", "MPIGuard::finalize")
    param, dflt = m.group(1), m.group(2)
    if dflt not in (None, "true", "false"):
        raise TranslateError("finalize: default argument %r" % dflt)
    _find_helpers(body, {"finalize", "reactivate"})
    _find_void_helpers(body, {"finalize", "reactivate"})
    fin = _prog(_flatten(_split_stmts(fb)), {param: "bool"}, 1, None)
    _, rb = _fn(body, r"\bvoid\s+reactivate\s*\(\s*\)", "MPIGuard::reactivate")
    rea = _prog(_flatten(_split_stmts(rb)), {}, 1, dflt)
    _, db = _fn(body, r"~\s*MPIGuard\s*\(\s*\)\s*(?:noexcept\s*(?:\(\s*false\s*\))?)?", "MPIGuard::~MPIGuard")
    des = _prog(_flatten(_split_stmts(db)), {}, 1, dflt)
    # constructors: MPIGuard (<params>, bool active=<d>) : comm_(..), active_(<e>) {}
    ctors = []
    for mc in re.finditer(r"(?<![~\w])MPIGuard\s*\(", body):
        e = _match(body, mc.end() - 1, "(", ")")
        params = body[mc.end():e - 1]
        k = _ws(body, e)
        if body[k] == ";":
            continue  # the private, undefined copy constructor
        if body[k] != ":":
            raise TranslateError("constructor without initialiser list: %r" % params)
        j = body.index("{", k)
        # initialisers may contain parentheses; find active_( .. )
        inits = body[k + 1:j]
        ma = re.search(r"\bactive_\s*[({]", inits)
        if not ma:
            raise TranslateError("constructor does not initialise active_: %r" % params)
        ae = _match(inits, ma.end() - 1, inits[ma.end() - 1], ")" if inits[ma.end() - 1] == "(" else "}")
        init = inits[ma.end():ae - 1].strip()
        cb = body[j + 1:_match(body, j, "{", "}") - 1].strip()
        if cb:
            raise TranslateError("constructor with a non-empty body: %r" % cb[:60])
        mp = re.search(r"\bbool\s+(\w+)\s*(?:=\s*(\w+))?\s*$", params.strip())
        if not mp:
            raise TranslateError("constructor without trailing bool parameter: %r" % params)
        pd = mp.group(2)
        if pd not in (None, "true", "false"):
            raise TranslateError("constructor default %r" % pd)
        ex = _as(_expr(init, {mp.group(1): "bool"}), "bool")
        first = params.split(",")[0].strip() if "," in params else ""
        ctors.append((" ".join(first.split()), mp.group(1), pd, ex))
    if len(ctors) < 4:
        raise TranslateError("expected the four constructors of MPIGuard, found %d" % len(ctors))
    out = ["/-! ### MPIGuard (mpiguard.hh) -/", "namespace Guard",
           "/-- `void finalize(bool %s%s)` -/" % (param, " = " + dflt if dflt else ""),
           "def finalize (g : Guard) (v_%s : Bool) : Prog (Guard × Bool) :=\n%s" % (param, fin),
           "/-- the default argument of `finalize` (`none`: there is none) -/",
           "def finalizeDefaultArg : Option Bool := %s" % ("none" if dflt is None else "some " + dflt),
           "/-- `void reactivate()` -/",
           "def reactivate (g : Guard) : Prog (Guard × Bool) :=\n%s" % rea,
           "/-- `~MPIGuard()` -/",
           "def destroy (g : Guard) : Prog (Guard × Bool) :=\n%s" % des,
           "/-- per constructor: what `active_` is initialised with, as a function of the parameter `active` -/",
           "def ctorActive : List (Bool → Bool) := [%s]" % ", ".join("fun v_%s => %s" % (c[1], c[3]) for c in ctors),
           "/-- per constructor: the default of the parameter `active` -/",
           "def ctorDefault : List (Option Bool) := [%s]" % ", ".join("none" if c[2] is None else "some " + c[2] for c in ctors),
           "end Guard"]
    return out


# ------------------------------------------------------------------------------------------------ futures

_ID = r"[A-Za-z_]\w*"
# statement patterns of the future classes -> micro operation.  Patterns are token sequences (the statement is split
# into identifiers, numbers and punctuation, joined by single blanks); `@` is a local name (must agree inside one body),
# a trailing `...` matches the rest (exception messages).
_FUT_STMT = [
    ("if ( ! valid ( ) ) DUNE_THROW ( InvalidFutureException , ...", "throwIfInvalidCall"),
    ("if ( ! valid_ ) DUNE_THROW ( InvalidFutureException , ...", "throwIfInvalidFlag"),
    ("if ( ! _future ) DUNE_THROW ( InvalidFutureException , ...", "throwIfNull"),
    ("MPI_Wait ( & req_ , & status_ )", "mpiWait"),
    ("int @ = - 1", "declFlag"),
    ("MPI_Test ( & req_ , & @ , & status_ )", "mpiTest"),
    ("return @", "retLocal"),
    ("return @ != 0", "retFlagAsBool"),
    ("return 0 != @", "retFlagAsBool"),
    ("return static_cast < bool > ( @ )", "retFlagAsBool"),
    ("return ( bool ) @", "retFlagAsBool"),
    ("return bool ( @ )", "retFlagAsBool"),
    ("wait ( )", "callWait"),
    ("return data_ . get ( )", "retTakeData"),
    ("return send_data_ . get ( )", "retTakeSend"),
    ("return ( bool ) data_", "retDataValid"),
    ("return static_cast < bool > ( data_ )", "retDataValid"),
    ("return bool ( data_ )", "retDataValid"),
    ("return valid_", "retFlagValid"),
    ("return true", "retTrue"),
    ("return false", "retFalse"),
    ("valid_ = false", "clearFlag"),
    ("return std::forward < T > ( data_ )", "retData"),
    ("return std::move ( data_ )", "retData"),
    ("T @ = std::move ( * value )", "moveOut"),
    ("T & @ = * value", "moveOut"),
    ("value . reset ( )", "reset"),
    ("value = nullptr", "reset"),
    ("value = std::nullopt", "reset"),
    ("return ( bool ) value", "retHasValue"),
    ("return value != nullptr", "retHasValue"),
    ("return value . has_value ( )", "retHasValue"),
    ("return static_cast < bool > ( value )", "retHasValue"),
    ("_future . wait ( )", "fwdWait"),
    ("return _future . ready ( )", "fwdReady"),
    ("return _future . valid ( )", "fwdValid"),
    ("return ( T ) _future . get ( )", "fwdGet"),
    ("return static_cast < T > ( _future . get ( ) )", "fwdGet"),
    ("_future -> wait ( )", "ptrWait"),
    ("return _future -> get ( )", "ptrGet"),
    ("return _future -> ready ( )", "ptrReady"),
    ("if ( _future ) return _future -> valid ( )", "ifPtrRetValid"),
]
_KEYWORDS = {"true", "false", "valid_", "data_", "send_data_", "value", "_future", "req_", "status_", "this", "nullptr"}


def _compile(p):
    parts = []
    for tok in p.split(" "):
        if tok == "@":
            parts.append("(%s)" % _ID)
        elif tok == "...":
            parts.append(".*")
        else:
            parts.append(re.escape(tok))
    return re.compile(" ".join(parts) + "$")


_FUT_RX = [(_compile(p), op) for p, op in _FUT_STMT]
_NTOK = re.compile(r"\s*(std::\w+|[A-Za-z_]\w*|\d+|->|==|!=|&&|\|\||.)", re.S)


def _norm(t):
    """token sequence joined by single blanks"""
    out, i = [], 0
    t = t.strip()
    while i < len(t):
        m = _NTOK.match(t, i)
        out.append(m.group(1))
        i = m.end()
    return " ".join(x for x in out if not x.isspace())


_NULLTEST = [(re.compile(r"^(%s) != nullptr$" % _ID), r"\1"), (re.compile(r"^nullptr != (%s)$" % _ID), r"\1"),
             (re.compile(r"^static_cast < bool > \( (%s) \)$" % _ID), r"\1"), (re.compile(r"^\( bool \) (%s)$" % _ID), r"\1"),
             (re.compile(r"^bool \( (%s) \)$" % _ID), r"\1"), (re.compile(r"^(%s) == nullptr$" % _ID), r"! \1"),
             (re.compile(r"^nullptr == (%s)$" % _ID), r"! \1"), (re.compile(r"^! ! (%s)$" % _ID), r"\1"),
             (re.compile(r"^! \( (%s) \)$" % _ID), r"! \1"), (re.compile(r"^\( (%s) \)$" % _ID), r"\1"),
             # comparisons with `false` (right for every arithmetic or pointer-like type; `== true` is not: 2 == true is false)
             (re.compile(r"^(%s) == false$" % _ID), r"! \1"), (re.compile(r"^false == (%s)$" % _ID), r"! \1"),
             (re.compile(r"^(%s) != false$" % _ID), r"\1"), (re.compile(r"^false != (%s)$" % _ID), r"\1")]


def _norm_cond(c):
    """a condition in token form with the spellings of `is (not) null / empty` of one name reduced to `x` / `! x`"""
    c = _norm(c)
    for _ in range(4):
        for rx, rep in _NULLTEST:
            c2 = rx.sub(rep, c)
            if c2 != c:
                c = c2
                break
        else:
            break
    return c


def _split_cond_expr(t):
    """`C ? A : B` (one conditional operator at the top level, token form) -> (C, A, B) or None"""
    toks, depth, q, col = t.split(" "), 0, None, None
    for i, x in enumerate(toks):
        if x in "([{":
            depth += 1
        elif x in ")]}":
            depth -= 1
        elif depth == 0 and x == "?":
            if q is not None:
                return None
            q = i
        elif depth == 0 and x == ":" and q is not None:
            if col is not None:
                return None
            col = i
    if q is None or col is None or not (0 < q < col - 1 < len(toks) - 2):
        return None
    return " ".join(toks[:q]), " ".join(toks[q + 1:col]), " ".join(toks[col + 1:])


def _is_throw(st):
    return st[0] == "simple" and re.match(r"DUNE_THROW \(", st[1]) is not None


def _negate(c):
    """negation of a condition that is one name or one call without arguments (possibly negated); None otherwise"""
    atom = r"%s(?: \( \))?" % _ID
    if re.match(r"! %s$" % atom, c):
        return c[2:]
    if re.match(r"%s$" % atom, c):
        return "! " + c
    return None


def _is_ret(st):
    return st[0] == "simple" and re.match(r"return\b.", st[1]) is not None


def _norm_returns(stmts, ret_bool=False):
    """Value-returning control flow in ONE spelling, `if (c) return a; return b;`:
    `return c ? a : b;`, `if (c) return a; else return b;`, `if (!c) return b; return a;` (c one name: evaluating it has no
    effect), null tests of a name as the name itself, `this->` dropped (no local can hide a member here: locals that
    carry a member's name are rejected)."""
    out = []
    for st in stmts:
        if st[0] == "block":
            out.append(("block", _norm_returns(st[1], ret_bool)))
            continue
        if st[0] == "simple":
            t = re.sub(r"(?<![\w])this -> ", "", _norm(st[1]))
            ce = _split_cond_expr(t[7:]) if t.startswith("return ") else None
            ma = re.match(r"return ((?:! )?%s|%s [!=]= nullptr|nullptr [!=]= %s) && ([^&|?]+)$" % (_ID, _ID, _ID), t) if ret_bool else None
            if ma and "," not in ma.group(2):
                # in a function returning bool: `return x && e;` is `if (x) return e; return false;` (x one name)
                ce = (ma.group(1), ma.group(2), "false")
            if ce:
                out.append(("if", _norm_cond(ce[0]), [("simple", "return " + ce[1])], None))
                out.append(("simple", "return " + ce[2]))
            else:
                out.append(("simple", t))
            continue
        cond = _norm_cond(re.sub(r"(?<![\w])this -> ", "", _norm(st[1])))
        th = _norm_returns(st[2], ret_bool)
        el = _norm_returns(st[3], ret_bool) if st[3] is not None else None
        while len(th) == 1 and th[0][0] == "block" and len(th[0][1]) == 1:
            th = th[0][1]
        while el is not None and len(el) == 1 and el[0][0] == "block" and len(el[0][1]) == 1:
            el = el[0][1]
        if el is not None and len(th) == 1 and _is_ret(th[0]) and len(el) == 1 and _is_ret(el[0]):
            out.append(("if", cond, th, None))
            out.append(el[0])
        elif el is not None and len(th) == 1 and _is_throw(th[0]):
            # `if (c) THROW; else { S }` is `if (c) THROW; S` (the macro never returns)
            out.append(("if", cond, th, None))
            out += el
        elif el is not None and len(el) == 1 and _is_throw(el[0]) and _negate(cond) is not None:
            # `if (c) { S } else THROW;` is `if (!c) THROW; S`
            out.append(("if", _negate(cond), el, None))
            out += th
        else:
            out.append(("if", cond, th, el))
    # if (!x) return b; return a;  ->  if (x) return a; return b;
    res, i = [], 0
    while i < len(out):
        st = out[i]
        if (st[0] == "if" and st[3] is None and len(st[2]) == 1 and _is_ret(st[2][0]) and re.match(r"! %s$" % _ID, st[1])
                and i + 1 < len(out) and _is_ret(out[i + 1])):
            res.append(("if", st[1][2:], [out[i + 1]], None))
            res.append(st[2][0])
            i += 2
            continue
        res.append(st)
        i += 1
    return res


_KNOWN_MEMBERS = {"wait", "get", "ready", "valid", "get_send_data", "get_mpidata", "get_send_mpidata", "reset"}


def _void_helpers(body):
    """`void name() [const] [noexcept] { .. }` members of a future class other than the interface: name -> statement tree"""
    out = {}
    for m in re.finditer(r"\bvoid\s+(\w+)\s*\(\s*\)\s*(?:const\s*)?(?:noexcept\s*)?\{", body):
        if m.group(1) in _KNOWN_MEMBERS:
            continue
        if m.group(1) in out:
            raise TranslateError("helper %r is overloaded" % m.group(1))
        i = m.end() - 1
        out[m.group(1)] = _split_stmts(body[i + 1:_match(body, i, "{", "}") - 1])
    return out


def _micro_of(stmt_tree, what, top=True, ret_bool=False, helpers=None, depth=0):
    ops, names = [], {}
    helpers = helpers or {}
    if top:
        stmt_tree = _norm_returns(stmt_tree, ret_bool)
    for st in stmt_tree:
        mh = re.match(r"(%s) \( \)$" % _ID, st[1]) if st[0] == "simple" else None
        if mh and mh.group(1) in helpers:
            # a private `void helper()` of the class: its statements in place of the call (a `return` inside it is
            # outside the grammar, so the statements after the call are reached exactly when the helper ends normally)
            if depth > 8:
                raise TranslateError("%s: helper %r: recursion" % (what, mh.group(1)))
            ops += _micro_of(helpers[mh.group(1)], "%s > %s" % (what, mh.group(1)), True, False, helpers, depth + 1)
            continue
        if st[0] == "block":
            ops += _micro_of(st[1], what, False, ret_bool, helpers, depth)
            continue
        if st[0] == "if":
            if st[3] is not None or len(st[2]) != 1 or st[2][0][0] != "simple":
                raise TranslateError("%s: if-statement outside the grammar" % what)
            text = "if ( %s ) %s" % (st[1], st[2][0][1])
        else:
            text = st[1]
        t = _norm(text)
        for rx, op in _FUT_RX:
            m = rx.match(t)
            if m and m.groups() and m.group(1) in _KEYWORDS:
                m = None
            if m:
                if op in ("declFlag", "moveOut"):
                    names["local"] = m.group(1)
                    names["kind"] = op
                    if op == "declFlag":
                        op = None
                elif op in ("mpiTest", "retLocal", "retFlagAsBool"):
                    if names.get("local") != m.group(1):
                        raise TranslateError("%s: %r uses an undeclared local" % (what, text))
                    if op == "retFlagAsBool":
                        # `return flag != 0;` is what `return flag;` means in a function returning bool, for the int
                        # completion flag only (never for the object moved out of a buffer)
                        if names.get("kind") != "declFlag":
                            raise TranslateError("%s: %r converts the returned object" % (what, text))
                        op = "retLocal"
                if op:
                    ops.append(op)
                break
        else:
            raise TranslateError("%s: statement outside the grammar: %r" % (what, text))
    return ops


def _member(body, rx, what):
    m, b = _fn(body, rx, what)
    return _micro_of(_split_stmts(b), what, True, re.match(r"bool\b", m.group(0).lstrip()) is not None, _void_helpers(body))


def _lean_ops(ops):
    return "[" + ", ".join("." + o for o in ops) + "]"


def _swaps(text, what):
    out = []
    for st in _split_stmts(text):
        if st[0] != "simple":
            raise TranslateError("%s: control flow in a move operation" % what)
        t = _norm(st[1])
        m = re.match(r"(?:using std::swap|return \* this)$", t)
        if m:
            continue
        m = re.match(r"(?:std::)?swap \( ?(\w+) ?, ?(\w+) ?\. ?(\w+) ?\)$", t)
        if not m or m.group(1) != m.group(3):
            raise TranslateError("%s: statement outside the grammar: %r" % (what, st[1]))
        out.append(m.group(1))
    return out


_FIELD = {"req_": "req", "status_": "status", "data_": "data", "send_data_": "sendData"}


def _fields(names, what):
    for n in names:
        if n not in _FIELD:
            raise TranslateError("%s: unknown member %r" % (what, n))
    return "[" + ", ".join("." + _FIELD[n] for n in names) + "]"


def _mpifuture(repo):
    src = _strip(open(os.path.join(repo, MPIFUT)).read())
    out = ["/-! ### impl::Buffer and MPIFuture (mpifuture.hh) -/", "namespace MpiFuture"]
    # the three buffers
    bufs = [(r"template\s*<\s*class\s+T\s*>\s*struct\s+Buffer\s*\{", "bufferValue", r"\bT\s+get\s*\(\s*\)"),
            (r"template\s*<\s*class\s+T\s*>\s*struct\s+Buffer\s*<\s*T\s*&\s*>\s*\{", "bufferRef", r"\bT\s*&\s*get\s*\(\s*\)"),
            (r"template\s*<\s*>\s*struct\s+Buffer\s*<\s*void\s*>\s*\{", "bufferVoid", r"\bvoid\s+get\s*\(\s*\)")]
    for (rx, name, getrx), (cp, exp) in zip(bufs, ((["T"], "T"), (["T"], "T &"), ([], "void"))):
        b = _class_body(src, rx, name) + _pull_in(src, "Buffer", cp, exp)
        # the one data member of the buffer, whatever it is called
        b = _canonical_member(b, _DECL % {"bufferValue": r"std::unique_ptr\s*<\s*T\s*>",
                                          "bufferRef": r"std::optional\s*<\s*std::reference_wrapper\s*<\s*T\s*>\s*>",
                                          "bufferVoid": r"bool"}[name], "valid_" if name == "bufferVoid" else "value", name)
        out.append("def %sGet : List Micro := %s" % (name, _lean_ops(_member(b, getrx, name + "::get"))))
        out.append("def %sBool : List Micro := %s"
                   % (name, _lean_ops(_member(b, r"\boperator\s+bool\s*\(\s*\)\s*const", name + "::operator bool"))))
    body = _class_body(src, r"\bclass\s+MPIFuture\s*\{", "class MPIFuture")
    mt = re.search(r"template\s*<([^<>]*)>\s*class\s+MPIFuture\s*\{", src)
    if not mt or _tparam_names(mt.group(1)) != ["R", "S"]:
        raise TranslateError("class template MPIFuture<R, S>: template header not found")
    body += _pull_in(src, "MPIFuture", ["R", "S"], "R , S")
    for name, rx in (("valid", r"\bbool\s+valid\s*\(\s*\)\s*const"), ("wait", r"\bvoid\s+wait\s*\(\s*\)"),
                     ("ready", r"\bbool\s+ready\s*\(\s*\)\s*const"), ("get", r"\bR\s+get\s*\(\s*\)"),
                     ("getSendData", r"\bS\s+get_send_data\s*\(\s*\)")):
        out.append("def %s : List Micro := %s" % (name, _lean_ops(_member(body, rx, "MPIFuture::" + name))))
    # move assignment
    m, ab = _fn(body, r"\bMPIFuture\s*&\s*operator\s*=\s*\(\s*MPIFuture\s*&&\s*(\w+)\s*\)(?:\s*noexcept)?", "MPIFuture::operator=")
    out.append("/-- the members `operator=(MPIFuture&&)` swaps, in order -/")
    out.append("def assignSwaps : List Field := %s" % _fields(_swaps(ab, "MPIFuture::operator="), "operator="))
    # move constructor: MPIFuture(MPIFuture&& f) : inits { swaps }
    mc = re.search(r"(?<![~\w])MPIFuture\s*\(\s*MPIFuture\s*&&\s*(\w+)\s*\)(?:\s*noexcept)?\s*:", body)
    if not mc:
        raise TranslateError("MPIFuture move constructor not found")
    j = body.index("{", mc.end())
    inits = body[mc.end():j]
    f = mc.group(1)
    moved, nulled = [], []
    for it in re.finditer(r"(\w+)\s*[({]([^(){}]*(?:\([^()]*\)[^(){}]*)*)[)}]\s*(?:,|$)", inits.strip()):
        mem, arg = it.group(1), _norm(it.group(2))
        if re.match(r"std::move \( ?%s ?\. ?%s ?\)$" % (f, mem), arg):
            moved.append(mem)
        elif arg == "MPI_REQUEST_NULL" and mem == "req_":
            nulled.append(mem)
        else:
            raise TranslateError("move constructor: initialiser %s(%s) outside the grammar" % (mem, it.group(2)))
    cb = body[j + 1:_match(body, j, "{", "}") - 1]
    out.append("/-- move constructor: members initialised with `std::move(f.member)`, members set to MPI_REQUEST_NULL, then swaps -/")
    out.append("def ctorMoved : List Field := %s" % _fields(moved, "move constructor"))
    out.append("def ctorNulled : List Field := %s" % _fields(nulled, "move constructor"))
    out.append("def ctorSwaps : List Field := %s" % _fields(_swaps(cb, "move constructor"), "move constructor"))
    out.append("end MpiFuture")
    return out


# declaration of a data member of the given type (regex text) at statement level
_DECL = r"(?:^|(?<=[;{}:]))\s*(?:mutable\s+)?%s\s+(\w+)\s*;"


def _canonical_member(body, decl_rx, canon, what):
    """rename the one data member declared by `decl_rx` to the name the statement patterns use (alpha renaming of a member
    identified by its declared type; two candidates or a clash with another use of the canonical name: error)"""
    ms = list(re.finditer(decl_rx, body))
    if len(ms) != 1:
        raise TranslateError("%s: %d declarations of the member that becomes %r found" % (what, len(ms), canon))
    name = ms[0].group(1)
    if name == canon:
        return body
    if re.search(r"(?<!\w)%s(?!\w)" % re.escape(canon), body):
        raise TranslateError("%s: both %r and %r are used" % (what, name, canon))
    return _rename_words(body, {name: canon})


def _future(repo):
    src = _strip(open(os.path.join(repo, FUT)).read())
    out = ["/-! ### PseudoFuture<T>, PseudoFuture<void>, Future<T> (future.hh) -/"]
    pt = _class_body(src, r"template\s*<\s*class\s+T\s*>\s*class\s+PseudoFuture\s*\{", "PseudoFuture<T>")
    pv = _class_body(src, r"template\s*<\s*>\s*class\s+PseudoFuture\s*<\s*void\s*>\s*\{", "PseudoFuture<void>")
    pt += _pull_in(src, "PseudoFuture", ["T"], "T")
    pv += _pull_in(src, "PseudoFuture", [], "void")
    pt = _canonical_member(_canonical_member(pt, _DECL % "bool", "valid_", "PseudoFuture<T>"), _DECL % "T", "data_", "PseudoFuture<T>")
    pv = _canonical_member(pv, _DECL % "bool", "valid_", "PseudoFuture<void>")
    for ns, b, getrx in (("PseudoT", pt, r"\bT\s+get\s*\(\s*\)"), ("PseudoV", pv, r"\bvoid\s+get\s*\(\s*\)")):
        out.append("namespace %s" % ns)
        for name, rx in (("valid", r"\bbool\s+valid\s*\(\s*\)\s*const"), ("wait", r"\bvoid\s+wait\s*\(\s*\)"),
                         ("ready", r"\bbool\s+ready\s*\(\s*\)\s*const"), ("get", getrx)):
            out.append("def %s : List Micro := %s" % (name, _lean_ops(_member(b, rx, "%s::%s" % (ns, name)))))
        out.append("end %s" % ns)
    fut = _class_body(src, r"template\s*<\s*class\s+T\s*>\s*class\s+Future\s*\{", "Future<T>")
    model = _class_body(fut, r"\bclass\s+FutureModel\s*:\s*public\s+FutureBase\s*\{", "Future<T>::FutureModel")
    # the wrapped object: the one data member whose type is FutureModel's template parameter, whatever both are called
    mt = re.search(r"template\s*<\s*(?:class|typename)\s+(\w+)\s*>\s*class\s+FutureModel\b", fut)
    if not mt:
        raise TranslateError("Future<T>::FutureModel: template header not found")
    model = _canonical_member(model, r"(?:^|(?<=[;{}:]))\s*%s\s+(\w+)\s*;" % re.escape(mt.group(1)), "_future", "FutureModel")
    out.append("namespace ErasedModel")
    for name, rx in (("valid", r"\bbool\s+valid\s*\(\s*\)\s*const(?:\s+override)?"), ("wait", r"\bvoid\s+wait\s*\(\s*\)(?:\s*override)?"),
                     ("ready", r"\bbool\s+ready\s*\(\s*\)\s*const(?:\s+override)?"), ("get", r"\bT\s+get\s*\(\s*\)(?:\s*override)?")):
        out.append("def %s : List Micro := %s" % (name, _lean_ops(_member(model, rx, "FutureModel::" + name))))
    out.append("end ErasedModel")
    # the outer class: remove the nested classes first
    outer = fut
    for rx in (r"\bclass\s+FutureBase\s*\{", r"\bclass\s+FutureModel\s*:\s*public\s+FutureBase\s*\{"):
        m = re.search(rx, outer)
        i = outer.index("{", m.end() - 1)
        outer = outer[:m.start()] + outer[_match(outer, i, "{", "}"):]
    outer += _pull_in(src, "Future", ["T"], "T")
    outer = _canonical_member(outer, r"(?:^|(?<=[;{}:]))\s*std::unique_ptr\s*<\s*FutureBase\s*>\s+(\w+)\s*;", "_future", "Future<T>")
    out.append("namespace Erased")
    for name, rx in (("valid", r"\bbool\s+valid\s*\(\s*\)\s*const"), ("wait", r"\bvoid\s+wait\s*\(\s*\)"),
                     ("ready", r"\bbool\s+ready\s*\(\s*\)\s*const"), ("get", r"\bT\s+get\s*\(\s*\)")):
        out.append("def %s : List Micro := %s" % (name, _lean_ops(_member(outer, rx, "Future::" + name))))
    out.append("end Erased")
    return out


# ------------------------------------------------------------------------------------------------ operations
# Part 4 (round four, second step): the non-blocking members of Communication<MPI_Comm> (mpicommunication.hh) and of the
# sequential Communication<C> (communication.hh), as far as the *future they return* is concerned.

MPICOMM = "dune/common/parallel/mpicommunication.hh"
SEQCOMM = "dune/common/parallel/communication.hh"

_NB = ["ibarrier", "ibroadcast", "igather", "iscatter", "iallgather", "iallreduce", "isend", "irecv"]


def _params(text):
    """names of the parameters of a parameter list (attributes removed)"""
    text = re.sub(r"\[\[[^\]]*\]\]", " ", text)
    out = []
    for p in _top_split(text):
        p = p.split("=")[0].strip()
        m = re.search(r"(\w+)\s*$", p)
        if p and m:
            out.append(m.group(1))
    return out


def _top_split(s):
    out, depth, cur = [], 0, ""
    s = s.replace("->", "→")
    for ch in s:
        if ch in "(<[{":
            depth += 1
        elif ch in ")>]}":
            depth -= 1
        if ch == "," and depth == 0:
            out.append(cur.strip())
            cur = ""
        else:
            cur += ch
    if cur.strip():
        out.append(cur.strip())
    return [a.replace("→", "->") for a in out]


def _members(body, name):
    """all definitions `name(params) [const] { body }` at the top level of a class body: [(params, body text)]"""
    out = []
    for m in re.finditer(r"(?<![\w~.>:])%s\s*\(" % name, body):
        e = _match(body, m.end() - 1, "(", ")")
        k = _ws(body, e)
        mm = re.match(r"const\b", body[k:])
        if mm:
            k = _ws(body, k + 5)
        if k < len(body) and body[k] == "{":
            # only definitions, not calls: the text before the name must end a declarator (a type), i.e. `>` or a word
            pre = body[:m.start()].rstrip()
            if pre.endswith(("return", "=", "(", ",", ";", "{", "}")):
                continue
            out.append((body[m.end():e - 1], body[k + 1:_match(body, k, "{", "}") - 1]))
    return out


def _fwd_param(arg, params, what):
    """index of the parameter that `arg` forwards (std::forward<..>(p), std::move(p) or p itself)"""
    t = _norm(arg)
    m = re.match(r"(?:std::forward < .* > \( (\w+) \)|std::move \( (\w+) \)|(\w+))$", t)
    if not m:
        raise TranslateError("%s: argument %r is not a forwarded parameter" % (what, arg))
    p = m.group(1) or m.group(2) or m.group(3)
    if p not in params:
        raise TranslateError("%s: %r is not a parameter" % (what, p))
    return params.index(p)


def _mpi_op(params_text, body, what):
    params = _params(params_text)
    stmts = _split_stmts(body)
    fut, ctor, call, bufs, req_ok, returns, kinds, threw, req_alias = None, None, None, [], False, False, {}, False, None
    for idx, st in enumerate(stmts):
        if st[0] == "if":
            # irecv: `if (mpidata.size() == 0) DUNE_THROW(ParallelError, ..)` before the operation is posted
            if call is None and len(st[2]) == 1 and st[2][0][0] == "simple" and st[2][0][1].startswith("DUNE_THROW") and st[3] is None:
                threw = True
                continue
            raise TranslateError("%s: control flow outside the grammar" % what)
        if st[0] != "simple":
            raise TranslateError("%s: block outside the grammar" % what)
        t = st[1]
        m = re.match(r"MPIFuture\s*<.*?>\s+(\w+)\s*[({](.*)[)}]$", t)
        if m and fut is None:
            fut = m.group(1)
            args = _top_split(m.group(2))
            if len(args) == 1 and args[0] in ("true", "false"):
                ctor = ".flag %s" % args[0]
            elif len(args) == 1:
                ctor = ".one %d" % _fwd_param(args[0], params, what)
            elif len(args) == 2:
                ctor = ".two %d %d" % (_fwd_param(args[0], params, what), _fwd_param(args[1], params, what))
            else:
                raise TranslateError("%s: future constructed from %d arguments" % (what, len(args)))
            continue
        m = re.match(r"auto\s+(\w+)\s*=\s*(\w+)\s*\.\s*(get_mpidata|get_send_mpidata)\s*\(\s*\)$", t)
        if m:
            if m.group(2) != fut:
                raise TranslateError("%s: MPI data taken from %r, not from the future" % (what, m.group(2)))
            kinds[m.group(1)] = "data" if m.group(3) == "get_mpidata" else "sendData"
            continue
        m = re.match(r"(?:MPI_Request|auto)\s*(\*|&)\s*(?:const\s+)?(\w+)\s*=\s*(&?)\s*(\w+)\s*\.\s*req_$", t)
        if m and call is None and fut is not None and m.group(4) == fut and (m.group(1) == "*") == (m.group(3) == "&"):
            # `MPI_Request* [const] p = &future.req_;` / `MPI_Request& r = future.req_;`: another name for the request
            # of the future (nothing else can be assigned to it: every other statement kind is rejected)
            req_alias = (m.group(2) if m.group(1) == "*" else "&" + m.group(2))
            continue
        m = re.match(r"(MPI_I\w+)\s*\((.*)\)$", t)
        if m:
            if call is not None:
                raise TranslateError("%s: more than one operation is posted" % what)
            call = m.group(1)
            args = _top_split(m.group(2))
            for a in args:
                a1 = "".join(a.split())
                mp = re.match(r"(\w+)\.ptr\(\)$", a1)
                if mp:
                    if mp.group(1) not in kinds:
                        raise TranslateError("%s: buffer %r of unknown origin" % (what, mp.group(1)))
                    bufs.append("." + kinds[mp.group(1)])
                elif a1 == "MPI_IN_PLACE":
                    bufs.append(".inPlace")
            req_ok = "".join(args[-1].split()) in ("&%s.req_" % fut, req_alias)
            continue
        m = re.match(r"return\s+(.*)$", t)
        if m:
            if idx != len(stmts) - 1:
                raise TranslateError("%s: return before the end" % what)
            returns = m.group(1).strip() == fut or "".join(m.group(1).split()) == "std::move(%s)" % fut
            continue
        if re.match(r"(assert\s*\(|(?:const\s+)?int\s+\w+\s*=)", t):
            continue  # length computations and assertions: C07's subject
        raise TranslateError("%s: statement outside the grammar: %r" % (what, t))
    if fut is None or call is None:
        raise TranslateError("%s: no future / no posted operation found" % what)
    return ('{ name := "%s", arity := %d, ctor := %s, call := "%s", bufs := [%s], reqInFuture := %s, returnsFuture := %s }'
            % (what.split("::")[-1], len(params), ctor, call, ", ".join(bufs), "true" if req_ok else "false",
               "true" if returns else "false"))


def _seq_op(params_text, body, what):
    params = _params(params_text)
    stmts = _split_stmts(body)
    copies, ret = [], None
    for idx, st in enumerate(stmts):
        if st[0] != "simple":
            raise TranslateError("%s: control flow outside the grammar" % what)
        t = _norm(st[1])
        m = re.match(r"return \{ (.*) \}$", t)
        if m:
            if idx != len(stmts) - 1:
                raise TranslateError("%s: return before the end" % what)
            a = m.group(1)
            ret = ".flag %s" % a if a in ("true", "false") else ".one %d" % _fwd_param(a, params, what)
            continue
        if t.startswith("DUNE_THROW"):
            return None  # isend/irecv of the sequential communicator: not supported, no future
        # data_out = fwd(data_in) | *(data_out.begin()) = fwd(data_in) | data_out = *(fwd(data_in).begin())
        m = re.match(r"(\* \( )?(\w+)( \. begin \( \) \))? = (\* \( )?(std::forward < \w+ > \( \w+ \)|\w+)( \. begin \( \) \))?$", t)
        if not m or bool(m.group(1)) != bool(m.group(3)) or bool(m.group(4)) != bool(m.group(6)):
            raise TranslateError("%s: statement outside the grammar: %r" % (what, st[1]))
        dst = params.index(m.group(2)) if m.group(2) in params else None
        if dst is None:
            raise TranslateError("%s: assignment to %r" % (what, m.group(2)))
        src = _fwd_param(m.group(5), params, what)
        copies.append("{ dst := %d, dstFirst := %s, src := %d, srcFirst := %s }"
                      % (dst, "true" if m.group(1) else "false", src, "true" if m.group(4) else "false"))
    if ret is None:
        raise TranslateError("%s: no return statement" % what)
    return ('{ name := "%s", arity := %d, copies := [%s], ret := %s }'
            % (what.split("::")[-1], len(params), ", ".join(copies), ret))


def _operations(repo):
    out = ["/-! ### the non-blocking members: which future they hand out (mpicommunication.hh, communication.hh) -/", "namespace Ops"]
    src = _strip(open(os.path.join(repo, MPICOMM)).read())
    body = _class_body(src, r"\bclass\s+Communication\s*<\s*MPI_Comm\s*>\s*\{", "Communication<MPI_Comm>")
    rows = []
    for n in _NB:
        defs = _members(body, n)
        if not defs:
            raise TranslateError("Communication<MPI_Comm>::%s not found" % n)
        for p, b in defs:
            rows.append(_mpi_op(p, b, "Communication<MPI_Comm>::" + n))
    out.append("def mpi : List MpiOp := [\n  %s]" % ",\n  ".join(rows))
    src = _strip(open(os.path.join(repo, SEQCOMM)).read())
    body = _class_body(src, r"\bclass\s+Communication\s*\{", "Communication<C>")
    rows = []
    for n in _NB:
        for p, b in _members(body, n):
            r = _seq_op(p, b, "Communication::" + n)
            if r:
                rows.append(r)
    out.append("def seq : List SeqOp := [\n  %s]" % ",\n  ".join(rows))
    out.append("end Ops")
    return out


def translate(repo):
    out = ["-- GENERATED by tools/translators/tr_c19.py from %s, %s, %s, %s, %s -- do not edit" % (GUARD, MPIFUT, FUT, MPICOMM, SEQCOMM),
           "import DuneVerif.Model.C19",
           "namespace DV.C19.Gen",
           "open DV.C19"]
    out += _guard(repo)
    out += _mpifuture(repo)
    out += _future(repo)
    out += _operations(repo)
    out += ["end DV.C19.Gen", ""]
    return [("DuneVerif/Gen/C19.lean", "\n".join(out))]


# ------------------------------------------------------------------------------------------------ self test
# `python3 tools/translators/tr_c19.py --selftest [repo]`: source edits applied to a temporary copy of the five headers.
# POS = behaviour-preserving spellings: futures must give the SAME generated text as the unchanged tree, guard edits
# must translate (the proofs of Proofs/C19Gen.lean do not look at the shape of the guard programs; they are re-checked
# by the Lean build of every run).  NEG = changes of behaviour or rewrites outside the grammar: must raise
# TranslateError or change the generated text.

_G, _M, _F = GUARD, MPIFUT, FUT
_OOC_READY = [(_M, "    bool ready() const{\n      int flag = -1;\n      MPI_Test(&req_, &flag, &status_);\n      return flag;\n    }\n",
               "    bool ready() const;\n"),
              (_M, "}\n#endif // HAVE_MPI", "  template<class A, class B>\n  bool MPIFuture<A, B>::ready() const\n  {\n"
               "    int done = -1;\n    MPI_Test(&this->req_, &done, &status_);\n    return static_cast<bool>(done);\n  }\n}\n#endif // HAVE_MPI")]
_POS = {
    "guard: helper with if/return, split locals, commuted test": [
        (_G, "int result = success ? 0 : 1;", "const int mine = flagOf(success);"),
        (_G, "result = comm_->sum(result);", "const int result = comm_->sum(mine);"),
        (_G, "if (result>0 && was_active)", "if (was_active && 0<result)"),
        (_G, "    void finalize(bool success = true)", "    static int flagOf(const bool ok) { if (ok) { return 0; } else return 1; }\n    void finalize(bool success = true)")],
    "guard: bool helper for the throw test, nested helper": [
        (_G, "if (result>0 && was_active)", "if (mustThrow(result, was_active))"),
        (_G, "    void finalize(bool success = true)", "    bool positive(int n) const { return n > 0; }\n"
         "    bool mustThrow(int n, bool armed) const { return armed ? positive(n) : false; }\n    void finalize(bool success = true)")],
    "guard: private void helper for disarming": [
        (_G, "      bool was_active = active_;\n      active_ = false;", "      bool was_active = active_;\n      disarm();"),
        (_G, "        active_ = false;\n        finalize(false);", "        this->disarm();\n        finalize(false);"),
        (_G, "    void finalize(bool success = true)", "    void disarm() noexcept { active_ = false; }\n    void finalize(bool success = true)")],
    "guard: reactivate without == true, explicit argument": [
        (_G, "if (active_ == true)\n        finalize();", "if (this->active_) { this->finalize(true); }")],
    "mpifuture: ready() defined after the class, other parameter names, this->, cast": _OOC_READY,
    "mpifuture: get() defined after the class": [
        (_M, "    R get() {\n      wait();\n      return data_.get();\n    }\n", "    R get();\n"),
        (_M, "}\n#endif // HAVE_MPI", "  template<class R, class S>\n  inline R MPIFuture<R, S>::get()\n  {\n    this->wait();\n    return this->data_.get();\n  }\n}\n#endif // HAVE_MPI")],
    "mpifuture: Buffer<T&>::get defined after the struct": [
        (_M, "      T& get(){\n        T& tmp = *value;\n        value.reset();\n        return tmp;\n      }\n", "      T& get();\n"),
        (_M, "    template<>\n    struct Buffer<void>", "    template<class U>\n    U& Buffer<U&>::get(){\n      U& r = *value;\n      value.reset();\n      return r;\n    }\n\n    template<>\n    struct Buffer<void>")],
    "mpifuture: wait() as if/else with the throw in the else branch": [
        (_M, "      if(!valid())\n        DUNE_THROW(InvalidFutureException, \"The MPIFuture is not valid!\");\n      MPI_Wait(&req_, &status_);",
         "      if (valid()) {\n        MPI_Wait(&req_, &status_);\n      } else {\n        DUNE_THROW(InvalidFutureException, \"The MPIFuture is not valid!\");\n      }")],
    "future: PseudoFuture validity test in a private helper": [
        (_F, "    T get() {\n      if(!valid_)\n        DUNE_THROW(InvalidFutureException, \"The PseudoFuture is not valid\");", "    T get() {\n      this->requireValid();"),
        (_F, "    bool valid() const {\n      return valid_;\n    }", "    bool valid() const {\n      return valid_;\n    }\n  private:\n    void requireValid() const {\n      if (valid_ == false) {\n        DUNE_THROW(InvalidFutureException, \"invalid\"); }\n    }")],
    "mpicomm: request of the future through a pointer / a reference": [
        ("dune/common/parallel/mpicommunication.hh", "      MPI_Isend(mpidata.ptr(), mpidata.size(), mpidata.type(),\n                       dest_rank, tag, communicator, &future.req_);",
         "      MPI_Request* const request = &future.req_;\n      MPI_Isend(mpidata.ptr(), mpidata.size(), mpidata.type(),\n                       dest_rank, tag, communicator, request);"),
        ("dune/common/parallel/mpicommunication.hh", "                 communicator,\n                 &future.req_);", "                 communicator,\n                 &request);"),
        ("dune/common/parallel/mpicommunication.hh", "      MPI_Ibcast(mpidata.ptr(),", "      auto& request = future.req_;\n      MPI_Ibcast(mpidata.ptr(),")],
    "future: PseudoFuture<T> members renamed": [
        (_F, "    bool valid_;\n    T data_;", "    bool isValid;\n    T payload;"),
        (_F, "      valid_(false)\n    {}\n\n    template<class U>\n    PseudoFuture(U&& u) :\n      valid_(true),\n      data_(std::forward<U>(u))", "      isValid(false)\n    {}\n\n    template<class U>\n    PseudoFuture(U&& u) :\n      isValid(true),\n      payload(std::forward<U>(u))"),
        (_F, "    void wait() {\n      if(!valid_)", "    void wait() {\n      if(!isValid)"),
        (_F, "    bool ready() const {\n      if(!valid_)", "    bool ready() const {\n      if(!isValid)"),
        (_F, "    T get() {\n      if(!valid_)", "    T get() {\n      if(!isValid)"),
        (_F, "      valid_ = false;\n      return std::forward<T>(data_);", "      isValid = false;\n      return std::forward<T>(payload);"),
        (_F, "    bool valid() const {\n      return valid_;", "    bool valid() const {\n      return isValid;")],
    "mpifuture: Buffer<T> member renamed": [
        (_M, "          value = std::make_unique<T>();", "          ptr_ = std::make_unique<T>();"),
        (_M, ": value(std::make_unique<T>(std::forward<V>(t)))", ": ptr_(std::make_unique<T>(std::forward<V>(t)))"),
        (_M, "      std::unique_ptr<T> value;\n      T get(){\n        T tmp = std::move(*value);\n        value.reset();", "      std::unique_ptr<T> ptr_;\n      T get(){\n        T tmp = std::move(*ptr_);\n        ptr_.reset();"),
        (_M, "        return (bool)value;\n      }\n      T& operator *() const{\n        return *value;\n      }\n    };\n\n    template<class T>\n    struct Buffer<T&>", "        return (bool)ptr_;\n      }\n      T& operator *() const{\n        return *ptr_;\n      }\n    };\n\n    template<class T>\n    struct Buffer<T&>")],
    "future: valid() as conditional expression": [
        (_F, "      if(_future)\n        return _future->valid();\n      return false;", "      return _future ? _future->valid() : false;")],
    "future: valid() with inverted guard and nullptr test": [
        (_F, "      if(_future)\n        return _future->valid();\n      return false;", "      if (_future == nullptr) { return false; }\n      return this->_future->valid();")],
    "future: valid() as &&": [
        (_F, "      if(_future)\n        return _future->valid();\n      return false;", "      return _future != nullptr && _future->valid();")],
    "future: valid() with if/else": [
        (_F, "      if(_future)\n        return _future->valid();\n      return false;", "      if (_future != nullptr)\n        return _future->valid();\n      else\n        return false;")],
    "future: FutureModel with other names, no virtual": [
        (_F, "template<class F>\n    class FutureModel", "template<typename Wrapped>\n    class FutureModel"),
        (_F, "      F _future;\n    public:\n      FutureModel(F&& f)\n        : _future(std::forward<F>(f))", "      Wrapped w_;\n    public:\n      FutureModel(Wrapped&& f)\n        : w_(std::forward<Wrapped>(f))"),
        (_F, "virtual void wait() override\n      {\n        _future.wait();", "void wait() override\n      {\n        w_.wait();"),
        (_F, "return _future.ready();", "return w_.ready();"), (_F, "return _future.valid();", "return w_.valid();"),
        (_F, "return (T)_future.get();", "return static_cast<T>(w_.get());")],
    "future: Future<T>::_future renamed": [
        (_F, "std::unique_ptr<FutureBase> _future;", "std::unique_ptr<FutureBase> impl_;"),
        (_F, "if(_future)\n        return _future->valid();", "if(impl_)\n        return impl_->valid();"),
        (_F, "_future->wait();", "impl_->wait();"), (_F, "return _future->get();", "return impl_->get();"),
        (_F, "return _future->ready();", "return impl_->ready();"), (_F, "if(!_future)", "if(!impl_)"),
        (_F, "_future(std::make_unique", "impl_(std::make_unique")],
}
_NEG = {
    "guard: helper with the flags swapped": [
        (_G, "int result = success ? 0 : 1;", "int result = flagOf(success);"),
        (_G, "    void finalize(bool success = true)", "    static int flagOf(bool ok) { if (ok) return 1; return 0; }\n    void finalize(bool success = true)")],
    "guard: void helper that arms instead of disarming": [
        (_G, "      bool was_active = active_;\n      active_ = false;", "      bool was_active = active_;\n      disarm();"),
        (_G, "    void finalize(bool success = true)", "    void disarm() noexcept { active_ = true; }\n    void finalize(bool success = true)")],
    "guard: void helper with an early return": [
        (_G, "      bool was_active = active_;\n      active_ = false;", "      bool was_active = active_;\n      disarm();"),
        (_G, "    void finalize(bool success = true)", "    void disarm() { if (!active_) return; active_ = false; }\n    void finalize(bool success = true)")],
    "guard: helper with a side effect": [
        (_G, "int result = success ? 0 : 1;", "int result = flagOf(success);"),
        (_G, "    void finalize(bool success = true)", "    int flagOf(bool ok) { active_ = false; return ok ? 0 : 1; }\n    void finalize(bool success = true)")],
    "guard: helper calling the collective": [
        (_G, "result = comm_->sum(result);", "result = total(result);"),
        (_G, "    void finalize(bool success = true)", "    int total(int n) { return comm_->sum(n); }\n    void finalize(bool success = true)")],
    "guard: helper with a path without return": [
        (_G, "int result = success ? 0 : 1;", "int result = flagOf(success);"),
        (_G, "    void finalize(bool success = true)", "    static int flagOf(bool ok) { if (ok) return 0; }\n    void finalize(bool success = true)")],
    "mpifuture: ready() after the class without MPI_Test": [_OOC_READY[0],
        (_M, "}\n#endif // HAVE_MPI", "  template<class A, class B>\n  bool MPIFuture<A, B>::ready() const\n  {\n    int done = -1;\n    return done != 0;\n  }\n}\n#endif // HAVE_MPI")],
    "mpifuture: ready() declared, never defined": [_OOC_READY[0]],
    "mpifuture: ready() returns flag == 0": [(_M, "return flag;", "return flag == 0;")],
    "mpifuture: get() after the class without wait": [
        (_M, "    R get() {\n      wait();\n      return data_.get();\n    }\n", "    R get();\n"),
        (_M, "}\n#endif // HAVE_MPI", "  template<class R, class S>\n  R MPIFuture<R, S>::get()\n  {\n    return data_.get();\n  }\n}\n#endif // HAVE_MPI")],
    "mpifuture: get() after the class takes the send buffer (parameters crossed)": [
        (_M, "    R get() {\n      wait();\n      return data_.get();\n    }\n", "    R get();\n"),
        (_M, "}\n#endif // HAVE_MPI", "  template<class R, class S>\n  R MPIFuture<R, S>::get()\n  {\n    wait();\n    return send_data_.get();\n  }\n}\n#endif // HAVE_MPI")],
    "mpifuture: Buffer<T>::get converts the moved object": [(_M, "        return tmp;\n      }\n      operator bool () const {", "        return tmp != 0;\n      }\n      operator bool () const {")],
    "mpifuture: two definitions of ready()": [(_M, "}\n#endif // HAVE_MPI", "  template<class R, class S>\n  bool MPIFuture<R, S>::ready() const\n  {\n    return true;\n  }\n}\n#endif // HAVE_MPI")],
    "mpifuture: wait() as if/else, branches crossed": [
        (_M, "      if(!valid())\n        DUNE_THROW(InvalidFutureException, \"The MPIFuture is not valid!\");\n      MPI_Wait(&req_, &status_);",
         "      if (!valid()) {\n        MPI_Wait(&req_, &status_);\n      } else {\n        DUNE_THROW(InvalidFutureException, \"The MPIFuture is not valid!\");\n      }")],
    "future: PseudoFuture helper tests the opposite": [
        (_F, "    T get() {\n      if(!valid_)\n        DUNE_THROW(InvalidFutureException, \"The PseudoFuture is not valid\");", "    T get() {\n      requireValid();"),
        (_F, "    bool valid() const {\n      return valid_;\n    }", "    bool valid() const {\n      return valid_;\n    }\n  private:\n    void requireValid() const {\n      if (valid_)\n        DUNE_THROW(InvalidFutureException, \"invalid\");\n    }")],
    "future: PseudoFuture helper is empty": [
        (_F, "    T get() {\n      if(!valid_)\n        DUNE_THROW(InvalidFutureException, \"The PseudoFuture is not valid\");", "    T get() {\n      requireValid();"),
        (_F, "    bool valid() const {\n      return valid_;\n    }", "    bool valid() const {\n      return valid_;\n    }\n  private:\n    void requireValid() const {}")],
    "mpicomm: request pointer to a local request": [
        ("dune/common/parallel/mpicommunication.hh", "      MPI_Isend(mpidata.ptr(), mpidata.size(), mpidata.type(),\n                       dest_rank, tag, communicator, &future.req_);",
         "      MPI_Request local;\n      MPI_Request* const request = &local;\n      MPI_Isend(mpidata.ptr(), mpidata.size(), mpidata.type(),\n                       dest_rank, tag, communicator, request);")],
    "mpicomm: request by value copy": [
        ("dune/common/parallel/mpicommunication.hh", "      MPI_Isend(mpidata.ptr(), mpidata.size(), mpidata.type(),\n                       dest_rank, tag, communicator, &future.req_);",
         "      auto request = future.req_;\n      MPI_Isend(mpidata.ptr(), mpidata.size(), mpidata.type(),\n                       dest_rank, tag, communicator, &request);")],
    "round four M6: Future::valid() is (bool)_future": [
        (_F, "      if(_future)\n        return _future->valid();\n      return false;", "      return (bool)_future;")],
    "round four M4: PseudoFuture<void>::wait() loses the validity test": [
        (_F, "    void wait(){\n      if(!valid_)\n        DUNE_THROW(InvalidFutureException, \"The PseudoFuture is not valid\");\n    }", "    void wait(){\n    }")],
    "round four M1: result>1": [(_G, "if (result>0 && was_active)", "if (result>1 && was_active)")],
    "future: PseudoFuture<T> with a second bool member used for valid()": [
        (_F, "    bool valid_;\n    T data_;", "    bool valid_;\n    bool taken_;\n    T data_;")],
    "future: PseudoFuture<T>::valid() returns the renamed OTHER member": [
        (_F, "    bool valid_;\n    T data_;", "    bool ok_;\n    T data_;"),
        (_F, "    bool valid() const {\n      return valid_;", "    bool valid() const {\n      return ok_;")],
    "future: valid() with the branches crossed": [
        (_F, "      if(_future)\n        return _future->valid();\n      return false;", "      return _future ? false : _future->valid();")],
    "future: valid() inverted guard without inverting the branches": [
        (_F, "      if(_future)\n        return _future->valid();\n      return false;", "      if (!_future) return _future->valid();\n      return false;")],
    "future: valid() as ||": [
        (_F, "      if(_future)\n        return _future->valid();\n      return false;", "      return _future || _future->valid();")],
    "future: valid() as && of the negated test": [
        (_F, "      if(_future)\n        return _future->valid();\n      return false;", "      return !_future && _future->valid();")],
    "future: valid() true for an empty future": [
        (_F, "      if(_future)\n        return _future->valid();\n      return false;", "      return _future ? _future->valid() : true;")],
    "future: valid() == nullptr test without inversion": [
        (_F, "      if(_future)\n        return _future->valid();\n      return false;", "      if (_future == nullptr) return _future->valid();\n      return false;")],
    "future: FutureModel forwards valid() to ready()": [(_F, "return _future.valid();", "return _future.ready();")],
    "future: FutureModel with two wrapped members": [(_F, "      F _future;\n    public:", "      F _future;\n      F other_;\n    public:")],
    "future: wait() loses the null test": [(_F, "      if(!_future)\n        DUNE_THROW(InvalidFutureException, \"The Future is not valid\");\n      _future->wait();", "      _future->wait();")],
}


def _selftest(repo):
    import shutil, tempfile
    files = (GUARD, MPIFUT, FUT, MPICOMM, SEQCOMM)
    base = translate(repo)[0][1]
    bad = 0
    for kind, cases in (("POS", _POS), ("NEG", _NEG)):
        for name, edits in cases.items():
            d = tempfile.mkdtemp(prefix="tr_c19_")
            try:
                for f in files:
                    os.makedirs(os.path.dirname(os.path.join(d, f)), exist_ok=True)
                    shutil.copy(os.path.join(repo, f), os.path.join(d, f))
                for f, a, b in edits:
                    t = open(os.path.join(d, f)).read()
                    if t.count(a) < 1:
                        raise SystemExit("selftest %r: edit text %r not found in %s (update the self test)" % (name, a[:40], f))
                    open(os.path.join(d, f), "w").write(t.replace(a, b))
                try:
                    got = translate(d)[0][1]
                except TranslateError as e:
                    got = "ERR " + str(e)
                if kind == "POS":
                    ok = not got.startswith("ERR") and (got == base or name.startswith("guard"))
                else:
                    ok = got.startswith("ERR") or got != base
                if not ok:
                    bad += 1
                print("%s %-4s %s%s" % ("ok  " if ok else "FAIL", kind, name, "  [" + got[:110] + "]" if got.startswith("ERR") else ""))
            finally:
                shutil.rmtree(d)
    print("selftest: %d POS, %d NEG, %d failed" % (len(_POS), len(_NEG), bad))
    return 1 if bad else 0


if __name__ == "__main__":
    import sys
    if "--selftest" in sys.argv:
        rest = [a for a in sys.argv[1:] if a != "--selftest"]
        sys.exit(_selftest(rest[0] if rest else "/repo"))
    for path, content in translate(sys.argv[1] if len(sys.argv) > 1 else "/repo"):
        print("--", path)
        print(content)
