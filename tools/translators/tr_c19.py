"""Translator for C19 (round four): regenerates lean/DuneVerif/Gen/C19.lean from the current source tree.

Part 1 - dune/common/parallel/mpiguard.hh, class MPIGuard: the bodies of `finalize(bool success = <default>)`,
`reactivate()` and `~MPIGuard()` are parsed statement by statement and re-emitted as Lean programs over
`DV.C19.Prog` (the collective `comm_->sum(e)` becomes `Prog.sum`, `DUNE_THROW(MPIGuardError, ..)` ends the program with
the flag "threw", a call of `finalize(..)` is sequenced with `Prog.bind` and propagates its exception), together with the
default argument of `finalize` and, for each of the four constructors, what `active_` is initialised with and the default
of the `active` parameter.  Props/C19.lean proves that the generated programs ARE the hand-written model the theorems
and the differential run speak about (`gen_guard_is_model`, `gen_guard_ctor_arms`).

Part 2 - dune/common/parallel/mpifuture.hh: the members of `MPIFuture<R,S>` the property speaks about are straight-line
code; each is read into a list of micro operations (`valid`, `wait`, `ready`, `get`, `get_send_data`, the three
`impl::Buffer<..>::get`, `operator bool`), `operator=(MPIFuture&&)` into the list of members it swaps and the move
constructor into (member initialisers, swaps).  Props/C19.lean proves that interpreting the lists gives the
hand-written state machines (`gen_future_is_model`, `gen_moves_are_model`).

Part 3 - dune/common/parallel/future.hh: `PseudoFuture<T>`, `PseudoFuture<void>` (micro-operation lists), the four
forwarders of `Future<T>::FutureModel<F>` and the null tests of `Future<T>` (`gen_pseudo_is_model`, `gen_erased_is_model`).

Part 4 - dune/common/parallel/mpicommunication.hh and communication.hh: for each non-blocking member (ibarrier,
ibroadcast, igather, iscatter, iallgather, both iallreduce, isend, irecv) which future it hands out: the arguments the
`MPIFuture` is constructed from (a validity flag, the forwarded payload parameter, or (receive, send) parameters), the one
`MPI_I*` call, which of the future's buffers (`get_mpidata()` = data_, `get_send_mpidata()` = send_data_, MPI_IN_PLACE) it is
given, whether the request is stored in `future.req_` and whether that future is returned; for the sequential members
the copies between the parameters and the parameter the `PseudoFuture` is made from (`gen_operations_start`).  Length
computations and assertions are skipped (C07's subject).

Grammar (anything else raises TranslateError = broken obligation, check.py then searches for a failing input):
* comments and preprocessor lines are dropped, whitespace is irrelevant, local variables may have any name;
* guard statements: `int|bool|auto [const] x = e;`, `x = e;`, `active_ = e;`, `x = comm_->sum(e);` (also as initialiser),
  `std::exchange(active_, e)` as initialiser, `if (e) S [else S]`, blocks, `finalize(..);`/`this->finalize(..);`,
  `DUNE_THROW(MPIGuardError, ..);`, `delete comm_;`, `return;`; expressions over int/bool with ?:, ||, &&, ==, !=, <, <=,
  >, >=, !, unary minus, +, -, parentheses, int->bool and bool->int conversions.  Commuted conditions, `result != 0` for
  `result>0`, other names, other layout translate to programs for which the same proofs go through;
* future members: one recognised micro operation per statement (see _FUT_STMT); an additional statement, a missing one or
  another order changes the list and with it the truth of the theorems.
"""
import os
import re


class TranslateError(Exception):
    pass


GUARD = "dune/common/parallel/mpiguard.hh"
MPIFUT = "dune/common/parallel/mpifuture.hh"
FUT = "dune/common/parallel/future.hh"


def _strip(src):
    src = re.sub(r"/\*.*?\*/", " ", src, flags=re.S)
    src = re.sub(r"//[^\n]*", "", src)
    return "\n".join(l for l in src.split("\n") if not l.lstrip().startswith("#"))


def _match(s, i, o, c):
    assert s[i] == o
    depth = 0
    while i < len(s):
        if s[i] == o:
            depth += 1
        elif s[i] == c:
            depth -= 1
            if depth == 0:
                return i + 1
        i += 1
    raise TranslateError("unbalanced %s%s" % (o, c))


def _ws(s, i):
    while i < len(s) and s[i].isspace():
        i += 1
    return i


def _class_body(src, rx, what):
    m = re.search(rx, src)
    if not m:
        raise TranslateError("%s not found" % what)
    i = src.index("{", m.end() - 1)
    return src[i + 1:_match(src, i, "{", "}") - 1]


def _fn(body, rx, what):
    """(match object, text between the braces of the function body) of the member whose head matches rx"""
    ms = list(re.finditer(rx, body))
    if len(ms) != 1:
        raise TranslateError("%s: %d definitions found" % (what, len(ms)))
    m = ms[0]
    i = _ws(body, m.end())
    # constructor initialiser lists are handled by the caller; here the body must follow
    if body[i] != "{":
        raise TranslateError("%s: body expected, found %r" % (what, body[i:i + 20]))
    return m, body[i + 1:_match(body, i, "{", "}") - 1]


# ------------------------------------------------------------------------------------------------ statements

def _split_stmts(s):
    """parse a statement sequence into a tree: ('simple', text) | ('if', cond, then, else|None) | ('block', [..])"""
    out = []
    i = 0
    while True:
        i = _ws(s, i)
        if i >= len(s):
            return out
        st, i = _one_stmt(s, i)
        if st is not None:
            out.append(st)


def _one_stmt(s, i):
    i = _ws(s, i)
    if s[i] == ";":
        return None, i + 1
    if s[i] == "{":
        j = _match(s, i, "{", "}")
        return ("block", _split_stmts(s[i + 1:j - 1])), j
    m = re.match(r"(if|else|for|while|do|switch|try|catch|goto|case)\b", s[i:])
    if m:
        kw = m.group(1)
        if kw != "if":
            raise TranslateError("`%s` is outside the translator's grammar" % kw)
        k = _ws(s, i + 2)
        if s[k:k + 9] == "constexpr":
            raise TranslateError("`if constexpr` is outside the translator's grammar")
        if s[k] != "(":
            raise TranslateError("( expected after if")
        e = _match(s, k, "(", ")")
        cond = s[k + 1:e - 1]
        th, j = _one_stmt(s, e)
        k2 = _ws(s, j)
        el = None
        if re.match(r"else\b", s[k2:]):
            el, j = _one_stmt(s, k2 + 4)
        return ("if", cond, [th] if th else [], ([el] if el else []) if el is not None or re.match(r"else\b", s[k2:]) else None), j
    depth, k = 0, i
    while k < len(s):
        if s[k] in "({[":
            depth += 1
        elif s[k] in ")}]":
            depth -= 1
        elif s[k] == ";" and depth == 0:
            break
        k += 1
    if k >= len(s):
        raise TranslateError("statement without ';': %r" % s[i:i + 40])
    return ("simple", " ".join(s[i:k].split())), k + 1


# ------------------------------------------------------------------------------------------------ expressions

_TOK = re.compile(r"\s*(std::exchange|comm_->sum|this->|[A-Za-z_]\w*|\d+|==|!=|>=|<=|&&|\|\||[?:!<>()+\-,])")


def _tokens(e):
    out, i = [], 0
    e = e.strip()
    while i < len(e):
        m = _TOK.match(e, i)
        if not m:
            raise TranslateError("cannot tokenise expression %r at %r" % (e, e[i:i + 10]))
        out.append(m.group(1))
        i = m.end()
    return out


class _Expr:
    """typed recursive descent; result (lean text, 'int'|'bool')"""

    def __init__(self, toks, env):
        self.t, self.i, self.env = toks, 0, env

    def peek(self):
        return self.t[self.i] if self.i < len(self.t) else None

    def eat(self, x=None):
        tok = self.peek()
        if tok is None or (x is not None and tok != x):
            raise TranslateError("expression: expected %r, found %r in %r" % (x, tok, " ".join(self.t)))
        self.i += 1
        return tok

    def full(self):
        r = self.ternary()
        if self.peek() is not None:
            raise TranslateError("expression: trailing %r in %r" % (self.peek(), " ".join(self.t)))
        return r

    def ternary(self):
        c = self.lor()
        if self.peek() == "?":
            self.eat()
            a = self.ternary()
            self.eat(":")
            b = self.ternary()
            ty = a[1] if a[1] == b[1] else "int"
            return ("(if %s then %s else %s)" % (_as(c, "bool"), _as(a, ty), _as(b, ty)), ty)
        return c

    def lor(self):
        a = self.land()
        while self.peek() == "||":
            self.eat()
            b = self.land()
            a = ("(%s || %s)" % (_as(a, "bool"), _as(b, "bool")), "bool")
        return a

    def land(self):
        a = self.equality()
        while self.peek() == "&&":
            self.eat()
            b = self.equality()
            a = ("(%s && %s)" % (_as(a, "bool"), _as(b, "bool")), "bool")
        return a

    def equality(self):
        a = self.rel()
        while self.peek() in ("==", "!="):
            op = self.eat()
            b = self.rel()
            ty = a[1] if a[1] == b[1] else "int"
            a = ("(%s %s %s)" % (_as(a, ty), op, _as(b, ty)), "bool")
        return a

    def rel(self):
        a = self.add()
        while self.peek() in ("<", ">", "<=", ">="):
            op = self.eat()
            b = self.add()
            a = ("decide (%s %s %s)" % (_as(a, "int"), {"<=": "≤", ">=": "≥"}.get(op, op), _as(b, "int")), "bool")
            a = ("(%s)" % a[0], "bool")
        return a

    def add(self):
        a = self.unary()
        while self.peek() in ("+", "-"):
            op = self.eat()
            b = self.unary()
            a = ("(%s %s %s)" % (_as(a, "int"), op, _as(b, "int")), "int")
        return a

    def unary(self):
        if self.peek() == "!":
            self.eat()
            a = self.unary()
            return ("(!%s)" % _as(a, "bool"), "bool")
        if self.peek() == "-":
            self.eat()
            a = self.unary()
            return ("(-%s)" % _as(a, "int"), "int")
        return self.primary()

    def primary(self):
        tok = self.eat()
        if tok == "(":
            # a C-style cast (bool)x / (int)x or a parenthesised expression
            if self.peek() in ("bool", "int") and self.t[self.i + 1:self.i + 2] == [")"]:
                ty = self.eat()
                self.eat(")")
                a = self.unary()
                return (_as(a, ty), ty)
            r = self.ternary()
            self.eat(")")
            return r
        if tok == "this->":
            return self.primary()
        if tok == "true":
            return ("true", "bool")
        if tok == "false":
            return ("false", "bool")
        if tok.isdigit():
            return ("(%s : Int)" % tok, "int")
        if tok == "active_":
            return ("g.active", "bool")
        if tok in self.env:
            return ("v_" + tok, self.env[tok])
        raise TranslateError("expression: unknown name %r in %r" % (tok, " ".join(self.t)))


def _as(e, ty):
    if e[1] == ty:
        return e[0]
    if ty == "bool":
        return "(%s != 0)" % e[0]
    return "(if %s then (1 : Int) else 0)" % e[0]


def _expr(text, env):
    return _Expr(_tokens(text), env).full()


# ------------------------------------------------------------------------------------------------ guard programs

_LTY = {"int": "Int", "bool": "Bool"}


def _flatten(stmts):
    out = []
    for st in stmts:
        if st[0] == "block":
            out.append(("block", _flatten(st[1])))
        elif st[0] == "if":
            out.append(("if", st[1], _flatten(st[2]), _flatten(st[3]) if st[3] is not None else None))
        else:
            out.append(st)
    return out


def _prog(stmts, env, ind, fin_default):
    """Lean term for the statement list `stmts` followed by the normal end of the function"""
    pad = "  " * ind
    if not stmts:
        return pad + "Prog.ret (g, false)"
    st, rest = stmts[0], stmts[1:]
    if st[0] == "block":
        # declarations of the block stay visible; harmless for the accepted programs (names are unique per function or
        # shadow with the same meaning), rejected otherwise
        return _prog(list(st[1]) + list(rest), env, ind, fin_default)
    if st[0] == "if":
        c = _as(_expr(st[1], env), "bool")
        th = _prog(list(st[2]) + list(rest), dict(env), ind + 1, fin_default)
        el = _prog(list(st[3] or []) + list(rest), dict(env), ind + 1, fin_default)
        return "%sif %s then (\n%s)\n%selse (\n%s)" % (pad, c, th, pad, el)
    t = st[1]
    if t == "return":
        return pad + "Prog.ret (g, false)"
    if re.match(r"delete\s+comm_$", t):
        return _prog(rest, env, ind, fin_default)
    m = re.match(r"DUNE_THROW\s*\(\s*(\w+)\s*,", t)
    if m:
        if m.group(1) != "MPIGuardError":
            raise TranslateError("guard throws %s instead of MPIGuardError" % m.group(1))
        return pad + "Prog.ret (g, true)"
    if t.startswith("throw"):
        raise TranslateError("throw statement outside DUNE_THROW(MPIGuardError, ..): %r" % t)
    m = re.match(r"(?:this->)?finalize\s*\((.*)\)$", t)
    if m:
        arg = m.group(1).strip()
        a = fin_default if arg == "" else _as(_expr(arg, env), "bool")
        if a is None:
            raise TranslateError("finalize() called without argument but no default argument was found")
        return ("%s(finalize g %s).bind fun r_ => if r_.2 then Prog.ret (r_.1, true) else\n%slet g : Guard := r_.1\n%s"
                % (pad, a, pad, _prog(rest, env, ind, fin_default)))
    # declaration or assignment
    m = re.match(r"(?:(const\s+)?(int|bool|auto)(\s+const)?\s+)?(\w+)\s*=\s*(.*)$", t)
    if not m:
        raise TranslateError("guard statement outside the grammar: %r" % t)
    decl, name, rhs = m.group(2), m.group(4), m.group(5).strip()
    if decl is None and name != "active_" and name not in env:
        raise TranslateError("assignment to unknown variable %r" % name)
    ms = re.match(r"comm_->sum\s*\((.*)\)$", rhs)
    mx = re.match(r"std::exchange\s*\(\s*active_\s*,(.*)\)$", rhs)
    if ms:
        if name == "active_":
            raise TranslateError("sum assigned to active_")
        e = _as(_expr(ms.group(1), env), "int")
        ty = decl if decl in ("int", "bool") else env.get(name, "int")
        env[name] = ty
        conv = "Int.ofNat s_" if ty == "int" else "decide (s_ ≠ 0)"
        return ("%sProg.sum (Int.toNat %s) fun s_ =>\n%slet v_%s : %s := %s\n%s"
                % (pad, e, pad, name, _LTY[ty], conv, _prog(rest, env, ind, fin_default)))
    if mx:
        if name == "active_":
            raise TranslateError("exchange assigned to active_")
        e = _as(_expr(mx.group(1), env), "bool")
        ty = decl if decl in ("int", "bool") else env.get(name, "bool")
        env[name] = ty
        return ("%slet v_%s : %s := %s\n%slet g : Guard := { g with active := %s }\n%s"
                % (pad, name, _LTY[ty], _as(("g.active", "bool"), ty), pad, e, _prog(rest, env, ind, fin_default)))
    ex = _expr(rhs, env)
    if name == "active_":
        if decl:
            raise TranslateError("declaration shadows active_")
        return "%slet g : Guard := { g with active := %s }\n%s" % (pad, _as(ex, "bool"), _prog(rest, env, ind, fin_default))
    ty = decl if decl in ("int", "bool") else (ex[1] if decl == "auto" else env[name])
    env[name] = ty
    return "%slet v_%s : %s := %s\n%s" % (pad, name, _LTY[ty], _as(ex, ty), _prog(rest, env, ind, fin_default))


def _guard(repo):
    src = _strip(open(os.path.join(repo, GUARD)).read())
    body = _class_body(src, r"\bclass\s+MPIGuard\s*\{", "class MPIGuard")
    # finalize
    m, fb = _fn(body, r"\bvoid\s+finalize\s*\(\s*(?:const\s+)?bool\s+(\w+)\s*(?:=\s*(\w+)\s*)?\)", "MPIGuard::finalize")
    param, dflt = m.group(1), m.group(2)
    if dflt not in (None, "true", "false"):
        raise TranslateError("finalize: default argument %r" % dflt)
    fin = _prog(_flatten(_split_stmts(fb)), {param: "bool"}, 1, None)
    _, rb = _fn(body, r"\bvoid\s+reactivate\s*\(\s*\)", "MPIGuard::reactivate")
    rea = _prog(_flatten(_split_stmts(rb)), {}, 1, dflt)
    _, db = _fn(body, r"~\s*MPIGuard\s*\(\s*\)\s*(?:noexcept\s*(?:\(\s*false\s*\))?)?", "MPIGuard::~MPIGuard")
    des = _prog(_flatten(_split_stmts(db)), {}, 1, dflt)
    # constructors: MPIGuard (<params>, bool active=<d>) : comm_(..), active_(<e>) {}
    ctors = []
    for mc in re.finditer(r"(?<![~\w])MPIGuard\s*\(", body):
        e = _match(body, mc.end() - 1, "(", ")")
        params = body[mc.end():e - 1]
        k = _ws(body, e)
        if body[k] == ";":
            continue  # the private, undefined copy constructor
        if body[k] != ":":
            raise TranslateError("constructor without initialiser list: %r" % params)
        j = body.index("{", k)
        # initialisers may contain parentheses; find active_( .. )
        inits = body[k + 1:j]
        ma = re.search(r"\bactive_\s*[({]", inits)
        if not ma:
            raise TranslateError("constructor does not initialise active_: %r" % params)
        ae = _match(inits, ma.end() - 1, inits[ma.end() - 1], ")" if inits[ma.end() - 1] == "(" else "}")
        init = inits[ma.end():ae - 1].strip()
        cb = body[j + 1:_match(body, j, "{", "}") - 1].strip()
        if cb:
            raise TranslateError("constructor with a non-empty body: %r" % cb[:60])
        mp = re.search(r"\bbool\s+(\w+)\s*(?:=\s*(\w+))?\s*$", params.strip())
        if not mp:
            raise TranslateError("constructor without trailing bool parameter: %r" % params)
        pd = mp.group(2)
        if pd not in (None, "true", "false"):
            raise TranslateError("constructor default %r" % pd)
        ex = _as(_expr(init, {mp.group(1): "bool"}), "bool")
        first = params.split(",")[0].strip() if "," in params else ""
        ctors.append((" ".join(first.split()), mp.group(1), pd, ex))
    if len(ctors) < 4:
        raise TranslateError("expected the four constructors of MPIGuard, found %d" % len(ctors))
    out = ["/-! ### MPIGuard (mpiguard.hh) -/", "namespace Guard",
           "/-- `void finalize(bool %s%s)` -/" % (param, " = " + dflt if dflt else ""),
           "def finalize (g : Guard) (v_%s : Bool) : Prog (Guard × Bool) :=\n%s" % (param, fin),
           "/-- the default argument of `finalize` (`none`: there is none) -/",
           "def finalizeDefaultArg : Option Bool := %s" % ("none" if dflt is None else "some " + dflt),
           "/-- `void reactivate()` -/",
           "def reactivate (g : Guard) : Prog (Guard × Bool) :=\n%s" % rea,
           "/-- `~MPIGuard()` -/",
           "def destroy (g : Guard) : Prog (Guard × Bool) :=\n%s" % des,
           "/-- per constructor: what `active_` is initialised with, as a function of the parameter `active` -/",
           "def ctorActive : List (Bool → Bool) := [%s]" % ", ".join("fun v_%s => %s" % (c[1], c[3]) for c in ctors),
           "/-- per constructor: the default of the parameter `active` -/",
           "def ctorDefault : List (Option Bool) := [%s]" % ", ".join("none" if c[2] is None else "some " + c[2] for c in ctors),
           "end Guard"]
    return out


# ------------------------------------------------------------------------------------------------ futures

_ID = r"[A-Za-z_]\w*"
# statement patterns of the future classes -> micro operation.  Patterns are token sequences (the statement is split
# into identifiers, numbers and punctuation, joined by single blanks); `@` is a local name (must agree inside one body),
# a trailing `...` matches the rest (exception messages).
_FUT_STMT = [
    ("if ( ! valid ( ) ) DUNE_THROW ( InvalidFutureException , ...", "throwIfInvalidCall"),
    ("if ( ! valid_ ) DUNE_THROW ( InvalidFutureException , ...", "throwIfInvalidFlag"),
    ("if ( ! _future ) DUNE_THROW ( InvalidFutureException , ...", "throwIfNull"),
    ("MPI_Wait ( & req_ , & status_ )", "mpiWait"),
    ("int @ = - 1", "declFlag"),
    ("MPI_Test ( & req_ , & @ , & status_ )", "mpiTest"),
    ("return @", "retLocal"),
    ("wait ( )", "callWait"),
    ("return data_ . get ( )", "retTakeData"),
    ("return send_data_ . get ( )", "retTakeSend"),
    ("return ( bool ) data_", "retDataValid"),
    ("return static_cast < bool > ( data_ )", "retDataValid"),
    ("return bool ( data_ )", "retDataValid"),
    ("return valid_", "retFlagValid"),
    ("return true", "retTrue"),
    ("return false", "retFalse"),
    ("valid_ = false", "clearFlag"),
    ("return std::forward < T > ( data_ )", "retData"),
    ("return std::move ( data_ )", "retData"),
    ("T @ = std::move ( * value )", "moveOut"),
    ("T & @ = * value", "moveOut"),
    ("value . reset ( )", "reset"),
    ("value = nullptr", "reset"),
    ("value = std::nullopt", "reset"),
    ("return ( bool ) value", "retHasValue"),
    ("return value != nullptr", "retHasValue"),
    ("return value . has_value ( )", "retHasValue"),
    ("return static_cast < bool > ( value )", "retHasValue"),
    ("_future . wait ( )", "fwdWait"),
    ("return _future . ready ( )", "fwdReady"),
    ("return _future . valid ( )", "fwdValid"),
    ("return ( T ) _future . get ( )", "fwdGet"),
    ("return static_cast < T > ( _future . get ( ) )", "fwdGet"),
    ("_future -> wait ( )", "ptrWait"),
    ("return _future -> get ( )", "ptrGet"),
    ("return _future -> ready ( )", "ptrReady"),
    ("if ( _future ) return _future -> valid ( )", "ifPtrRetValid"),
]
_KEYWORDS = {"true", "false", "valid_", "data_", "send_data_", "value", "_future", "req_", "status_", "this", "nullptr"}


def _compile(p):
    parts = []
    for tok in p.split(" "):
        if tok == "@":
            parts.append("(%s)" % _ID)
        elif tok == "...":
            parts.append(".*")
        else:
            parts.append(re.escape(tok))
    return re.compile(" ".join(parts) + "$")


_FUT_RX = [(_compile(p), op) for p, op in _FUT_STMT]
_NTOK = re.compile(r"\s*(std::\w+|[A-Za-z_]\w*|\d+|->|==|!=|&&|\|\||.)", re.S)


def _norm(t):
    """token sequence joined by single blanks"""
    out, i = [], 0
    t = t.strip()
    while i < len(t):
        m = _NTOK.match(t, i)
        out.append(m.group(1))
        i = m.end()
    return " ".join(x for x in out if not x.isspace())


def _micro_of(stmt_tree, what):
    ops, names = [], {}
    for st in stmt_tree:
        if st[0] == "block":
            ops += _micro_of(st[1], what)
            continue
        if st[0] == "if":
            if st[3] is not None or len(st[2]) != 1 or st[2][0][0] != "simple":
                raise TranslateError("%s: if-statement outside the grammar" % what)
            text = "if ( %s ) %s" % (st[1], st[2][0][1])
        else:
            text = st[1]
        t = _norm(text)
        for rx, op in _FUT_RX:
            m = rx.match(t)
            if m and m.groups() and m.group(1) in _KEYWORDS:
                m = None
            if m:
                if op in ("declFlag", "moveOut"):
                    names["local"] = m.group(1)
                    if op == "declFlag":
                        op = None
                elif op in ("mpiTest", "retLocal"):
                    if names.get("local") != m.group(1):
                        raise TranslateError("%s: %r uses an undeclared local" % (what, text))
                if op:
                    ops.append(op)
                break
        else:
            raise TranslateError("%s: statement outside the grammar: %r" % (what, text))
    return ops


def _member(body, rx, what):
    _, b = _fn(body, rx, what)
    return _micro_of(_split_stmts(b), what)


def _lean_ops(ops):
    return "[" + ", ".join("." + o for o in ops) + "]"


def _swaps(text, what):
    out = []
    for st in _split_stmts(text):
        if st[0] != "simple":
            raise TranslateError("%s: control flow in a move operation" % what)
        t = _norm(st[1])
        m = re.match(r"(?:using std::swap|return \* this)$", t)
        if m:
            continue
        m = re.match(r"(?:std::)?swap \( ?(\w+) ?, ?(\w+) ?\. ?(\w+) ?\)$", t)
        if not m or m.group(1) != m.group(3):
            raise TranslateError("%s: statement outside the grammar: %r" % (what, st[1]))
        out.append(m.group(1))
    return out


_FIELD = {"req_": "req", "status_": "status", "data_": "data", "send_data_": "sendData"}


def _fields(names, what):
    for n in names:
        if n not in _FIELD:
            raise TranslateError("%s: unknown member %r" % (what, n))
    return "[" + ", ".join("." + _FIELD[n] for n in names) + "]"


def _mpifuture(repo):
    src = _strip(open(os.path.join(repo, MPIFUT)).read())
    out = ["/-! ### impl::Buffer and MPIFuture (mpifuture.hh) -/", "namespace MpiFuture"]
    # the three buffers
    bufs = [(r"template\s*<\s*class\s+T\s*>\s*struct\s+Buffer\s*\{", "bufferValue", r"\bT\s+get\s*\(\s*\)"),
            (r"template\s*<\s*class\s+T\s*>\s*struct\s+Buffer\s*<\s*T\s*&\s*>\s*\{", "bufferRef", r"\bT\s*&\s*get\s*\(\s*\)"),
            (r"template\s*<\s*>\s*struct\s+Buffer\s*<\s*void\s*>\s*\{", "bufferVoid", r"\bvoid\s+get\s*\(\s*\)")]
    for rx, name, getrx in bufs:
        b = _class_body(src, rx, name)
        out.append("def %sGet : List Micro := %s" % (name, _lean_ops(_member(b, getrx, name + "::get"))))
        out.append("def %sBool : List Micro := %s"
                   % (name, _lean_ops(_member(b, r"\boperator\s+bool\s*\(\s*\)\s*const", name + "::operator bool"))))
    body = _class_body(src, r"\bclass\s+MPIFuture\s*\{", "class MPIFuture")
    for name, rx in (("valid", r"\bbool\s+valid\s*\(\s*\)\s*const"), ("wait", r"\bvoid\s+wait\s*\(\s*\)"),
                     ("ready", r"\bbool\s+ready\s*\(\s*\)\s*const"), ("get", r"\bR\s+get\s*\(\s*\)"),
                     ("getSendData", r"\bS\s+get_send_data\s*\(\s*\)")):
        out.append("def %s : List Micro := %s" % (name, _lean_ops(_member(body, rx, "MPIFuture::" + name))))
    # move assignment
    m, ab = _fn(body, r"\bMPIFuture\s*&\s*operator\s*=\s*\(\s*MPIFuture\s*&&\s*(\w+)\s*\)(?:\s*noexcept)?", "MPIFuture::operator=")
    out.append("/-- the members `operator=(MPIFuture&&)` swaps, in order -/")
    out.append("def assignSwaps : List Field := %s" % _fields(_swaps(ab, "MPIFuture::operator="), "operator="))
    # move constructor: MPIFuture(MPIFuture&& f) : inits { swaps }
    mc = re.search(r"(?<![~\w])MPIFuture\s*\(\s*MPIFuture\s*&&\s*(\w+)\s*\)(?:\s*noexcept)?\s*:", body)
    if not mc:
        raise TranslateError("MPIFuture move constructor not found")
    j = body.index("{", mc.end())
    inits = body[mc.end():j]
    f = mc.group(1)
    moved, nulled = [], []
    for it in re.finditer(r"(\w+)\s*[({]([^(){}]*(?:\([^()]*\)[^(){}]*)*)[)}]\s*(?:,|$)", inits.strip()):
        mem, arg = it.group(1), _norm(it.group(2))
        if re.match(r"std::move \( ?%s ?\. ?%s ?\)$" % (f, mem), arg):
            moved.append(mem)
        elif arg == "MPI_REQUEST_NULL" and mem == "req_":
            nulled.append(mem)
        else:
            raise TranslateError("move constructor: initialiser %s(%s) outside the grammar" % (mem, it.group(2)))
    cb = body[j + 1:_match(body, j, "{", "}") - 1]
    out.append("/-- move constructor: members initialised with `std::move(f.member)`, members set to MPI_REQUEST_NULL, then swaps -/")
    out.append("def ctorMoved : List Field := %s" % _fields(moved, "move constructor"))
    out.append("def ctorNulled : List Field := %s" % _fields(nulled, "move constructor"))
    out.append("def ctorSwaps : List Field := %s" % _fields(_swaps(cb, "move constructor"), "move constructor"))
    out.append("end MpiFuture")
    return out


def _future(repo):
    src = _strip(open(os.path.join(repo, FUT)).read())
    out = ["/-! ### PseudoFuture<T>, PseudoFuture<void>, Future<T> (future.hh) -/"]
    pt = _class_body(src, r"template\s*<\s*class\s+T\s*>\s*class\s+PseudoFuture\s*\{", "PseudoFuture<T>")
    pv = _class_body(src, r"template\s*<\s*>\s*class\s+PseudoFuture\s*<\s*void\s*>\s*\{", "PseudoFuture<void>")
    for ns, b, getrx in (("PseudoT", pt, r"\bT\s+get\s*\(\s*\)"), ("PseudoV", pv, r"\bvoid\s+get\s*\(\s*\)")):
        out.append("namespace %s" % ns)
        for name, rx in (("valid", r"\bbool\s+valid\s*\(\s*\)\s*const"), ("wait", r"\bvoid\s+wait\s*\(\s*\)"),
                         ("ready", r"\bbool\s+ready\s*\(\s*\)\s*const"), ("get", getrx)):
            out.append("def %s : List Micro := %s" % (name, _lean_ops(_member(b, rx, "%s::%s" % (ns, name)))))
        out.append("end %s" % ns)
    fut = _class_body(src, r"template\s*<\s*class\s+T\s*>\s*class\s+Future\s*\{", "Future<T>")
    model = _class_body(fut, r"\bclass\s+FutureModel\s*:\s*public\s+FutureBase\s*\{", "Future<T>::FutureModel")
    out.append("namespace ErasedModel")
    for name, rx in (("valid", r"\bbool\s+valid\s*\(\s*\)\s*const(?:\s+override)?"), ("wait", r"\bvoid\s+wait\s*\(\s*\)(?:\s*override)?"),
                     ("ready", r"\bbool\s+ready\s*\(\s*\)\s*const(?:\s+override)?"), ("get", r"\bT\s+get\s*\(\s*\)(?:\s*override)?")):
        out.append("def %s : List Micro := %s" % (name, _lean_ops(_member(model, rx, "FutureModel::" + name))))
    out.append("end ErasedModel")
    # the outer class: remove the nested classes first
    outer = fut
    for rx in (r"\bclass\s+FutureBase\s*\{", r"\bclass\s+FutureModel\s*:\s*public\s+FutureBase\s*\{"):
        m = re.search(rx, outer)
        i = outer.index("{", m.end() - 1)
        outer = outer[:m.start()] + outer[_match(outer, i, "{", "}"):]
    out.append("namespace Erased")
    for name, rx in (("valid", r"\bbool\s+valid\s*\(\s*\)\s*const"), ("wait", r"\bvoid\s+wait\s*\(\s*\)"),
                     ("ready", r"\bbool\s+ready\s*\(\s*\)\s*const"), ("get", r"\bT\s+get\s*\(\s*\)")):
        out.append("def %s : List Micro := %s" % (name, _lean_ops(_member(outer, rx, "Future::" + name))))
    out.append("end Erased")
    return out


# ------------------------------------------------------------------------------------------------ operations
# Part 4 (round four, second step): the non-blocking members of Communication<MPI_Comm> (mpicommunication.hh) and of the
# sequential Communication<C> (communication.hh), as far as the *future they return* is concerned.

MPICOMM = "dune/common/parallel/mpicommunication.hh"
SEQCOMM = "dune/common/parallel/communication.hh"

_NB = ["ibarrier", "ibroadcast", "igather", "iscatter", "iallgather", "iallreduce", "isend", "irecv"]


def _params(text):
    """names of the parameters of a parameter list (attributes removed)"""
    text = re.sub(r"\[\[[^\]]*\]\]", " ", text)
    out = []
    for p in _top_split(text):
        p = p.split("=")[0].strip()
        m = re.search(r"(\w+)\s*$", p)
        if p and m:
            out.append(m.group(1))
    return out


def _top_split(s):
    out, depth, cur = [], 0, ""
    s = s.replace("->", "→")
    for ch in s:
        if ch in "(<[{":
            depth += 1
        elif ch in ")>]}":
            depth -= 1
        if ch == "," and depth == 0:
            out.append(cur.strip())
            cur = ""
        else:
            cur += ch
    if cur.strip():
        out.append(cur.strip())
    return [a.replace("→", "->") for a in out]


def _members(body, name):
    """all definitions `name(params) [const] { body }` at the top level of a class body: [(params, body text)]"""
    out = []
    for m in re.finditer(r"(?<![\w~.>:])%s\s*\(" % name, body):
        e = _match(body, m.end() - 1, "(", ")")
        k = _ws(body, e)
        mm = re.match(r"const\b", body[k:])
        if mm:
            k = _ws(body, k + 5)
        if k < len(body) and body[k] == "{":
            # only definitions, not calls: the text before the name must end a declarator (a type), i.e. `>` or a word
            pre = body[:m.start()].rstrip()
            if pre.endswith(("return", "=", "(", ",", ";", "{", "}")):
                continue
            out.append((body[m.end():e - 1], body[k + 1:_match(body, k, "{", "}") - 1]))
    return out


def _fwd_param(arg, params, what):
    """index of the parameter that `arg` forwards (std::forward<..>(p), std::move(p) or p itself)"""
    t = _norm(arg)
    m = re.match(r"(?:std::forward < .* > \( (\w+) \)|std::move \( (\w+) \)|(\w+))$", t)
    if not m:
        raise TranslateError("%s: argument %r is not a forwarded parameter" % (what, arg))
    p = m.group(1) or m.group(2) or m.group(3)
    if p not in params:
        raise TranslateError("%s: %r is not a parameter" % (what, p))
    return params.index(p)


def _mpi_op(params_text, body, what):
    params = _params(params_text)
    stmts = _split_stmts(body)
    fut, ctor, call, bufs, req_ok, returns, kinds, threw = None, None, None, [], False, False, {}, False
    for idx, st in enumerate(stmts):
        if st[0] == "if":
            # irecv: `if (mpidata.size() == 0) DUNE_THROW(ParallelError, ..)` before the operation is posted
            if call is None and len(st[2]) == 1 and st[2][0][0] == "simple" and st[2][0][1].startswith("DUNE_THROW") and st[3] is None:
                threw = True
                continue
            raise TranslateError("%s: control flow outside the grammar" % what)
        if st[0] != "simple":
            raise TranslateError("%s: block outside the grammar" % what)
        t = st[1]
        m = re.match(r"MPIFuture\s*<.*?>\s+(\w+)\s*[({](.*)[)}]$", t)
        if m and fut is None:
            fut = m.group(1)
            args = _top_split(m.group(2))
            if len(args) == 1 and args[0] in ("true", "false"):
                ctor = ".flag %s" % args[0]
            elif len(args) == 1:
                ctor = ".one %d" % _fwd_param(args[0], params, what)
            elif len(args) == 2:
                ctor = ".two %d %d" % (_fwd_param(args[0], params, what), _fwd_param(args[1], params, what))
            else:
                raise TranslateError("%s: future constructed from %d arguments" % (what, len(args)))
            continue
        m = re.match(r"auto\s+(\w+)\s*=\s*(\w+)\s*\.\s*(get_mpidata|get_send_mpidata)\s*\(\s*\)$", t)
        if m:
            if m.group(2) != fut:
                raise TranslateError("%s: MPI data taken from %r, not from the future" % (what, m.group(2)))
            kinds[m.group(1)] = "data" if m.group(3) == "get_mpidata" else "sendData"
            continue
        m = re.match(r"(MPI_I\w+)\s*\((.*)\)$", t)
        if m:
            if call is not None:
                raise TranslateError("%s: more than one operation is posted" % what)
            call = m.group(1)
            args = _top_split(m.group(2))
            for a in args:
                a1 = "".join(a.split())
                mp = re.match(r"(\w+)\.ptr\(\)$", a1)
                if mp:
                    if mp.group(1) not in kinds:
                        raise TranslateError("%s: buffer %r of unknown origin" % (what, mp.group(1)))
                    bufs.append("." + kinds[mp.group(1)])
                elif a1 == "MPI_IN_PLACE":
                    bufs.append(".inPlace")
            req_ok = "".join(args[-1].split()) == "&%s.req_" % fut
            continue
        m = re.match(r"return\s+(.*)$", t)
        if m:
            if idx != len(stmts) - 1:
                raise TranslateError("%s: return before the end" % what)
            returns = m.group(1).strip() == fut or "".join(m.group(1).split()) == "std::move(%s)" % fut
            continue
        if re.match(r"(assert\s*\(|(?:const\s+)?int\s+\w+\s*=)", t):
            continue  # length computations and assertions: C07's subject
        raise TranslateError("%s: statement outside the grammar: %r" % (what, t))
    if fut is None or call is None:
        raise TranslateError("%s: no future / no posted operation found" % what)
    return ('{ name := "%s", arity := %d, ctor := %s, call := "%s", bufs := [%s], reqInFuture := %s, returnsFuture := %s }'
            % (what.split("::")[-1], len(params), ctor, call, ", ".join(bufs), "true" if req_ok else "false",
               "true" if returns else "false"))


def _seq_op(params_text, body, what):
    params = _params(params_text)
    stmts = _split_stmts(body)
    copies, ret = [], None
    for idx, st in enumerate(stmts):
        if st[0] != "simple":
            raise TranslateError("%s: control flow outside the grammar" % what)
        t = _norm(st[1])
        m = re.match(r"return \{ (.*) \}$", t)
        if m:
            if idx != len(stmts) - 1:
                raise TranslateError("%s: return before the end" % what)
            a = m.group(1)
            ret = ".flag %s" % a if a in ("true", "false") else ".one %d" % _fwd_param(a, params, what)
            continue
        if t.startswith("DUNE_THROW"):
            return None  # isend/irecv of the sequential communicator: not supported, no future
        # data_out = fwd(data_in) | *(data_out.begin()) = fwd(data_in) | data_out = *(fwd(data_in).begin())
        m = re.match(r"(\* \( )?(\w+)( \. begin \( \) \))? = (\* \( )?(std::forward < \w+ > \( \w+ \)|\w+)( \. begin \( \) \))?$", t)
        if not m or bool(m.group(1)) != bool(m.group(3)) or bool(m.group(4)) != bool(m.group(6)):
            raise TranslateError("%s: statement outside the grammar: %r" % (what, st[1]))
        dst = params.index(m.group(2)) if m.group(2) in params else None
        if dst is None:
            raise TranslateError("%s: assignment to %r" % (what, m.group(2)))
        src = _fwd_param(m.group(5), params, what)
        copies.append("{ dst := %d, dstFirst := %s, src := %d, srcFirst := %s }"
                      % (dst, "true" if m.group(1) else "false", src, "true" if m.group(4) else "false"))
    if ret is None:
        raise TranslateError("%s: no return statement" % what)
    return ('{ name := "%s", arity := %d, copies := [%s], ret := %s }'
            % (what.split("::")[-1], len(params), ", ".join(copies), ret))


def _operations(repo):
    out = ["/-! ### the non-blocking members: which future they hand out (mpicommunication.hh, communication.hh) -/", "namespace Ops"]
    src = _strip(open(os.path.join(repo, MPICOMM)).read())
    body = _class_body(src, r"\bclass\s+Communication\s*<\s*MPI_Comm\s*>\s*\{", "Communication<MPI_Comm>")
    rows = []
    for n in _NB:
        defs = _members(body, n)
        if not defs:
            raise TranslateError("Communication<MPI_Comm>::%s not found" % n)
        for p, b in defs:
            rows.append(_mpi_op(p, b, "Communication<MPI_Comm>::" + n))
    out.append("def mpi : List MpiOp := [\n  %s]" % ",\n  ".join(rows))
    src = _strip(open(os.path.join(repo, SEQCOMM)).read())
    body = _class_body(src, r"\bclass\s+Communication\s*\{", "Communication<C>")
    rows = []
    for n in _NB:
        for p, b in _members(body, n):
            r = _seq_op(p, b, "Communication::" + n)
            if r:
                rows.append(r)
    out.append("def seq : List SeqOp := [\n  %s]" % ",\n  ".join(rows))
    out.append("end Ops")
    return out


def translate(repo):
    out = ["-- GENERATED by tools/translators/tr_c19.py from %s, %s, %s, %s, %s -- do not edit" % (GUARD, MPIFUT, FUT, MPICOMM, SEQCOMM),
           "import DuneVerif.Model.C19",
           "namespace DV.C19.Gen",
           "open DV.C19"]
    out += _guard(repo)
    out += _mpifuture(repo)
    out += _future(repo)
    out += _operations(repo)
    out += ["end DV.C19.Gen", ""]
    return [("DuneVerif/Gen/C19.lean", "\n".join(out))]


if __name__ == "__main__":
    import sys
    for path, content in translate(sys.argv[1] if len(sys.argv) > 1 else "/repo"):
        print("--", path)
        print(content)
