"""Translator for C09 (SIMD lane-wise transparency).

Reads, on every run, from the tree under test

* dune/common/densematrix.hh    (round 3) the singularity tests of the configuration DUNE_FMatrix_WITH_CHECKING in the closed
                                forms of solve()/invert(): mask reduction, comparison, tested expression;

* dune/common/simd/loop.hh      the operator macros (DUNE_SIMD_LOOP_*): for every macro the per-lane loop of each
                                overload (loop bounds, destination index, operand indices, operand order) and the
                                list of operators / cmath functions the macro is invoked for; the hand-written
                                operator!, the (only reachable) cond overload, the four mask reductions, lane()/LaneCount, isNaN/isInf/isFinite,
                                the broadcasting constructor and the postfix operators;
* dune/common/simd/interface.hh the scalar cond (`mask ? ifTrue : ifFalse`);
* dune/common/simd/standard.hh  the mask reductions of a scalar bool;
* dune/common/simd/DESIGN.md    the operator table of the specification ("where `@` is one of ...").

and emits

* lean/DuneVerif/Gen/C09.lean       the loop shapes as data (`Loop`), the operator lists as inductive types, the
                                    specification table; the model *executes* these shapes, the theorems are
                                    proved about them;
* lean/DuneVerif/Gen/C09Lanes.lean  one lane lemma per operator / function listed in loop.hh (instances of the
                                    generic theorems in Proofs/C09.lean), so that every listed operator has its
                                    own named proof obligation.

Anything outside the small grammar below makes the translator fail loudly (-> broken obligation -> search for a
failing input by the harness).

(round 5) Before the grammar is applied the comment-free source goes through `normalise()`: semantics-preserving rewrites with explicit,
conservative side conditions (single-assignment `const` locals with stable pure initialisers inlined, `range()` / element range-for
-> index loop, `if/return` -> `?:`, `continue` guard -> `if`, alpha-renaming of result locals), so that ordinary maintenance
respellings give the byte-identical Gen files.  A rewrite whose side conditions cannot be established is not performed and the
grammar fails as before -- the translator never guesses."""
import os
import re


class TranslateError(Exception):
    pass


# ------------------------------------------------------------------------------------------------
# reading helpers
# ------------------------------------------------------------------------------------------------

def strip_comments(src):
    src = re.sub(r"/\*.*?\*/", " ", src, flags=re.S)
    src = re.sub(r"//[^\n]*", "", src)
    return src


def join_continuations(src):
    return re.sub(r"\\\s*\n", " ", src)


def nospace(s):
    return re.sub(r"\s+", "", s)


# ------------------------------------------------------------------------------------------------
# (round 5) normalisation of equivalent spellings BEFORE the grammar is applied.  Every rule is a semantics-preserving
# source-to-source rewrite with explicit side conditions; when a side condition cannot be established the text is left
# alone and the grammar below fails loudly, exactly as before.
# ------------------------------------------------------------------------------------------------

_KEYWORDS = {"if", "for", "while", "return", "switch", "sizeof", "static_cast", "decltype", "else", "do", "catch"}
_ASSIGN_AFTER = re.compile(r"\s*(?:=(?!=)|[-+*/%&|^]=|<<=|>>=|\+\+|--)")
_SIZE_EXPR = re.compile(r"(?:(?P<recv>[A-Za-z_]\w*)\s*\.\s*)?(?P<acc>rows|cols|size|N|M)\s*\(\s*\)")
_RESIZERS = r"(?:resize|clear|push_back|pop_back|emplace_back|erase|insert|assign|swap|reserve)"
# calls without side effects that may appear in / after an inlined initialiser
_PURE_CALLS = {"Simd::lane", "Simd::lanes", "lane", "lanes", "fvmeta::absreal", "Simd::cond", "Simd::anyTrue", "Simd::allTrue",
               "Simd::anyFalse", "Simd::allFalse", "Dune::Simd::anyTrue", "rows", "cols"}


def _block_end(s, pos):
    """index of the `}` that closes the block containing position pos"""
    depth = 0
    for e in range(pos, len(s)):
        c = s[e]
        if c == "{":
            depth += 1
        elif c == "}":
            if depth == 0:
                return e
            depth -= 1
    return -1


def _match_paren(s, i):
    """s[i] == '(' -> index of the matching ')'"""
    depth = 0
    for e in range(i, len(s)):
        if s[e] == "(":
            depth += 1
        elif s[e] == ")":
            depth -= 1
            if depth == 0:
                return e
    return -1


def _calls(text):
    """qualified names that are called in text (identifier followed by `(`), keywords and casts excluded"""
    res = []
    for m in re.finditer(r"((?:[A-Za-z_]\w*\s*(?:::|\.)\s*)*[A-Za-z_]\w*)\s*(?:<[^<>();]*>)?\s*\(", text):
        name = nospace(m.group(1))
        if name in _KEYWORDS:
            continue
        res.append(name)
    return res


def _free_vars(expr):
    res = set()
    for m in re.finditer(r"[A-Za-z_]\w*", expr):
        before = expr[:m.start()].rstrip()
        after = expr[m.end():].lstrip()
        if after.startswith("(") or after.startswith("::") or before.endswith("::") or before.endswith(".") or before.endswith("->"):
            continue
        res.add(m.group(0))
    return res


def _is_written(x, scope):
    """is the variable x (or an element of it) assigned / incremented anywhere in scope?  (conservative: yes when unsure)"""
    xq = re.escape(x)
    if re.search(r"(?:\+\+|--)\s*%s\b" % xq, scope):
        return True
    for m in re.finditer(r"(?<![\w.:>])%s\b" % xq, scope):
        e = m.end()
        # skip subscripts x[..][..]
        while True:
            r = scope[e:].lstrip()
            if not r.startswith("["):
                break
            e = len(scope) - len(r)
            depth = 0
            while e < len(scope):
                if scope[e] == "[":
                    depth += 1
                elif scope[e] == "]":
                    depth -= 1
                    if depth == 0:
                        break
                e += 1
            e += 1
        if _ASSIGN_AFTER.match(scope, e):
            return True
    return False


def _known_type(ty, expr, before):
    """the declared type of a by-value const local is the type of its initialiser (so no conversion happens)"""
    ty, ex = nospace(ty), nospace(expr)
    if ty == "auto":
        return True
    if ty in ("size_type", "typenameDenseMatrix<MAT>::size_type") and re.fullmatch(r"(?:\w+\.)?(?:rows|cols)\(\)", ex):
        return True
    if ty == "std::size_t" and re.fullmatch(r"Simd::lanes\([^;]*\)", ex):
        return True
    m = re.fullmatch(r"(?:Simd::)?Scalar<(\w+)>", ty)
    m2 = re.fullmatch(r"Simd::lane\([^,()]+,(\w+)\)", ex)
    if m and m2 and re.search(r"const\s+%s\s*&\s*%s\s*[,)]" % (m.group(1), m2.group(1)), before[-600:]):
        return True
    return False


def inline_const_locals(s):
    """`const T x = E;` (single assignment by construction) is replaced by its initialiser at every use in its scope, when
    * E has no side effect: only operators without assignment and calls from a list of pure functions / size accessors;
    * E means the same at every use: E is a size accessor (`A.rows()`, `cols()`, `v.size()`, `Simd::lanes(e)`) and the object is not
      assigned as a whole, resized or handed to a call inside the scope (assigning ELEMENTS does not change a size) -- or no free
      variable of E is written between the declaration and the last use and nothing but pure calls happens in between;
    * no conversion hides in the declaration: T is `auto` or the known type of E; otherwise `static_cast<T>(E)` is substituted
      (the grammar then sees the cast and fails rather than guess)."""
    decl = re.compile(r"(?<![\w>])const\s+((?:typename\s+)?[A-Za-z_][\w:]*(?:<[^<>;=(){}]*>)?(?:::\w+)?)\s+([A-Za-z_]\w*)\s*=\s*([^;{}]+);")
    pos = 0
    while True:
        m = decl.search(s, pos)
        if not m:
            return s
        pos = m.end()
        ty, name, expr = m.group(1), m.group(2), m.group(3).strip()
        end = _block_end(s, m.end())
        if end < 0:
            continue
        scope = s[m.end():end]
        uses = list(re.finditer(r"(?<![\w.:>])%s\b(?!\s*\()" % re.escape(name), scope))
        if not uses:
            continue
        if re.search(r"(?<![=!<>])=(?!=)|\+\+|--|[-+*/%&|^]=|<<=|>>=", expr):
            continue
        calls = _calls(expr)
        sm = _SIZE_EXPR.fullmatch(expr)
        lanes_expr = re.fullmatch(r"Simd::lanes\s*\(.*\)", expr, flags=re.S) and _match_paren(expr, expr.index("(")) == len(expr) - 1
        ok = False
        if sm:
            recv = sm.group("recv")
            if recv:
                rq = re.escape(recv)
                bad = (re.search(r"(?<![\w.:>\]])%s\s*=(?!=)" % rq, scope) or re.search(r"\b%s\s*\.\s*%s\b" % (rq, _RESIZERS), scope)
                       or re.search(r"[(,]\s*%s\s*[,)]" % rq, scope))
            else:
                bad = re.search(r"\*this\s*=(?!=)", scope) or re.search(r"(?<![\w.:>])%s\s*\(" % _RESIZERS, scope) or re.search(r"[(,]\s*\*this\s*[,)](?!\s*\[)", scope)
            ok = not bad
        elif lanes_expr:
            ok = True      # the lane count is a property of the type
        elif all(c in _PURE_CALLS for c in calls):
            upto = scope[:uses[-1].end()]
            # up to the end of the statement that holds the last use
            semi = scope.find(";", uses[-1].end())
            upto = scope[:semi + 1] if semi >= 0 else scope
            ok = all(c in _PURE_CALLS for c in _calls(upto)) and not any(_is_written(x, upto) for x in _free_vars(expr)) \
                and not _is_written(name, scope)
        if not ok:
            continue
        atomic = re.fullmatch(r"[\w:.]+(?:<[^<>]*>)?(?:\s*\(.*\))?(?:\s*\[[^\]]*\])*", expr, flags=re.S) is not None
        repl = expr if _known_type(ty, expr, s[:m.start()]) else "static_cast<%s>(%s)" % (ty, expr)
        if repl is expr and not atomic:
            repl = "(" + expr + ")"
        new_scope = re.sub(r"(?<![\w.:>])%s\b(?!\s*\()" % re.escape(name), lambda _m: repl, scope)
        s = s[:m.start()] + new_scope + s[end:]
        pos = m.start()


def range_for_to_index(s):
    """`for (auto l : range(E))` with E of type std::size_t (`S`, `Simd::lanes(..)`) is `for (std::size_t l = 0; l < E; ++l)`"""
    pos = 0
    while True:
        m = re.compile(r"for\s*\(\s*(?:auto|std::size_t)\s+([A-Za-z_]\w*)\s*:\s*range\s*\(").search(s, pos)
        if not m:
            return s
        pos = m.end()
        close = _match_paren(s, m.end() - 1)
        if close < 0:
            continue
        e = s[m.end():close].strip()
        m2 = re.match(r"\s*\)", s[close + 1:])
        if not m2:
            continue
        if not (e == "S" or (e.startswith("Simd::lanes") and "(" in e and _match_paren(e, e.index("(")) == len(e) - 1)):
            continue
        v = m.group(1)
        s = s[:m.start()] + "for(std::size_t %s=0; %s<%s; ++%s)" % (v, v, e, v) + s[close + 1 + m2.end():]


def element_for_to_index(s):
    """`for (const M& e : x) BODY` over a `const LoopSIMD<M,S,A>& x` (a std::array<M,S>: the elements x[0] .. x[S-1] in this order) is
    `for (std::size_t i = 0; i < S; ++i) BODY[e := x[i]]`; e must not be written in BODY."""
    rx = re.compile(r"for\s*\(\s*(const\s+auto\s*&|auto\s*&&|const\s+(\w+)\s*&|auto)\s*([A-Za-z_]\w*)\s*:\s*([A-Za-z_]\w*)\s*\)\s*")
    pos = 0
    while True:
        m = rx.search(s, pos)
        if not m:
            return s
        pos = m.end()
        elem_ty, e, x = m.group(2), m.group(3), m.group(4)
        d = None
        for d in re.finditer(r"const\s+LoopSIMD<\s*(\w+)\s*,\s*S\s*,\s*\w+\s*>\s*&\s*%s\s*[,)]" % re.escape(x), s[:m.start()]):
            pass
        if d is None or len(s[d.end():m.start()]) > 400 or (elem_ty is not None and elem_ty != d.group(1)):
            continue
        if s[m.end()] == "{":
            depth, b = 0, m.end()
            while b < len(s):
                if s[b] == "{":
                    depth += 1
                elif s[b] == "}":
                    depth -= 1
                    if depth == 0:
                        break
                b += 1
            body_end = b + 1
        else:
            body_end = s.find(";", m.end()) + 1
            if body_end <= 0:
                continue
        body = s[m.end():body_end]
        if _is_written(e, body) or re.search(r"\bfor\b|\bwhile\b", body):
            continue
        var = "i"
        while re.search(r"\b%s\b" % var, body):
            var += "_"
        body = re.sub(r"(?<![\w.:>])%s\b" % re.escape(e), "%s[%s]" % (x, var), body)
        s = s[:m.start()] + "for(std::size_t %s=0; %s<S; ++%s)" % (var, var, var) + body + s[body_end:]
        pos = m.start() + 1


def if_return_to_conditional(s):
    """`if (c) return a; else return b;` (also without `else`, with braces) is `return c ? a : b;` when a and b are parameters declared
    with the same type (so that the conditional operator converts nothing)"""
    rx = re.compile(r"if\s*\(\s*([A-Za-z_]\w*)\s*\)\s*\{?\s*return\s+([A-Za-z_]\w*)\s*;\s*\}?\s*(?:else\s*)?\{?\s*return\s+([A-Za-z_]\w*)\s*;\s*\}?")
    def repl(m):
        c, a, b = m.groups()
        before = s[:m.start()][-400:]
        ta = re.findall(r"([\w:<>]+(?:\s+const)?\s*&?)\s*%s\s*[,)]" % re.escape(a), before)
        tb = re.findall(r"([\w:<>]+(?:\s+const)?\s*&?)\s*%s\s*[,)]" % re.escape(b), before)
        if not ta or not tb or nospace(ta[-1]) != nospace(tb[-1]):
            return m.group(0)
        txt = m.group(0)
        # braces must balance inside the matched text (we may have swallowed the function's closing brace)
        extra = txt.count("}") - txt.count("{")
        return "return %s ? %s : %s;" % (c, a, b) + "}" * max(extra, 0)
    return rx.sub(repl, s)


def continue_guard_to_if(s):
    """inside a loop body `{ … if (c) continue; REST }` is `{ … if (!(c)) { REST } }`; `!(a == b)` is written `a != b`"""
    rx = re.compile(r"if\s*\(")
    pos = 0
    while True:
        m = rx.search(s, pos)
        if not m:
            return s
        pos = m.end()
        close = _match_paren(s, m.end() - 1)
        if close < 0:
            continue
        m2 = re.match(r"\s*continue\s*;", s[close + 1:])
        if not m2:
            continue
        cond = s[m.end():close].strip()
        stmt_end = close + 1 + m2.end()
        end = _block_end(s, stmt_end)
        if end < 0:
            continue
        # the enclosing block must be the body of a loop: walk back to its `{` and look for `for (...)` / `while (...)` in front
        depth, b = 0, m.start() - 1
        while b >= 0:
            if s[b] == "}":
                depth += 1
            elif s[b] == "{":
                if depth == 0:
                    break
                depth -= 1
            b -= 1
        head = s[:b].rstrip()
        if not head.endswith(")"):
            continue
        # find the matching "(" backwards
        depth, o = 0, len(head) - 1
        while o >= 0:
            if head[o] == ")":
                depth += 1
            elif head[o] == "(":
                depth -= 1
                if depth == 0:
                    break
            o -= 1
        if not re.search(r"\b(?:for|while)\s*$", head[:o]):
            continue
        rest = s[stmt_end:end]
        if not rest.strip():
            continue
        mc = re.fullmatch(r"([^=!<>&|?]+?)\s*(==|!=)\s*([^=!<>&|?]+)", cond)
        if mc:
            neg = "%s%s%s" % (mc.group(1), "!=" if mc.group(2) == "==" else "==", mc.group(3))
        elif re.fullmatch(r"!\s*\w+", cond):
            neg = cond.lstrip("! ")
        else:
            neg = "!(%s)" % cond
        s = s[:m.start()] + "if(%s){%s}" % (neg, rest) + s[end:]
        pos = m.start() + 1


def normalise(src):
    """comment-free source -> the same program in the spelling the grammar is written for"""
    src = inline_const_locals(src)
    src = range_for_to_index(src)
    src = element_for_to_index(src)
    src = if_return_to_conditional(src)
    src = continue_guard_to_if(src)
    return src


def rename_local(body, decl_re, canonical):
    """alpha-renaming: the local declared by decl_re (one group: its name) is called `canonical`"""
    m = re.search(decl_re, body)
    if not m or m.group(1) == canonical or re.search(r"\b%s\b" % canonical, body):
        return body
    return re.sub(r"(?<![\w.:>])%s\b" % re.escape(m.group(1)), canonical, body)


SYMBOL_NAMES = {
    "+": "add", "-": "sub", "*": "mul", "/": "div", "%": "mod", "&": "band", "|": "bor", "^": "bxor",
    "<<": "shl", ">>": "shr", "<": "lt", ">": "gt", "<=": "le", ">=": "ge", "==": "eq", "!=": "ne",
    "&&": "land", "||": "lor", "~": "bnot", "!": "lnot", "++": "inc", "--": "dec",
}
UNARY_NAMES = {"+": "pos", "-": "neg", "~": "bnot"}


def ix_expr(e, var):
    """index expression grammar: var | K | var+K | var-K | S-1-var"""
    e = nospace(e)
    if e == var:
        return ".i"
    if re.fullmatch(r"\d+", e):
        return "(.const %s)" % e
    m = re.fullmatch(r"%s\+(\d+)" % var, e) or re.fullmatch(r"(\d+)\+%s" % var, e)
    if m:
        return "(.plus %s)" % m.group(1)
    m = re.fullmatch(r"%s-(\d+)" % var, e)
    if m:
        return "(.minus %s)" % m.group(1)
    if e in ("S-1-%s" % var, "S-%s-1" % var, "(S-1)-%s" % var):
        return ".rev"
    raise TranslateError("index expression outside the grammar: %r" % e)


FOR_RE = re.compile(
    r"for\s*\(\s*std::size_t\s+(\w+)\s*=\s*(\d+)\s*;\s*\1\s*<\s*S\s*(?:-\s*(\d+))?\s*;\s*(?:\1\s*\+\+|\+\+\s*\1)\s*\)\s*\{?\s*([^{};]+);\s*\}?")
RANGE_FOR_RE = re.compile(r"for\s*\(\s*auto\s+(\w+)\s*:\s*range\(\s*S\s*\)\s*\)\s*([^{};]+);")

OPERAND_RE = r"(\(\*this\)|[A-Za-z_]\w*)\[([^\[\]]+)\]"


def parse_operand(tok, var, vec_names, scalar_names):
    """returns Lean Opd term"""
    tok = tok.strip()
    m = re.fullmatch(OPERAND_RE, nospace(tok))
    if m:
        name = m.group(1)
        if name not in vec_names:
            raise TranslateError("unknown vector operand %r" % name)
        return "(.vec %d %s)" % (vec_names.index(name), ix_expr(m.group(2), var))
    if nospace(tok) in scalar_names:
        return ".scalar"
    raise TranslateError("operand outside the grammar: %r" % tok)


def loop_term(lo, himinus, dst, inplace, args, by_ref=False, scalar_ty="none"):
    return "{ lo := %s, hiMinus := %s, dst := %s, inPlace := %s, args := [%s], scalarByRef := %s, scalarTy := .%s }" % (
        lo, himinus or 0, dst, "true" if inplace else "false", ", ".join(args), "true" if by_ref else "false", scalar_ty)


def parse_statement(stmt, var, sym, vec_names, scalar_names):
    """stmt: the loop body with the macro parameter `sym` still in place. returns (dst, inplace, args)"""
    s = nospace(stmt)
    symq = re.escape(sym)
    # prefix:  SYMBOL(*this)[i]
    m = re.fullmatch(r"%s\(\*this\)\[([^\]]+)\]" % symq, s)
    if m:
        return ix_expr(m.group(1), var), True, ["(.vec 0 %s)" % ix_expr(m.group(1), var)]
    # unary:  out[i] = SYMBOL((*this)[i])
    m = re.fullmatch(r"out\[([^\]]+)\]=%s\(\(\*this\)\[([^\]]+)\]\)" % symq, s)
    if m:
        return ix_expr(m.group(1), var), False, ["(.vec 0 %s)" % ix_expr(m.group(2), var)]
    # function call:  out[i] = SYMBOL(a, b, ...)   (cmath functions, Simd::cond, Dune::isNaN ...)
    m = re.fullmatch(r"out\[([^\]]+)\]=%s\((.*)\)" % symq, s)
    if m and sym[0].isalpha():
        args = [parse_operand(a, var, vec_names, scalar_names) for a in split_args(m.group(2))]
        return ix_expr(m.group(1), var), False, args
    # compound assignment:  (*this)[i] SYMBOL x
    m = re.fullmatch(r"\(\*this\)\[([^\]]+)\]%s(.+)" % symq, s)
    if m:
        d = ix_expr(m.group(1), var)
        return d, True, ["(.vec 0 %s)" % d, parse_operand(m.group(2), var, vec_names, scalar_names)]
    # binary:  out[i] = x SYMBOL y
    m = re.fullmatch(r"out\[([^\]]+)\]=(.+?)%s(.+)" % symq, s)
    if m:
        return ix_expr(m.group(1), var), False, [parse_operand(m.group(2), var, vec_names, scalar_names),
                                                  parse_operand(m.group(3), var, vec_names, scalar_names)]
    raise TranslateError("statement outside the grammar: %r" % stmt)


def split_args(s, angle=False):
    out, depth, cur = [], 0, ""
    for ch in s:
        if ch in "([" or (angle and ch == "<"):
            depth += 1
        if ch in ")]" or (angle and ch == ">"):
            depth -= 1
        if ch == "," and depth == 0:
            out.append(cur)
            cur = ""
        else:
            cur += ch
    if cur:
        out.append(cur)
    return out


def function_chunks(body):
    """split a macro body / class body into function-like chunks: (signature text, body text)"""
    res = []
    i = 0
    n = len(body)
    while True:
        j = body.find("{", i)
        if j < 0:
            break
        # signature = text back to the previous ';' or '}' or start
        k = max(body.rfind(";", 0, j), body.rfind("}", 0, j))
        sig = body[k + 1:j]
        depth, e = 0, j
        while e < n:
            if body[e] == "{":
                depth += 1
            elif body[e] == "}":
                depth -= 1
                if depth == 0:
                    break
            e += 1
        res.append((sig, body[j + 1:e]))
        i = e + 1
    return res


def sig_operands(sig):
    """vector and scalar parameter names of a function signature, in order"""
    m = re.search(r"\(([^()]*(?:\([^()]*\)[^()]*)*)\)\s*(?:const)?\s*$", sig.strip())
    params = split_args(m.group(1), angle=True) if m else []
    vecs, scalars = [], []
    sig_operands.by_reference = []
    sig_operands.scalar_types = {}
    # template parameters that are types (`class U`, `typename U`): a scalar parameter declared with such a name keeps
    # the type of the argument (the usual arithmetic conversions then happen inside every lane); a parameter declared
    # `Simd::Scalar<T>` / `Simd::Mask<T>` makes the call convert the argument to the lanes' scalar / mask type first
    free_types = set(re.findall(r"\b(?:class|typename)\s+([A-Za-z_]\w*)", sig))
    for p in params:
        p = p.strip()
        if not p or p.startswith("ADLTag") or p == "int":
            continue
        name = re.findall(r"[A-Za-z_]\w*", p)[-1]
        if "LoopSIMD" in p or re.search(r"Simd::Mask<\s*LoopSIMD", p) or re.search(r"\bconst\s+M\s*&", p):
            vecs.append(name)
        else:
            scalars.append(name)
            if "&" in p:
                sig_operands.by_reference.append(name)
            ty = nospace(re.sub(r"\b%s\s*$" % re.escape(name), "", p))
            ty = re.sub(r"^const", "", ty).rstrip("&")
            ty = re.sub(r"const$", "", ty)
            if ty == "Simd::Scalar<T>":
                sig_operands.scalar_types[name] = "laneScalar"
            elif ty == "Simd::Mask<T>":
                sig_operands.scalar_types[name] = "laneMask"
            elif ty in free_types and ty not in ("T", "M"):
                sig_operands.scalar_types[name] = "own"
            else:
                raise TranslateError("scalar parameter %r: declared type %r outside the grammar" % (name, ty))
    return vecs, scalars


# ------------------------------------------------------------------------------------------------
# loop.hh
# ------------------------------------------------------------------------------------------------

def form_name(args):
    f = ""
    for a in args:
        f += "s" if a == ".scalar" else "v"
    return f


def translate_loop_hh(src):
    src = normalise(join_continuations(strip_comments(src)))
    lines = src.split("\n")
    macros = {}     # name -> (param, body)
    order = []
    invocations = {}
    for ln in lines:
        m = re.match(r"\s*#\s*define\s+(DUNE_SIMD_LOOP_\w+)\(([^)]*)\)\s*(.*)$", ln)
        if m:
            macros[m.group(1)] = ([p.strip() for p in m.group(2).split(",")], m.group(3))
            order.append(m.group(1))
            invocations[m.group(1)] = []
            continue
        m = re.match(r"\s*(DUNE_SIMD_LOOP_\w+)\((.*)\)\s*;\s*$", ln)
        if m:
            if m.group(1) not in macros:
                raise TranslateError("invocation of unknown macro %s" % m.group(1))
            invocations[m.group(1)].append([a.strip() for a in split_args(m.group(2))])
    expected = ["PREFIX_OP", "UNARY_OP", "POSTFIX_OP", "ASSIGNMENT_OP", "BINARY_OP", "BITSHIFT_OP", "COMPARISON_OP",
                "BOOLEAN_OP", "CMATH_UNARY_OP", "CMATH_UNARY_OP_WITH_RETURN", "STD_UNARY_OP", "STD_BINARY_OP"]
    for e in expected:
        if "DUNE_SIMD_LOOP_" + e not in macros:
            raise TranslateError("operator macro DUNE_SIMD_LOOP_%s not found in loop.hh" % e)
    for name in macros:
        if name[len("DUNE_SIMD_LOOP_"):] not in expected:
            raise TranslateError("new operator macro %s: not modelled" % name)

    out = []
    loops = {}
    for name in order:
        short = name[len("DUNE_SIMD_LOOP_"):]
        params, body = macros[name]
        sym = params[0]
        if short == "POSTFIX_OP":
            b = nospace(body)
            want = nospace("auto operator SYMBOL(int){ LoopSIMD<T,S,A> out = *this; SYMBOL(*this); return out; }")
            if not b.startswith(want):
                raise TranslateError("postfix operator body changed: %r" % body)
            continue
        seen = {}
        for sig, fbody in function_chunks(body):
            # alpha-renaming: the result local may have any name
            fbody = rename_local(fbody, r"(?:LoopSIMD<[\w,\s]+>|Simd::Mask<\s*LoopSIMD<T,S,A>\s*>)\s+([A-Za-z_]\w*)\s*;", "out")
            fors = FOR_RE.findall(fbody)
            if not fors:
                continue
            if len(fors) != 1:
                raise TranslateError("%s: more than one loop in an overload" % name)
            var, lo, himinus, stmt = fors[0]
            vecs, scalars = sig_operands(sig)
            vec_names = (["(*this)"] if short in ("PREFIX_OP", "UNARY_OP", "ASSIGNMENT_OP") else []) + vecs
            dst, inplace, args = parse_statement(stmt, var, sym, vec_names, scalars)
            # parameter-passing mode of the scalar operand: for an in-place operator a scalar taken by reference may alias a
            # lane of *this (`v += lane(k, v)`) and then changes under the loop's feet; the mode is part of the shape, the
            # model executes the aliasing semantics accordingly, the theorems need `scalarByRef = false` for in-place loops
            by_ref = bool(sig_operands.by_reference) and ".scalar" in args
            # declared type of the scalar parameter (decides whether a scalar argument of another arithmetic type is
            # converted to the lanes' scalar type at the call or keeps its type inside the per-lane statement)
            scalar_ty = "none"
            if ".scalar" in args:
                if len(scalars) != 1:
                    raise TranslateError("%s: more than one scalar parameter" % name)
                scalar_ty = sig_operands.scalar_types[scalars[0]]
            # whatever else the overload does must be the declaration of `out`, the pragma and the return
            rest = nospace(FOR_RE.sub("", fbody))
            rest = rest.replace("DUNE_PRAGMA_OMP_SIMD", "")
            rest = re.sub(r"usingstd::%s;" % re.escape(sym), "", rest)
            if inplace:
                if rest != "return*this;":
                    raise TranslateError("%s: unexpected statements %r" % (name, rest))
            else:
                if not re.fullmatch(r"(LoopSIMD<[\w,]+>|Simd::Mask<LoopSIMD<T,S,A>>)out;returnout;", rest):
                    raise TranslateError("%s: unexpected statements %r" % (name, rest))
            f = form_name(args)
            k = seen.get(f, 0)
            seen[f] = k + 1
            lname = "loop_%s_%s%s" % (short, f, "" if k == 0 else str(k + 1))
            loops[lname] = loop_term(lo, himinus, dst, inplace, args, by_ref, scalar_ty)
        if not seen:
            raise TranslateError("%s: no per-lane loop found" % name)

    # hand-written members / overloads --------------------------------------------------------------
    def find_function(pattern, what):
        m = re.search(pattern, src, flags=re.S)
        if not m:
            raise TranslateError("%s not found in loop.hh" % what)
        start = src.index("{", m.end() - 1) if src[m.end() - 1] != "{" else m.end() - 1
        depth, e = 0, start
        while True:
            if src[e] == "{":
                depth += 1
            elif src[e] == "}":
                depth -= 1
                if depth == 0:
                    break
            e += 1
        return src[m.start():start], src[start + 1:e]

    # operator!
    sig, body = find_function(r"auto\s+operator!\s*\(\s*\)\s*const\s*\{", "operator!")
    body = rename_local(body, r"(?:LoopSIMD<[\w,\s]+>|Simd::Mask<\s*LoopSIMD<T,S,A>\s*>)\s+([A-Za-z_]\w*)\s*;", "out")
    fors = FOR_RE.findall(body)
    if len(fors) != 1:
        raise TranslateError("operator!: loop not found")
    var, lo, himinus, stmt = fors[0]
    dst, inplace, args = parse_statement(stmt, var, "!", ["(*this)"], [])
    loops["loop_lnot"] = loop_term(lo, himinus, dst, inplace, args)

    # cond: the overload taking `const Simd::Mask<LoopSIMD<T,S,AM>>&` can never be selected (AM appears only in a
    # non-deduced context), Simd::cond always reaches the overload below, which selects lane by lane:
    #   for(auto l : range(Simd::lanes(mask))) Simd::lane(l, out) = Simd::lane(l, mask) ? Simd::lane(l, ifTrue) : Simd::lane(l, ifFalse);
    sig, body = find_function(r"auto\s+cond\s*\(\s*ADLTag<5\s*,\s*std::is_same<bool,\s*Simd::Scalar<M>\s*>::value", "cond")
    m = re.search(r"const\s+M\s*&\s*(\w+)\s*,\s*const\s+LoopSIMD<T,S,A>\s*&\s*(\w+)\s*,\s*const\s+LoopSIMD<T,S,A>\s*&\s*(\w+)\s*\)\s*$", sig.strip())
    if not m:
        raise TranslateError("cond: parameters changed: %r" % sig)
    cnames = list(m.groups())
    b_ = nospace(rename_local(body, r"LoopSIMD<T,S,A>\s+([A-Za-z_]\w*)\s*;", "out"))
    # (`for (auto l : range(Simd::lanes(mask)))` has been normalised to the index loop)
    m = re.fullmatch(r"LoopSIMD<T,S,A>out;for\(std::size_t(\w+)=0;\1<Simd::lanes\(%s\);(?:\+\+\1|\1\+\+)\)\{?Simd::lane\(([^,]+),out\)="
                     r"Simd::lane\(([^,]+),(\w+)\)\?Simd::lane\(([^,]+),(\w+)\):Simd::lane\(([^,]+),(\w+)\);\}?returnout;" % cnames[0], b_)
    if not m:
        raise TranslateError("cond: body outside the grammar: %r" % body)
    var, dix, cix, cn, tix, tn, eix, en = m.groups()
    for nm in (cn, tn, en):
        if nm not in cnames:
            raise TranslateError("cond: unknown operand %r" % nm)
    # args in the written order  condition ? then : else ; `which` = position among (mask, ifTrue, ifFalse)
    loops["loop_condLanes"] = loop_term(0, 0, ix_expr(dix, var), False,
                                        ["(.vec %d %s)" % (cnames.index(cn), ix_expr(cix, var)),
                                         "(.vec %d %s)" % (cnames.index(tn), ix_expr(tix, var)),
                                         "(.vec %d %s)" % (cnames.index(en), ix_expr(eix, var))])

    # isNaN / isInf / isFinite
    for fn in ("isNaN", "isInf", "isFinite"):
        sig, body = find_function(r"auto\s+%s\s*\(\s*const\s+LoopSIMD<T,S,A>\s*&v\s*,\s*PriorityTag<3>\s*,\s*ADLTag\s*\)\s*\{" % fn, fn)
        body = rename_local(body, r"Simd::Mask<\s*LoopSIMD<T,S,A>\s*>\s+([A-Za-z_]\w*)\s*;", "out")
        fors = FOR_RE.findall(body)        # (`for (auto l : range(S))` has been normalised to the index loop)
        if len(fors) != 1:
            raise TranslateError("%s: loop not found" % fn)
        var, lo, himinus, stmt = fors[0]
        dst, inplace, args = parse_statement(stmt, var, "Dune::" + fn, ["v"], [])
        if nospace(FOR_RE.sub("", body)) != "Simd::Mask<LoopSIMD<T,S,A>>out;returnout;":
            raise TranslateError("%s: unexpected statements" % fn)
        loops["loop_%s" % fn] = loop_term(lo, himinus, dst, inplace, args)

    # mask reductions
    reds = {}
    for fn in ("anyTrue", "allTrue", "anyFalse", "allFalse"):
        sig, body = find_function(r"bool\s+%s\s*\(\s*ADLTag<5>\s*,\s*const\s+LoopSIMD<M,S,A>&\s*mask\s*\)\s*\{" % fn, fn)
        b = nospace(rename_local(body, r"\bbool\s+([A-Za-z_]\w*)\s*=", "out"))
        # free: the name of the accumulator, `i++` / `++i`, braces, `out |= x` / `out = out | x` (NOT `||`: that would skip calls),
        # and (normalised above) a range-for over the entries of the mask
        m = re.fullmatch(r"boolout=(true|false);for\(std::size_t(\w+)=(\d+);\2<S(?:-(\d+))?;(?:\2\+\+|\+\+\2)\)\{?"
                         r"(?:out(\|=|&=)|out=out(\||&)(?!\||&))Simd::(\w+)\(mask\[([^\]]+)\]\);\}?returnout;", b)
        if not m:
            raise TranslateError("%s: body outside the grammar: %r" % (fn, body))
        init, var, lo, himinus, comb, comb2, inner, ix = m.groups()
        comb = comb or (comb2 + "=")
        if inner not in ("anyTrue", "allTrue", "anyFalse", "allFalse"):
            raise TranslateError("%s: unknown inner reduction %s" % (fn, inner))
        reds[fn] = "{ init := %s, isOr := %s, inner := .%s, lo := %s, hiMinus := %s, ix := %s }" % (
            init, "true" if comb == "|=" else "false", inner, lo, himinus or 0, ix_expr(ix, var))

    # lane(): all three overloads use lane(l % lanes<T>(), v[l / lanes<T>()])
    lane_calls = re.findall(r"Simd::lane\(\s*([^,]+?)\s*,\s*v\[\s*([^\]]+?)\s*\]\s*\)", src)
    if len(lane_calls) < 3:
        raise TranslateError("lane overloads not found")
    def lane_ix(e):
        e = nospace(e)
        if e == "l%lanes<T>()":
            return "l % n"
        if e == "l/lanes<T>()":
            return "l / n"
        if e == "l":
            return "l"
        raise TranslateError("lane index expression outside the grammar: %r" % e)
    inner = {lane_ix(a) for a, b in lane_calls}
    outer = {lane_ix(b) for a, b in lane_calls}
    if len(inner) != 1 or len(outer) != 1:
        raise TranslateError("lane overloads disagree")
    m = re.search(r"struct\s+LaneCount<LoopSIMD<T,S,A>>\s*:\s*index_constant<\s*([^>]+>\(\))\s*>", src)
    if not m or nospace(m.group(1)) not in ("S*lanes<T>()", "lanes<T>()*S"):
        raise TranslateError("LaneCount changed")

    # broadcasting constructor
    if not re.search(r"LoopSIMD\s*\(\s*Simd::Scalar<T>\s+i\s*\)\s*:\s*LoopSIMD\(\)\s*\{\s*this->fill\(i\);\s*\}", src):
        raise TranslateError("broadcasting constructor changed")

    # type-level functions: Scalar / Rebind of a LoopSIMD (lane count: checked above)
    ns = nospace(src)
    m = re.search(r"structScalarType<LoopSIMD<T,S,A>>\{usingtype=([^;]+);\};", ns)
    if not m:
        raise TranslateError("ScalarType<LoopSIMD> not found")
    scal = {"Simd::Scalar<T>": "scalarOf t", "T": "t"}.get(m.group(1))
    if scal is None:
        raise TranslateError("ScalarType<LoopSIMD>::type outside the grammar: %r" % m.group(1))
    m = re.search(r"structRebindType<U,LoopSIMD<T,S,A>>\{usingtype=LoopSIMD<(.+?),S,A>;\};", ns)
    if not m:
        raise TranslateError("RebindType<U, LoopSIMD> not found or outside the grammar")
    reb = {"Simd::Rebind<U,T>": "rebind u t", "U": "u", "T": "t"}.get(m.group(1))
    if reb is None:
        raise TranslateError("RebindType<U, LoopSIMD>::type outside the grammar: %r" % m.group(1))
    traits = {"scalar_loop": scal, "rebind_loop": reb}

    return loops, reds, invocations, inner.pop(), outer.pop(), traits


# ------------------------------------------------------------------------------------------------
# interface.hh / standard.hh / defaults.hh / DESIGN.md
# ------------------------------------------------------------------------------------------------

def translate_interface(src):
    src = normalise(strip_comments(src))
    m = re.search(r"V\s+cond\s*\(\s*bool\s+(\w+)\s*,\s*const\s+V\s*&\s*(\w+)\s*,\s*const\s+V\s*&\s*(\w+)\s*\)\s*\{\s*return\s+(\w+)\s*\?\s*(\w+)\s*:\s*(\w+)\s*;\s*\}", src)
    if not m:
        raise TranslateError("scalar cond(bool, V, V) changed")
    p0, p1, p2, c, t, e = m.groups()
    names = {p0: "mask", p1: "ifTrue", p2: "ifFalse"}
    if c not in names or t not in names or e not in names:
        raise TranslateError("scalar cond uses unknown names")
    if names[c] != "mask":
        raise TranslateError("scalar cond does not test the mask")
    # the mask passed to the overloads is implCast<Mask<V>>(mask): no reordering of ifTrue/ifFalse
    m2 = re.search(r"return\s+cond\(\s*Overloads::ADLTag<7>\{\}\s*,\s*implCast<Mask<V>\s*>\(std::forward<M>\(mask\)\)\s*,\s*ifTrue\s*,\s*ifFalse\s*\)\s*;", src)
    if not m2:
        raise TranslateError("Simd::cond forwarding changed")
    return "def scalarCond {α : Type} (mask : Bool) (ifTrue ifFalse : α) : α := if %s then %s else %s" % (names[c], names[t], names[e])


def translate_standard(src):
    src = strip_comments(src)
    res = {}
    for fn in ("anyTrue", "allTrue", "anyFalse", "allFalse"):
        m = re.search(r"inline\s+bool\s+%s\s*\(\s*ADLTag<2>\s*,\s*bool\s+mask\s*\)\s*\{\s*return\s+(!?)\s*mask\s*;\s*\}" % fn, src)
        if not m:
            raise TranslateError("standard.hh: %s(bool) changed" % fn)
        res[fn] = m.group(1) == "!"
    m = re.search(r"V\s+lane\s*\(\s*ADLTag<2>\s*,\s*std::size_t\s*,\s*V\s+v\s*\)\s*\{\s*return\s+v\s*;\s*\}", src)
    if not m:
        raise TranslateError("standard.hh: lane(l, scalar) changed")
    # type-level functions of the scalar: Scalar<V> = V, Rebind<S, V> = S, lanes<V>() = 1
    ns = nospace(src)
    if "template<classV,class>structScalarType{usingtype=V;};" not in ns:
        raise TranslateError("standard.hh: ScalarType changed")
    if "template<classS,class,class>structRebindType{usingtype=S;};" not in ns:
        raise TranslateError("standard.hh: RebindType changed")
    m = re.search(r"template<class,class>structLaneCount:publicindex_constant<(\d+)>\{\};", ns)
    if not m:
        raise TranslateError("standard.hh: LaneCount changed")
    res["lanes"] = int(m.group(1))
    return res


def translate_defaults(src):
    """defaults.hh: the default implementations every SIMD type inherits unless it overloads them"""
    ns = nospace(normalise(strip_comments(src)))
    d = {}
    if "boolanyTrue(ADLTag<0>,constMask&mask)=delete;" not in ns:
        raise TranslateError("defaults.hh: anyTrue is no longer the one mandatory reduction")
    # allTrue / anyFalse / allFalse in terms of anyTrue:  [!] Dune::Simd::anyTrue([!] mask)
    for fn in ("allTrue", "anyFalse", "allFalse"):
        m = re.search(r"bool%s\(ADLTag<0>,constMask&mask\)\{return(!?)Dune::Simd::anyTrue\((!?)mask\);\}" % fn, ns)
        if not m:
            raise TranslateError("defaults.hh: default %s outside the grammar" % fn)
        d[fn] = (m.group(1) == "!", m.group(2) == "!")
    # horizontal max / min: m = lane(K, v); for l = LO .. lanes(v): if (m < lane(l, v) | lane(l, v) < m) m = lane(l, v)
    for fn in ("max", "min"):
        m = re.search(r"auto%s\(ADLTag<0>,constV&v\)\{Scalar<V>m=Simd::lane\((\d+),v\);"
                      r"for\(std::size_tl=(\d+);l<Simd::lanes\(v\)(?:-(\d+))?;(?:\+\+l|l\+\+)\)\{?"
                      r"if\((m<Simd::lane\(l,v\)|Simd::lane\(l,v\)<m)\)\{?m=Simd::lane\(l,v\);\}?\}?returnm;\}" % fn, ns)
        if not m:
            raise TranslateError("defaults.hh: horizontal %s outside the grammar" % fn)
        d["h" + fn] = (int(m.group(1)), int(m.group(2)), int(m.group(3) or 0), m.group(4).startswith("m<"))
    # binary max / min: std::max(v1, v2) / std::min(v1, v2) found by ADL
    for fn in ("max", "min"):
        if "auto%s(ADLTag<0>,constV&v1,constV&v2){usingstd::%s;return%s(v1,v2);}" % (fn, fn, fn) not in ns:
            raise TranslateError("defaults.hh: binary %s changed" % fn)
    # mask(v): identity on masks, otherwise v OP Copy(Scalar<Copy>(0))
    if "Mask<V>mask(ADLTag<0,std::is_same<V,Mask<V>>::value>,constV&v){returnv;}" not in ns:
        raise TranslateError("defaults.hh: mask of a mask changed")
    m = re.search(r"automask\(ADLTag<0,!std::is_same<V,Mask<V>>::value>,constV&v\)\{usingCopy=AutonomousValue<V>;"
                  r"returnv(==|!=|<=|>=|<|>)Copy\(Scalar<Copy>\(0\)\);\}", ns)
    if not m:
        raise TranslateError("defaults.hh: mask(v) outside the grammar")
    d["mask"] = SYMBOL_NAMES[m.group(1)]
    for fn in ("maskOr", "maskAnd"):
        m = re.search(r"auto%s\(ADLTag<0>,constV1&v1,constV2&v2\)\{returnSimd::mask\(v1\)(\|\||&&)Simd::mask\(v2\);\}" % fn, ns)
        if not m:
            raise TranslateError("defaults.hh: %s outside the grammar" % fn)
        d[fn] = SYMBOL_NAMES[m.group(1)]
    # implCast: identity for the same type, otherwise lane by lane into a zero-initialised result
    if "constexprVimplCast(ADLTag<0>,MetaType<V>,constV&u){returnu;}" not in ns:
        raise TranslateError("defaults.hh: implCast to the same type changed")
    m = re.search(r"constexprVimplCast\(ADLTag<0>,MetaType<V>,constU&u\)\{Vresult\(Simd::Scalar<V>\(0\)\);"
                  r"for\(std::size_tl=0;l<Simd::lanes\(u\);(?:\+\+l|l\+\+)\)\{?Simd::lane\(([^,]+),result\)=Simd::lane\(([^,]+),u\);\}?returnresult;\}", ns)
    if not m:
        raise TranslateError("defaults.hh: implCast outside the grammar")
    d["implCast"] = (ix_expr(m.group(1), "l"), ix_expr(m.group(2), "l"))
    if "autobroadcast(ADLTag<0>,MetaType<V>,Ss){returnV(Simd::Scalar<V>(s));}" not in ns:
        raise TranslateError("defaults.hh: broadcast changed")
    return d


def translate_densematrix(src):
    """densematrix.hh: the singularity tests the configuration DUNE_FMatrix_WITH_CHECKING compiles into the closed forms of
    solve() (n = 1, 2, 3) and invert() (n = 1, 2): which mask reduction, which comparison, what is thrown.  These are the places
    where a lane mask decides for all lanes at once."""
    ns = nospace(normalise(strip_comments(src)))
    def body_of(sig_re, what):
        m = re.search(sig_re, ns)
        if not m:
            raise TranslateError("densematrix.hh: %s not found" % what)
        start = ns.index("{", m.end() - 1)
        depth, e = 0, start
        while True:
            if ns[e] == "{":
                depth += 1
            elif ns[e] == "}":
                depth -= 1
                if depth == 0:
                    break
            e += 1
        return ns[start + 1:e]
    test_re = re.compile(r"#ifdefDUNE_FMatrix_WITH_CHECKINGif\(Simd::(\w+)\(fvmeta::absreal\(([^;#]+?)\)(<=|>=|<|>)FMatrixPrecision<>::absolute_limit\(\)\)\)"
                         r"DUNE_THROW\(FMatrixError,\"[^\"]*\"\);#endif")
    def tests(body, sizes, what):
        # the closed forms are the branches `if (rows()==1) {…} else if (rows()==2) {…} …`
        res = {}
        marks = [(n_, body.find("if(rows()==%d){" % n_)) for n_ in (1, 2, 3)]
        for n_, pos in marks:
            if pos < 0:
                raise TranslateError("densematrix.hh: %s: closed form for n = %d not found" % (what, n_))
        ends = [marks[1][1], marks[2][1], None]
        for (n_, pos), end in zip(marks, ends):
            if end is None:
                # the n = 3 branch ends where the general (LU) branch starts
                end = body.find("else{", pos)
                if end < 0:
                    raise TranslateError("densematrix.hh: %s: general branch not found" % what)
            seg = body[pos:end]
            found = test_re.findall(seg)
            if "DUNE_FMatrix_WITH_CHECKING" in seg and len(found) != seg.count("DUNE_FMatrix_WITH_CHECKING"):
                raise TranslateError("densematrix.hh: %s n = %d: checked block outside the grammar" % (what, n_))
            if len(found) > 1:
                raise TranslateError("densematrix.hh: %s n = %d: more than one singularity test" % (what, n_))
            if found:
                red, expr, cmp_ = found[0]
                if red not in ("anyTrue", "allTrue", "anyFalse", "allFalse"):
                    raise TranslateError("densematrix.hh: %s n = %d: unknown reduction %s" % (what, n_, red))
                # what is tested must be the determinant of the closed form
                ok_expr = {1: ("(*this)[0][0]",), 2: ("detinv",), 3: ("d",)}[n_]
                if expr not in ok_expr:
                    raise TranslateError("densematrix.hh: %s n = %d: tested expression %r" % (what, n_, expr))
                if n_ == 2 and "field_typedetinv=(*this)[0][0]*(*this)[1][1]-(*this)[0][1]*(*this)[1][0];#ifdef" not in seg:
                    raise TranslateError("densematrix.hh: %s n = 2: determinant expression changed" % what)
                if n_ == 3 and "field_typed=determinant(doPivoting);#ifdef" not in seg:
                    raise TranslateError("densematrix.hh: %s n = 3: determinant expression changed" % what)
                res[n_] = (red, SYMBOL_NAMES[cmp_])
        rest = body[(body.find("else{", marks[2][1])):]
        if "DUNE_FMatrix_WITH_CHECKING" in rest:
            raise TranslateError("densematrix.hh: %s: checked block in the general branch: not modelled" % what)
        return res
    solve = tests(body_of(r"inlinevoidDenseMatrix<MAT>::solve\(V1&x,constV2&b,booldoPivoting\)const\{", "solve"), (1, 2, 3), "solve")
    invert = tests(body_of(r"inlinevoidDenseMatrix<MAT>::invert\(booldoPivoting\)\{", "invert"), (1, 2, 3), "invert")
    if ns.count("DUNE_FMatrix_WITH_CHECKING") != len(solve) + len(invert):
        raise TranslateError("densematrix.hh: a DUNE_FMatrix_WITH_CHECKING block outside solve/invert: not modelled")
    return solve, invert


# ------------------------------------------------------------------------------------------------
# (round 4) densematrix.hh: the control skeleton of luDecomposition, its functors and its three callers
# ------------------------------------------------------------------------------------------------

_ID = r"[A-Za-z_]\w*"
_MIRROR = {"<": ">", ">": "<", "<=": ">=", ">=": "<=", "==": "==", "!=": "!="}


def _inc(name):
    return r"(?:(?P=%s)\+\+|\+\+(?P=%s))" % (name, name)


def _lo_offset(e, var, what):
    """lower bound of a loop relative to the row `var`: var -> 0, var+K / K+var -> K"""
    if e == var:
        return 0
    m = re.fullmatch(r"%s\+(\d+)" % re.escape(var), e) or re.fullmatch(r"(\d+)\+%s" % re.escape(var), e)
    if m:
        return int(m.group(1))
    raise TranslateError("densematrix.hh: luDecomposition: lower bound %r of the %s loop outside the grammar" % (e, what))


def _hi_minus(e, full, what):
    """upper bound: `full` -> 0, `full-K` -> K"""
    if e == full:
        return 0
    m = re.fullmatch(r"%s-(\d+)" % re.escape(full), e)
    if m:
        return int(m.group(1))
    raise TranslateError("densematrix.hh: luDecomposition: upper bound %r of the %s loop outside the grammar" % (e, what))


def _body_after(ns, sig_re, what):
    m = re.search(sig_re, ns)
    if not m:
        raise TranslateError("densematrix.hh: %s not found" % what)
    start = ns.index("{", m.end() - 1)
    depth, e = 0, start
    while True:
        if ns[e] == "{":
            depth += 1
        elif ns[e] == "}":
            depth -= 1
            if depth == 0:
                break
        e += 1
    return ns[start + 1:e]


def _order_independent_conds(body):
    """two adjacent statements `x = Simd::cond(m, ..); y = Simd::cond(m, ..);` under the same mask that do not read each other's target
    (and do not assign the mask) commute; canonical order: the one selecting a `simd_index_type(..)` comes second"""
    rx = re.compile(r"(?P<a>(?P<ta>%s)=Simd::cond\((?P<m>%s),(?P<aa>[^;]*)\);)(?P<b>(?P<tb>%s)=Simd::cond\((?P=m),(?P<ba>[^;]*)\);)" % (_ID, _ID, _ID))
    def repl(m):
        ta, tb, mk = m.group("ta"), m.group("tb"), m.group("m")
        ids_a, ids_b = set(re.findall(_ID, m.group("aa"))), set(re.findall(_ID, m.group("ba")))
        independent = ta != tb and mk not in (ta, tb) and ta not in ids_b and tb not in ids_a
        if independent and "simd_index_type(" in m.group("aa") and "simd_index_type(" not in m.group("ba"):
            return m.group("b") + m.group("a")
        return m.group(0)
    return rx.sub(repl, body)


def translate_lu(src):
    """densematrix.hh: everything in luDecomposition() / ElimDet / ElimPivot / Elim<V> / the LU branches of determinant(), solve(),
    invert() where a mask, a mask reduction, a `cond` or a loop bound decides what happens in a lane: the bounds and the comparison of
    the per-lane pivot search and the operand order of its two `cond`s, the update of nonsingularLanes, the two reductions that
    throw / return, the bounds of the elimination loops, the `cond` of ElimDet::swap and ElimPivot::swap, the `throwEarly` argument of
    the three callers and the `cond` that masks singular lanes of the determinant.  The straight-line arithmetic in between has to
    have the form the hand-written model follows (identifiers may be renamed, `k++`/`++k`, braces around single statements,
    `a -= f*b` / `a = a - f*b`, commuted factors and the operand order of `swap` are free); anything else fails loudly."""
    ns = nospace(normalise(strip_comments(src)))
    d = {}
    body = _body_after(ns, r"inlinevoidDenseMatrix<MAT>::luDecomposition\(DenseMatrix<MAT>&A,Funcfunc,Mask&nonsingularLanes,"
                           r"boolthrowEarly,booldoPivoting\)\{", "definition of luDecomposition")
    lane_swap_A = (r"swap\((?:Simd::lane\((?P=l),A\[(?P=i)\]\[(?P=j)\]\),Simd::lane\((?P=l),A\[Simd::lane\((?P=l),(?P=im)\)\]\[(?P=j)\]\)"
                   r"|Simd::lane\((?P=l),A\[Simd::lane\((?P=l),(?P=im)\)\]\[(?P=j)\]\),Simd::lane\((?P=l),A\[(?P=i)\]\[(?P=j)\]\))\);")
    update = (r"(?:A\[(?P=k2)\]\[(?P=j2)\]-=|A\[(?P=k2)\]\[(?P=j2)\]=A\[(?P=k2)\]\[(?P=j2)\]-)"
              r"(?:(?P=f)\*A\[(?P=i)\]\[(?P=j2)\]|A\[(?P=i)\]\[(?P=j2)\]\*(?P=f));")
    rx = (r"(?:usingstd::max;|usingstd::swap;)*"
          r"(?:typedeftypenameFieldTraits<value_type>::real_typereal_type;|usingreal_type=typenameFieldTraits<value_type>::real_type;)"
          r"for\(size_type(?P<i>" + _ID + r")=0;(?P=i)<A\.rows\(\);" + _inc("i") + r"\)\{"
          r"real_type(?P<pm>" + _ID + r")=fvmeta::absreal\(A\[(?P=i)\]\[(?P=i)\]\);"
          r"if\(doPivoting\)\{"
          r"simd_index_type(?P<im>" + _ID + r")=(?P=i);"
          r"for\(size_type(?P<k>" + _ID + r")=(?P<pivlo>[^;]+);(?P=k)<(?P<pivhi>[^;]+);" + _inc("k") + r"\)\{"
          r"auto(?P<ab>" + _ID + r")=fvmeta::absreal\(A\[(?P=k)\]\[(?P=i)\]\);"
          r"auto(?P<mk>" + _ID + r")=(?P<cl>" + _ID + r")(?P<cmp><=|>=|==|!=|<|>)(?P<cr>" + _ID + r");"
          r"(?P=pm)=Simd::cond\((?P=mk),(?P<pt>" + _ID + r"),(?P<pf>" + _ID + r")\);"
          r"(?P=im)=Simd::cond\((?P=mk),(?P<it>simd_index_type\(" + _ID + r"\)|" + _ID + r"),(?P<if>simd_index_type\(" + _ID + r"\)|" + _ID + r")\);"
          r"\}"
          r"for\(size_type(?P<j>" + _ID + r")=(?P<sjlo>[^;]+);(?P=j)<(?P<sjhi>[^;]+);" + _inc("j") + r"\)\{?"
          r"for\(std::size_t(?P<l>" + _ID + r")=(?P<sllo>[^;]+);(?P=l)<(?P<slhi>[^;]+);" + _inc("l") + r"\)\{?"
          + lane_swap_A +
          r"\}?\}?"
          r"func\.swap\((?P=i),(?P=im)\);"
          r"\}"
          r"nonsingularLanes=nonsingularLanes(?P<nsop>&&|\|\|)\((?P=pm)(?P<nscmp><=|>=|==|!=|<|>)real_type\(0\)\);"
          r"if\(throwEarly\)\{?if\((?P<tn>!?)Simd::(?P<tr>\w+)\(nonsingularLanes\)\)DUNE_THROW\(FMatrixError,\"[^\"]*\"\);\}?"
          r"else\{?if\((?P<rn>!?)Simd::(?P<rr>\w+)\(nonsingularLanes\)\)return;\}?"
          r"for\(size_type(?P<k2>" + _ID + r")=(?P<eklo>[^;]+);(?P=k2)<(?P<ekhi>[^;]+);" + _inc("k2") + r"\)\{"
          r"field_type(?P<f>" + _ID + r")=A\[(?P=k2)\]\[(?P=i)\]/A\[(?P=i)\]\[(?P=i)\];"
          r"A\[(?P=k2)\]\[(?P=i)\]=(?P=f);"
          r"for\(size_type(?P<j2>" + _ID + r")=(?P<ejlo>[^;]+);(?P=j2)<(?P<ejhi>[^;]+);" + _inc("j2") + r"\)\{?"
          + update +
          r"\}?"
          r"func\((?P=f),(?P=k2),(?P=i)\);"
          r"\}\}")
    m = re.fullmatch(rx, _order_independent_conds(body))
    if not m:
        raise TranslateError("densematrix.hh: luDecomposition outside the grammar (statement order, a new statement, another reduction "
                             "site or another form of the arithmetic)")
    g = m.groupdict()
    i_, k_, pm, ab, im = g["i"], g["k"], g["pm"], g["ab"], g["im"]
    d["pivLo"] = _lo_offset(g["pivlo"], i_, "pivot search")
    d["pivHiMinus"] = _hi_minus(g["pivhi"], "A.rows()", "pivot search")
    if {g["cl"], g["cr"]} != {ab, pm}:
        raise TranslateError("densematrix.hh: luDecomposition: the pivot comparison must compare %s with %s" % (ab, pm))
    cmp_ = g["cmp"] if g["cl"] == ab else _MIRROR[g["cmp"]]          # normalised to `abs CMP pivmax`
    d["pivCmp"] = SYMBOL_NAMES[cmp_]
    for key, val in (("pivmaxT", g["pt"]), ("pivmaxF", g["pf"])):
        if val not in (ab, pm):
            raise TranslateError("densematrix.hh: luDecomposition: operand %r of the pivmax cond" % val)
        d[key + "Abs"] = (val == ab)
    for key, val in (("imaxT", g["it"]), ("imaxF", g["if"])):
        if val == "simd_index_type(%s)" % k_:
            d[key + "K"] = True
        elif val == im:
            d[key + "K"] = False
        else:
            raise TranslateError("densematrix.hh: luDecomposition: operand %r of the imax cond" % val)
    # the lane-wise row swap runs over all columns and all lanes
    if g["sjlo"] != "0":
        raise TranslateError("densematrix.hh: luDecomposition: the row swap must start at column 0 (is %r)" % g["sjlo"])
    if g["sjhi"] != "A.rows()":
        raise TranslateError("densematrix.hh: luDecomposition: the row swap must run over all columns (bound %r)" % g["sjhi"])
    if g["sllo"] != "0" or g["slhi"] != "Simd::lanes(A[%s][%s])" % (i_, g["j"]):
        raise TranslateError("densematrix.hh: luDecomposition: the row swap must run over all lanes (%r .. %r)" % (g["sllo"], g["slhi"]))
    d["nsOp"] = SYMBOL_NAMES[g["nsop"]]
    d["nsCmp"] = SYMBOL_NAMES[g["nscmp"]]
    for key, neg, red in (("throw", g["tn"], g["tr"]), ("ret", g["rn"], g["rr"])):
        if red not in ("anyTrue", "allTrue", "anyFalse", "allFalse"):
            raise TranslateError("densematrix.hh: luDecomposition: unknown reduction %s" % red)
        # `anyFalse(m)` is `!allTrue(m)`, `allFalse(m)` is `!anyTrue(m)` (defaults.hh / loop.hh, theorems anyFalse_iff, allFalse_iff):
        # normalised to the positive reductions so that the equivalent spellings give the same table
        negated = (neg == "!")
        if red == "anyFalse":
            red, negated = "allTrue", not negated
        elif red == "allFalse":
            red, negated = "anyTrue", not negated
        d[key + "Not"] = negated
        d[key + "Red"] = red
    d["elimKLo"] = _lo_offset(g["eklo"], i_, "elimination (rows)")
    d["elimKHiMinus"] = _hi_minus(g["ekhi"], "A.rows()", "elimination (rows)")
    d["elimJLo"] = _lo_offset(g["ejlo"], i_, "elimination (columns)")
    d["elimJHiMinus"] = _hi_minus(g["ejhi"], "A.rows()", "elimination (columns)")

    # ElimDet::swap (defined in the class body)
    m = re.search(r"structElimDet\{ElimDet\(field_type&sign\):sign_\(sign\)\{sign_=1;\}"
                  r"voidswap\(std::size_t(?P<i>" + _ID + r"),simd_index_type(?P<j>" + _ID + r")\)\{"
                  r"(?:sign_\*=|sign_=sign_\*)Simd::cond\((?:simd_index_type|Simd::Scalar<simd_index_type>)\((?P=i)\)(?P<cmp>==|!=)(?P=j),"
                  r"field_type\((?P<t>-?1)\),field_type\((?P<f>-?1)\)\);\}"
                  r"voidoperator\(\)\(constfield_type&,int,int\)\{\}field_type&sign_;\};", ns)
    if not m:
        raise TranslateError("densematrix.hh: ElimDet outside the grammar")
    # `cond(i != j, a, b)` is `cond(i == j, b, a)`: normalised to `==`
    t_, f_ = (m.group("t"), m.group("f")) if m.group("cmp") == "==" else (m.group("f"), m.group("t"))
    d["detCmp"] = "eq"
    d["detTPos"] = (t_ == "1")
    d["detFPos"] = (f_ == "1")
    # ElimPivot
    if not re.search(r"DenseMatrix<MAT>::ElimPivot::ElimPivot\(std::vector<simd_index_type>&pivot\):pivot_\(pivot\)\{"
                     r"typedeftypenamestd::vector<size_type>::size_typesize_type;"
                     r"for\(size_type(?P<i>" + _ID + r")=0;(?P=i)<pivot_\.size\(\);" + _inc("i") + r"\)pivot_\[(?P=i)\]=(?P=i);\}", ns):
        raise TranslateError("densematrix.hh: ElimPivot constructor outside the grammar")
    if "structElimPivot{ElimPivot(std::vector<simd_index_type>&pivot);voidswap(std::size_ti,simd_index_typej);template<typenameT>" \
       "voidoperator()(constT&,int,int){}std::vector<simd_index_type>&pivot_;};" not in ns:
        raise TranslateError("densematrix.hh: ElimPivot declaration outside the grammar")
    m = re.search(r"voidDenseMatrix<MAT>::ElimPivot::swap\(std::size_t(?P<i>" + _ID + r"),simd_index_type(?P<j>" + _ID + r")\)\{"
                  r"pivot_\[(?P=i)\]=Simd::cond\((?:simd_index_type|Simd::Scalar<simd_index_type>)\((?P=i)\)(?P<cmp>==|!=)(?P=j),"
                  r"(?P<t>pivot_\[(?P=i)\]|(?P=j)),(?P<f>pivot_\[(?P=i)\]|(?P=j))\);\}", ns)
    if not m:
        raise TranslateError("densematrix.hh: ElimPivot::swap outside the grammar")
    t_, f_ = (m.group("t"), m.group("f")) if m.group("cmp") == "==" else (m.group("f"), m.group("t"))
    d["pvtCmp"] = "eq"
    d["pvtTOld"] = t_.startswith("pivot_")
    d["pvtFOld"] = f_.startswith("pivot_")
    # invert(): the two triangular solves with the identity and the lane-wise un-permutation (no decision is data here; the form
    # the hand-written model follows is insisted on, identifiers and increments are free)
    if not re.search(r"luDecomposition\(A,ElimPivot\(pivot\),nonsingularLanes,\w+,doPivoting\);auto&L=A;auto&U=A;\*this=field_type\(0\);"
                     r"for\(size_type(?P<a>" + _ID + r")=0;(?P=a)<rows\(\);" + _inc("a") + r"\)\{?\(\*this\)\[(?P=a)\]\[(?P=a)\]=1;\}?"
                     r"for\(size_type(?P<i>" + _ID + r")=0;(?P=i)<rows\(\);" + _inc("i") + r"\)\{?"
                     r"for\(size_type(?P<j>" + _ID + r")=0;(?P=j)<(?P=i);" + _inc("j") + r"\)\{?"
                     r"for\(size_type(?P<k>" + _ID + r")=0;(?P=k)<rows\(\);" + _inc("k") + r"\)\{?"
                     r"\(\*this\)\[(?P=i)\]\[(?P=k)\]-=L\[(?P=i)\]\[(?P=j)\]\*\(\*this\)\[(?P=j)\]\[(?P=k)\];\}?\}?\}?"
                     r"for\(size_type(?P<i2>" + _ID + r")=rows\(\);(?P=i2)>0;\)\{--(?P=i2);"
                     r"for\(size_type(?P<k2>" + _ID + r")=0;(?P=k2)<rows\(\);" + _inc("k2") + r"\)\{"
                     r"for\(size_type(?P<j2>" + _ID + r")=(?P=i2)\+1;(?P=j2)<rows\(\);" + _inc("j2") + r"\)\{?"
                     r"\(\*this\)\[(?P=i2)\]\[(?P=k2)\]-=U\[(?P=i2)\]\[(?P=j2)\]\*\(\*this\)\[(?P=j2)\]\[(?P=k2)\];\}?"
                     r"\(\*this\)\[(?P=i2)\]\[(?P=k2)\]/=U\[(?P=i2)\]\[(?P=i2)\];\}\}"
                     r"for\(size_type(?P<i3>" + _ID + r")=rows\(\);(?P=i3)>0;\)\{--(?P=i3);"
                     r"for\(std::size_t(?P<l>" + _ID + r")=0;(?P=l)<Simd::lanes\(\(\*this\)\[0\]\[0\]\);" + _inc("l") + r"\)\{"
                     r"std::size_t(?P<pi>" + _ID + r")=Simd::lane\((?P=l),pivot\[(?P=i3)\]\);"
                     r"if\((?:(?P=i3)!=(?P=pi)|(?P=pi)!=(?P=i3))\)\{?"
                     r"for\(size_type(?P<j3>" + _ID + r")=0;(?P=j3)<rows\(\);" + _inc("j3") + r"\)\{?"
                     r"swap\((?:Simd::lane\((?P=l),\(\*this\)\[(?P=j3)\]\[(?P=pi)\]\),Simd::lane\((?P=l),\(\*this\)\[(?P=j3)\]\[(?P=i3)\]\)"
                     r"|Simd::lane\((?P=l),\(\*this\)\[(?P=j3)\]\[(?P=i3)\]\),Simd::lane\((?P=l),\(\*this\)\[(?P=j3)\]\[(?P=pi)\]\))\);"
                     r"\}?\}?\}\}\}\}", ns):
        raise TranslateError("densematrix.hh: invert(): triangular solves / lane-wise un-permutation after luDecomposition outside the grammar")
    # solve(): backsolve after the decomposition
    if not re.search(r"luDecomposition\(A,elim,nonsingularLanes,\w+,doPivoting\);"
                     r"for\(int(?P<i>" + _ID + r")=rows\(\)-1;(?P=i)>=0;(?:(?P=i)--|--(?P=i))\)\{"
                     r"for\(size_type(?P<j>" + _ID + r")=(?P=i)\+1;(?P=j)<rows\(\);" + _inc("j") + r"\)\{?"
                     r"rhs\[(?P=i)\]-=A\[(?P=i)\]\[(?P=j)\]\*x\[(?P=j)\];\}?"
                     r"x\[(?P=i)\]=rhs\[(?P=i)\]/A\[(?P=i)\]\[(?P=i)\];\}\}\}", ns):
        raise TranslateError("densematrix.hh: solve(): backsolve after luDecomposition outside the grammar")
    # Elim<V>: lane-wise swap of the right-hand side, elimination step (no decision: the form is insisted on)
    a_, b_ = r"Simd::lane\((?P=l),\(\*rhs_\)\[(?P=i)\]\)", r"Simd::lane\((?P=l),\(\*rhs_\)\[Simd::lane\((?P=l),(?P=j)\)\]\)"
    if not re.search(r"voidDenseMatrix<MAT>::Elim<V>::swap\(std::size_t(?P<i>" + _ID + r"),simd_index_type(?P<j>" + _ID + r")\)\{"
                     r"usingstd::swap;for\(std::size_t(?P<l>" + _ID + r")=0;(?P=l)<Simd::lanes\((?P=j)\);" + _inc("l") + r"\)\{?"
                     r"swap\((?:" + a_ + "," + b_ + "|" + b_ + "," + a_ + r")\);\}?\}", ns):
        raise TranslateError("densematrix.hh: Elim<V>::swap outside the grammar")
    if not re.search(r"Elim<V>::operator\(\)\(consttypenameV::field_type&(?P<f>" + _ID + r"),int(?P<k>" + _ID + r"),int(?P<i>" + _ID + r")\)\{"
                     r"(?:\(\*rhs_\)\[(?P=k)\]-=|\(\*rhs_\)\[(?P=k)\]=\(\*rhs_\)\[(?P=k)\]-)"
                     r"(?:(?P=f)\*\(\*rhs_\)\[(?P=i)\]|\(\*rhs_\)\[(?P=i)\]\*(?P=f));\}", ns):
        raise TranslateError("densematrix.hh: Elim<V>::operator() outside the grammar")
    # the three callers: which mode, which functor, how singular lanes are masked
    calls = re.findall(r"luDecomposition\(A,([^,;]+),nonsingularLanes,(\w+),doPivoting\);", ns)
    if len(calls) != 3 or ns.count("luDecomposition(") != 5:   # declaration + definition + three calls
        raise TranslateError("densematrix.hh: expected exactly the three calls of luDecomposition in solve/invert/determinant")
    by_func = {}
    for func, te in calls:
        if te not in ("true", "false"):
            raise TranslateError("densematrix.hh: throwEarly argument %r" % te)
        by_func[func] = (te == "true")
    if set(by_func) != {"elim", "ElimPivot(pivot)", "ElimDet(det)"}:
        raise TranslateError("densematrix.hh: functors of the luDecomposition calls: %r" % sorted(by_func))
    d["solveThrowEarly"] = by_func["elim"]
    d["invertThrowEarly"] = by_func["ElimPivot(pivot)"]
    d["detThrowEarly"] = by_func["ElimDet(det)"]
    if len(re.findall(r"Simd::Mask<typenameFieldTraits<value_type>::real_type>nonsingularLanes\(true\);", ns)) != 3:
        raise TranslateError("densematrix.hh: nonsingularLanes must start as all-true in solve/invert/determinant")
    m = re.search(r"luDecomposition\(A,ElimDet\(det\),nonsingularLanes,\w+,doPivoting\);"
                  r"for\(size_type(?P<i>" + _ID + r")=0;(?P=i)<rows\(\);" + _inc("i") + r"\)\{?(?:det\*=A\[(?P=i)\]\[(?P=i)\]|det=det\*A\[(?P=i)\]\[(?P=i)\]);\}?"
                  r"(?P<asg>det=|return)Simd::cond\(nonsingularLanes,(?P<t>det|field_type\(0\)),(?P<f>det|field_type\(0\))\);(?P<ret>returndet;)?\}", ns)
    # `det = cond(..); return det;` or `return cond(..);` (cond(mask, V, V) returns a V = field_type, the type of det)
    if not m or (m.group("asg") == "det=") != bool(m.group("ret")):
        raise TranslateError("densematrix.hh: determinant(): product of the diagonal / masking of singular lanes outside the grammar")
    d["detMaskTDet"] = (m.group("t") == "det")
    d["detMaskFDet"] = (m.group("f") == "det")
    return d


KERNEL_NAMES = ("mv", "mtv", "umv", "umtv", "umhv", "mmv", "mmtv", "mmhv", "usmv", "usmtv", "usmhv")


def translate_kernels(src):
    """densematrix.hh: the eleven matrix-vector kernels.  Each must be a plain loop nest over rows() x cols() with ONE update statement
    `yy[D] +=|-= [alpha *] [conjugateComplex](*this)[P][Q] * xx[E]` (optionally `yy[I] = y_field_type(0)` in front of the inner loop):
    which loop runs over the rows, which index addresses the result, + or -, scaled or not, conjugated or not is DATA (the model
    executes it, the lane-wise theorem holds for every such shape).  Any other statement in a kernel -- a test, a mask reduction, an
    early return, a second update -- is outside the grammar and fails loudly."""
    ns = nospace(normalise(strip_comments(src)))
    res = {}
    for name in KERNEL_NAMES:
        sig = r"void%s\((?P<al>consttypenameFieldTraits<Y>::field_type&alpha,)?constX&x,Y&y\)const\{" % name
        ms = list(re.finditer(sig, ns))
        if len(ms) != 1:
            raise TranslateError("densematrix.hh: kernel %s: expected exactly one definition" % name)
        body = _body_after(ns, sig, "kernel " + name)
        aexpr = r"(?P<cj>conjugateComplex\()?\(\*this\)\[(?P<p>" + _ID + r")\]\[(?P<q>" + _ID + r")\]\)?"
        xexpr = r"xx\[(?P<e>" + _ID + r")\]"
        rx = (r"auto&&xx=Impl::asVector\(x\);auto&&yy=Impl::asVector\(y\);"
              r"(?:DUNE_ASSERT_BOUNDS\([^;]*\);)*"
              r"(?:usingy_field_type=typenameFieldTraits<Y>::field_type;)?"
              r"for\(size_type(?P<i>" + _ID + r")=0;(?P=i)<(?P<ob>rows|cols)\(\);" + _inc("i") + r"\)\{?"
              r"(?P<init>yy\[(?P=i)\]=y_field_type\(0\);)?"
              r"for\(size_type(?P<j>" + _ID + r")=0;(?P=j)<(?P<ib>rows|cols)\(\);" + _inc("j") + r"\)\{?"
              r"(?:yy\[(?P<d>" + _ID + r")\](?P<op>\+=|-=)|yy\[(?P<d2>" + _ID + r")\]=yy\[(?P=d2)\](?P<op2>\+|-))"
              r"(?:(?P<sc>alpha\*)?" + aexpr + r"\*" + xexpr + r"|xx\[(?P<e2>" + _ID + r")\]\*(?P<cj2>conjugateComplex\()?\(\*this\)\[(?P<p2>" + _ID + r")\]\[(?P<q2>" + _ID + r")\]\)?);"
              r"\}?\}?")
        m = re.fullmatch(rx, body)
        if not m:
            raise TranslateError("densematrix.hh: kernel %s outside the grammar (a plain loop nest with one update statement)" % name)
        g = m.groupdict()
        i_, j_ = g["i"], g["j"]
        d_ = g["d"] or g["d2"]
        op = g["op"][0] if g["op"] else g["op2"]
        p_, q_, e_ = (g["p"], g["q"], g["e"]) if g["p"] else (g["p2"], g["q2"], g["e2"])
        conj = bool(g["cj"] or g["cj2"])
        if body.count("conjugateComplex(") != (1 if conj else 0):
            raise TranslateError("densematrix.hh: kernel %s: conjugateComplex outside the grammar" % name)
        scaled = bool(g["sc"])
        if scaled != bool(ms[0].group("al")):
            raise TranslateError("densematrix.hh: kernel %s: the factor alpha and the parameter alpha do not go together" % name)
        key = (g["ob"], g["ib"], d_ == i_, (p_, q_) == (i_, j_), e_ == j_)
        if (p_, q_) not in ((i_, j_), (j_, i_)) or d_ not in (i_, j_) or e_ not in (i_, j_):
            raise TranslateError("densematrix.hh: kernel %s: index outside the grammar" % name)
        form = {("rows", "cols", True, True, True): "n", ("rows", "cols", False, True, False): "t",
                ("cols", "rows", True, False, True): "mtv"}.get(key)
        if form is None:
            raise TranslateError("densematrix.hh: kernel %s: loop nest / index pattern %r outside the three known forms" % (name, key))
        if form == "t" and g["init"]:
            raise TranslateError("densematrix.hh: kernel %s: initialisation inside a transposed accumulation" % name)
        wanted_n = name in ("mv", "umv", "mmv", "usmv")
        if (form == "n") != wanted_n:
            raise TranslateError("densematrix.hh: kernel %s: result vector has the other dimension" % name)
        res[name] = dict(form=form, init=bool(g["init"]), sub=(op == "-"), scaled=scaled, conj=conj)
    return res


def translate_spec(md):
    """the operator table of simd/DESIGN.md"""
    text = re.sub(r"\s+", " ", md)
    def ops_after(anchor):
        i = text.find(anchor)
        if i < 0:
            raise TranslateError("DESIGN.md: %r not found" % anchor)
        m = re.search(r"where `@` is one of\s*(.*?)\)", text[i:])
        if not m:
            raise TranslateError("DESIGN.md: operator list after %r not found" % anchor)
        return re.findall(r"`([^`]+)`", m.group(1))
    spec = {
        "specUnary": ops_after("for any unary arithmetic expression"),
        "specBinary": ops_after("for any binary arithmetic expression"),
        "specAssign": ops_after("for any compound assignment expression"),
        "specCompare": ops_after("for any comparison expression"),
        "specLogic": ops_after("for any binary logic expression"),
    }
    if "for the unary logic expression `!v1`" not in text:
        raise TranslateError("DESIGN.md: unary logic expression not found")
    return spec


# ------------------------------------------------------------------------------------------------
# emit
# ------------------------------------------------------------------------------------------------

def lean_str_list(xs):
    return "[" + ", ".join('"%s"' % x for x in xs) + "]"


def ctor_names(symbols, table, what):
    res = []
    for s in symbols:
        if s not in table:
            raise TranslateError("%s: operator %r has no model" % (what, s))
        res.append(table[s])
    if len(set(res)) != len(res):
        raise TranslateError("%s: operator listed twice" % what)
    return res


def inductive(name, ctors, symbols):
    out = ["inductive %s where" % name]
    out += ["  | %s" % c for c in ctors]
    out.append("  deriving DecidableEq, Repr")
    out.append("def %s.all : List %s := [%s]" % (name, name, ", ".join("." + c for c in ctors)))
    out.append("def %s.symbol : %s → String" % (name, name))
    out += ['  | .%s => "%s"' % (c, s) for c, s in zip(ctors, symbols)]
    return out


def translate(repo):
    rd = lambda p: open(os.path.join(repo, p)).read()
    loops, reds, inv, lane_inner, lane_outer, traits = translate_loop_hh(rd("dune/common/simd/loop.hh"))
    scalar_cond = translate_interface(rd("dune/common/simd/interface.hh"))
    scalar_reds = translate_standard(rd("dune/common/simd/standard.hh"))
    dflt = translate_defaults(rd("dune/common/simd/defaults.hh"))
    spec = translate_spec(rd("dune/common/simd/DESIGN.md"))
    chk_solve, chk_invert = translate_densematrix(rd("dune/common/densematrix.hh"))
    lu = translate_lu(rd("dune/common/densematrix.hh"))
    kernels = translate_kernels(rd("dune/common/densematrix.hh"))

    def syms(macro):
        return [a[0] for a in inv["DUNE_SIMD_LOOP_" + macro]]

    g = ["-- GENERATED by tools/translators/tr_c09.py from dune/common/simd/{loop,interface,standard,defaults}.hh and",
         "-- dune/common/simd/DESIGN.md -- do not edit",
         "namespace DV.C09.Gen",
         "",
         "/-- index expression of a per-lane statement (`i` is the loop variable, `S` the number of entries) -/",
         "inductive Ix where",
         "  | i | const (k : Nat) | plus (k : Nat) | minus (k : Nat) | rev",
         "  deriving DecidableEq, Repr",
         "",
         "/-- operand of a per-lane statement: the `which`-th vector operand (`*this` first, then the vector",
         "    parameters in declaration order) read at an index, or the scalar parameter -/",
         "inductive Opd where",
         "  | vec (which : Nat) (ix : Ix) | scalar",
         "  deriving DecidableEq, Repr",
         "",
         "/-- declared type of the scalar parameter of an overload: `Simd::Scalar<T>` (`laneScalar`: the call converts the",
         "    argument to the lanes' scalar type), `Simd::Mask<T>` (`laneMask`: converted to the mask type of an entry), a free",
         "    template parameter (`own`: the argument keeps its type, every lane applies the built-in mixed-type operation) -/",
         "inductive ScalarParam where",
         "  | none | laneScalar | laneMask | own",
         "  deriving DecidableEq, Repr",
         "",
         "/-- `for (i = lo; i < S - hiMinus; i++) dst[dst] = OP(args...)`; `inPlace`: the destination is `*this`;",
         "    `scalarByRef`: how the scalar operand (if any) is passed; `scalarTy`: its declared type -/",
         "structure Loop where",
         "  lo : Nat",
         "  hiMinus : Nat",
         "  dst : Ix",
         "  inPlace : Bool",
         "  args : List Opd",
         "  /-- the scalar parameter is taken by reference (`const Scalar<T>&`) instead of by value -/",
         "  scalarByRef : Bool",
         "  scalarTy : ScalarParam",
         "  deriving DecidableEq, Repr",
         "",
         "inductive RedKind where",
         "  | anyTrue | allTrue | anyFalse | allFalse",
         "  deriving DecidableEq, Repr",
         "",
         "/-- `bool out = init; for (i = lo; i < S - hiMinus; i++) out |= / &= inner(mask[ix]); return out;` -/",
         "structure Reduce where",
         "  init : Bool",
         "  isOr : Bool",
         "  inner : RedKind",
         "  lo : Nat",
         "  hiMinus : Nat",
         "  ix : Ix",
         "  deriving DecidableEq, Repr",
         ""]
    g.append("/-- names of the comparison / logic operators (independent of which of them loop.hh defines) -/")
    g.append("inductive CmpOpName where")
    g.append("  | lt | gt | le | ge | eq | ne")
    g.append("  deriving DecidableEq, Repr")
    g.append("inductive BoolOpName where")
    g.append("  | land | lor")
    g.append("  deriving DecidableEq, Repr")
    g.append("")
    for name in sorted(loops):
        g.append("def %s : Loop := %s" % (name, loops[name]))
    g.append("")
    for fn in ("anyTrue", "allTrue", "anyFalse", "allFalse"):
        g.append("def red_%s : Reduce := %s" % (fn, reds[fn]))
    g.append("def reduceOf : RedKind → Reduce")
    for fn in ("anyTrue", "allTrue", "anyFalse", "allFalse"):
        g.append("  | .%s => red_%s" % (fn, fn))
    g.append("/-- standard.hh: the reductions of a scalar `bool` -/")
    g.append("def scalarReduce : RedKind → Bool → Bool")
    for fn in ("anyTrue", "allTrue", "anyFalse", "allFalse"):
        g.append("  | .%s, mask => %smask" % (fn, "!" if scalar_reds[fn] else ""))
    g.append("/-- interface.hh: `cond(bool mask, ifTrue, ifFalse)` -/")
    g.append(scalar_cond)
    g.append("/-- loop.hh: `lane(l, v)` of a vector whose entries have `n` lanes reads lane `laneInner l n` of entry `laneOuter l n` -/")
    g.append("def laneInner (l n : Nat) : Nat := %s" % lane_inner)
    g.append("def laneOuter (l n : Nat) : Nat := %s" % lane_outer)
    g.append("def laneCount (S n : Nat) : Nat := S * n")
    g.append("")
    # type-level functions (loop.hh / standard.hh): Simd::Scalar, Simd::Rebind, Simd::lanes
    g.append("/-- a type of the abstraction layer: a built-in scalar (by name) or `LoopSIMD<inner, S>` -/")
    g.append("inductive Ty where")
    g.append("  | scalar (name : String) | loop (inner : Ty) (S : Nat)")
    g.append("  deriving DecidableEq, Repr")
    g.append("/-- `Simd::Scalar<V>` (standard.hh: `V`; loop.hh: the specialisation for LoopSIMD) -/")
    g.append("def Ty.scalarOf : Ty → Ty")
    g.append("  | .scalar s => .scalar s")
    g.append("  | .loop t _ => %s" % traits["scalar_loop"].replace("scalarOf t", "Ty.scalarOf t"))
    g.append("/-- `Simd::Rebind<U, V>` (standard.hh: `U`; loop.hh: the specialisation for LoopSIMD) -/")
    g.append("def Ty.rebind (u : Ty) : Ty → Ty")
    g.append("  | .scalar _ => u")
    g.append("  | .loop t S => .loop (%s) S" % traits["rebind_loop"].replace("rebind u t", "Ty.rebind u t"))
    g.append("/-- `Simd::lanes<V>()` -/")
    g.append("def Ty.lanes : Ty → Nat")
    g.append("  | .scalar _ => %d" % scalar_reds["lanes"])
    g.append("  | .loop t S => laneCount S (Ty.lanes t)")
    g.append("")
    # defaults.hh
    g.append("/-- defaults.hh: a reduction expressed through the mandatory `anyTrue`: `[!] anyTrue([!] mask)` -/")
    g.append("structure DefRed where")
    g.append("  outerNot : Bool")
    g.append("  innerNot : Bool")
    g.append("  deriving DecidableEq, Repr")
    for fn in ("allTrue", "anyFalse", "allFalse"):
        g.append("def defred_%s : DefRed := { outerNot := %s, innerNot := %s }" % (
            fn, "true" if dflt[fn][0] else "false", "true" if dflt[fn][1] else "false"))
    g.append("/-- defaults.hh: `m = lane(init, v); for (l = lo; l < lanes(v) - hiMinus; ++l) if (TEST) m = lane(l, v);` with")
    g.append("    TEST = `m < lane(l, v)` (`accLeft`) or `lane(l, v) < m` -/")
    g.append("structure HLoop where")
    g.append("  init : Nat")
    g.append("  lo : Nat")
    g.append("  hiMinus : Nat")
    g.append("  accLeft : Bool")
    g.append("  deriving DecidableEq, Repr")
    for fn in ("max", "min"):
        i0, lo, hm, left = dflt["h" + fn]
        g.append("def hloop_%s : HLoop := { init := %d, lo := %d, hiMinus := %d, accLeft := %s }" % (
            fn, i0, lo, hm, "true" if left else "false"))
    g.append("/-- defaults.hh: `mask(v) = v OP 0`, `maskOr(v1, v2) = mask(v1) OP mask(v2)`, `maskAnd` likewise -/")
    g.append("def maskCmp : CmpOpName := .%s" % dflt["mask"])
    g.append("def maskOrOp : BoolOpName := .%s" % dflt["maskOr"])
    g.append("def maskAndOp : BoolOpName := .%s" % dflt["maskAnd"])
    g.append("/-- defaults.hh: `implCast`: `for l in range(lanes(u)): lane(DST, result) = lane(SRC, u)` on a zero-initialised result -/")
    g.append("def implCastDst : Ix := %s" % dflt["implCast"][0])
    g.append("def implCastSrc : Ix := %s" % dflt["implCast"][1])
    g.append("")
    # densematrix.hh, configuration DUNE_FMatrix_WITH_CHECKING
    g.append("/-- densematrix.hh with DUNE_FMatrix_WITH_CHECKING: the singularity test in front of the closed form for `n`:")
    g.append("    `if (Simd::RED(fvmeta::absreal(det) CMP FMatrixPrecision<>::absolute_limit())) DUNE_THROW(FMatrixError, …)` -/")
    def chk_list(d):
        return "[" + ", ".join("(%d, .%s, .%s)" % (n_, d[n_][0], d[n_][1]) for n_ in sorted(d)) + "]"
    g.append("def chkSolve : List (Nat × RedKind × CmpOpName) := %s" % chk_list(chk_solve))
    g.append("def chkInvert : List (Nat × RedKind × CmpOpName) := %s" % chk_list(chk_invert))
    g.append("")
    # (round 4) densematrix.hh: control skeleton of luDecomposition, its functors and callers
    g.append("/-- densematrix.hh, `luDecomposition` and what surrounds it: every place where a mask, a mask reduction, a `cond` or a loop")
    g.append("    bound decides what happens in a lane.")
    g.append("    pivot search `for (k = i + pivLo; k < rows - pivHiMinus; k++) { abs = |A[k][i]|; mask = abs pivCmp pivmax;")
    g.append("    pivmax = cond(mask, pivmaxT, pivmaxF); imax = cond(mask, imaxT, imaxF); }` (`…Abs`: the operand is `abs`, else `pivmax`;")
    g.append("    `…K`: the operand is `simd_index_type(k)`, else `imax`); `nonsingularLanes = nonsingularLanes nsOp (pivmax nsCmp 0)`;")
    g.append("    `if (throwEarly) { if ([!]throwRed(nonsingularLanes)) throw } else { if ([!]retRed(nonsingularLanes)) return }`;")
    g.append("    elimination `for (k = i + elimKLo; k < rows - elimKHiMinus; …) for (j = i + elimJLo; j < rows - elimJHiMinus; …)`;")
    g.append("    `ElimDet::swap`: `sign *= cond(i detCmp j, ±1, ±1)`; `ElimPivot::swap`: `pivot[i] = cond(i pvtCmp j, T, F)` (`…Old`: the")
    g.append("    operand is `pivot[i]`, else `j`); the `throwEarly` argument of the calls in solve / invert / determinant;")
    g.append("    `det = cond(nonsingularLanes, T, F)` (`…Det`: the operand is `det`, else `field_type(0)`) -/")
    g.append("structure LUCtl where")
    bools = ("pivmaxTAbs", "pivmaxFAbs", "imaxTK", "imaxFK", "throwNot", "retNot", "detTPos", "detFPos", "pvtTOld", "pvtFOld",
             "solveThrowEarly", "invertThrowEarly", "detThrowEarly", "detMaskTDet", "detMaskFDet")
    nats = ("pivLo", "pivHiMinus", "elimKLo", "elimKHiMinus", "elimJLo", "elimJHiMinus")
    cmps = ("pivCmp", "nsCmp", "detCmp", "pvtCmp")
    reds_ = ("throwRed", "retRed")
    for f in nats:
        g.append("  %s : Nat" % f)
    for f in cmps:
        g.append("  %s : CmpOpName" % f)
    g.append("  nsOp : BoolOpName")
    for f in reds_:
        g.append("  %s : RedKind" % f)
    for f in bools:
        g.append("  %s : Bool" % f)
    g.append("  deriving DecidableEq, Repr")
    fields = (["%s := %d" % (f, lu[f]) for f in nats] + ["%s := .%s" % (f, lu[f]) for f in cmps] + ["nsOp := .%s" % lu["nsOp"]]
              + ["%s := .%s" % (f, lu[f]) for f in reds_] + ["%s := %s" % (f, "true" if lu[f] else "false") for f in bools])
    g.append("def luCtl : LUCtl :=\n  { " + ",\n    ".join(", ".join(fields[i:i + 5]) for i in range(0, len(fields), 5)) + " }")
    g.append("")
    # (round 4) densematrix.hh: the matrix-vector kernels as data
    g.append("/-- densematrix.hh: form of a matrix-vector kernel.  `n`: `for i < rows { [y[i] = 0;] for j < cols: y[i] ±= T(A[i][j]) * x[j] }`;")
    g.append("    `t`: `for i < rows for j < cols: y[j] ±= T(A[i][j]) * x[i]`; `mtv`: `for i < cols { [y[i] = 0;] for j < rows: y[i] ±= T(A[j][i]) * x[j] }`;")
    g.append("    `T(a)` = `[alpha *] [conjugateComplex](a)` -/")
    g.append("inductive KForm where")
    g.append("  | n | t | mtv")
    g.append("  deriving DecidableEq, Repr")
    g.append("structure KShape where")
    g.append("  form : KForm")
    g.append("  init : Bool")
    g.append("  sub : Bool")
    g.append("  scaled : Bool")
    g.append("  conj : Bool")
    g.append("  deriving DecidableEq, Repr")
    tf = lambda b: "true" if b else "false"
    for name in KERNEL_NAMES:
        k = kernels[name]
        g.append("def kernel_%s : KShape := { form := .%s, init := %s, sub := %s, scaled := %s, conj := %s }" % (
            name, k["form"], tf(k["init"]), tf(k["sub"]), tf(k["scaled"]), tf(k["conj"])))
    g.append("def kernelTable : List (String × KShape) := [%s]" % ", ".join('("%s", kernel_%s)' % (n_, n_) for n_ in KERNEL_NAMES))
    g.append("")
    # operator lists
    un = syms("UNARY_OP")
    g += inductive("UnOp", ctor_names(un, UNARY_NAMES, "unary"), un)
    pre = syms("PREFIX_OP")
    post = syms("POSTFIX_OP")
    if pre != post:
        raise TranslateError("prefix and postfix operator lists differ")
    g += inductive("IncOp", ctor_names(pre, SYMBOL_NAMES, "prefix"), pre)
    bi = syms("BINARY_OP")
    g += inductive("BinOp", ctor_names(bi, SYMBOL_NAMES, "binary"), bi)
    sh = syms("BITSHIFT_OP")
    g += inductive("ShiftOp", ctor_names(sh, SYMBOL_NAMES, "shift"), sh)
    asg = syms("ASSIGNMENT_OP")
    for a in asg:
        if not a.endswith("="):
            raise TranslateError("assignment operator %r" % a)
    g += inductive("AssignOp", ctor_names([a[:-1] for a in asg], SYMBOL_NAMES, "assignment"), asg)
    cmp_ = syms("COMPARISON_OP")
    g += inductive("CmpOp", ctor_names(cmp_, SYMBOL_NAMES, "comparison"), cmp_)
    bo = syms("BOOLEAN_OP")
    g += inductive("BoolOp", ctor_names(bo, SYMBOL_NAMES, "boolean"), bo)
    mathsame = syms("CMATH_UNARY_OP")
    mathret = inv["DUNE_SIMD_LOOP_CMATH_UNARY_OP_WITH_RETURN"]
    stdun = syms("STD_UNARY_OP")
    stdbin = syms("STD_BINARY_OP")
    for n_ in mathsame + [a[0] for a in mathret] + stdun + stdbin:
        if not re.fullmatch(r"[a-z][a-z0-9]*", n_):
            raise TranslateError("function name %r" % n_)
    g += inductive("MathOp", ["f_" + n_ for n_ in mathsame], mathsame)
    g += inductive("MathRetOp", ["f_" + a[0] for a in mathret], [a[0] for a in mathret])
    g.append("def MathRetOp.returnType : MathRetOp → String")
    for a in mathret:
        g.append('  | .f_%s => "%s"' % (a[0], a[1]))
    g += inductive("StdUnOp", ["f_" + n_ for n_ in stdun], stdun)
    g += inductive("StdBinOp", ["f_" + n_ for n_ in stdbin], stdbin)
    g.append("")
    g.append("-- the operator table of the specification (dune/common/simd/DESIGN.md)")
    for k in ("specUnary", "specBinary", "specAssign", "specCompare", "specLogic"):
        g.append("def %s : List String := %s" % (k, lean_str_list(spec[k])))
    g.append("")
    g.append("end DV.C09.Gen")

    # per-operator lane lemmas --------------------------------------------------------------------
    L = ["-- GENERATED by tools/translators/tr_c09.py: one lane lemma per operator / function that loop.hh lists.",
         "-- Each is an instance of a generic theorem of Proofs/C09.lean about the loop shape translated from the macro.",
         "import DuneVerif.Proofs.C09",
         "namespace DV.C09.Lanes",
         "open DV.C09 DV.C09.Gen",
         ""]
    names = []

    def lemma(nm, stmt, proof):
        names.append("DV.C09.Lanes." + nm)
        L.append("theorem %s %s :=\n  %s" % (nm, stmt, proof))

    for c, s in zip(ctor_names(un, UNARY_NAMES, "unary"), un):
        lemma("lane_unary_%s" % c,
              "{α : Type} {S : Nat} (sem : UnOp → α → Option α) (a : Vec α S) : LanewiseUn (Simd.unary sem .%s a) (sem .%s) a" % (c, c),
              "lanewise_unary sem _ a")
    for c, s in zip(ctor_names(pre, SYMBOL_NAMES, "prefix"), pre):
        lemma("lane_prefix_%s" % c,
              "{α : Type} {S : Nat} (sem : IncOp → α → Option α) (a : Vec α S) : LanewiseUn (Simd.prefix sem .%s a) (sem .%s) a" % (c, c),
              "lanewise_prefix sem _ a")
        lemma("lane_postfix_%s" % c,
              "{α : Type} {S : Nat} (sem : IncOp → α → Option α) (a : Vec α S) : LanewisePostfix (Simd.postfix sem .%s a) (sem .%s) a" % (c, c),
              "lanewise_postfix sem _ a")
    for c in ctor_names(bi, SYMBOL_NAMES, "binary"):
        lemma("lane_binary_%s" % c,
              "{α : Type} {S : Nat} (sem : BinOp → α → α → Option α) (a b : Vec α S) (s : α) :\n"
              "    LanewiseBin (Simd.binaryVV sem .%s a b) (sem .%s) a b ∧ LanewiseBinVS (Simd.binaryVS sem .%s a s) (sem .%s) a s ∧\n"
              "    LanewiseBinSV (Simd.binarySV sem .%s s b) (sem .%s) s b" % (c, c, c, c, c, c),
              "⟨lanewise_binaryVV sem _ a b, lanewise_binaryVS sem _ a s, lanewise_binarySV sem _ s b⟩")
    for c in ctor_names(sh, SYMBOL_NAMES, "shift"):
        lemma("lane_shift_%s" % c,
              "{α β : Type} {S : Nat} (sem : ShiftOp → α → β → Option α) (a : Vec α S) (b : Vec β S) (s : β) :\n"
              "    LanewiseBin (Simd.shiftVV sem .%s a b) (sem .%s) a b ∧ LanewiseBinVS (Simd.shiftVS sem .%s a s) (sem .%s) a s" % (c, c, c, c),
              "⟨lanewise_shiftVV sem _ a b, lanewise_shiftVS sem _ a s⟩")
    for c in ctor_names([a[:-1] for a in asg], SYMBOL_NAMES, "assignment"):
        lemma("lane_assign_%s" % c,
              "{α : Type} {S : Nat} (sem : AssignOp → α → α → Option α) (a b : Vec α S) (s : α) :\n"
              "    LanewiseBin (Simd.assignVV sem .%s a b) (sem .%s) a b ∧ LanewiseBinVS (Simd.assignVS sem .%s a s) (sem .%s) a s" % (c, c, c, c),
              "⟨lanewise_assignVV sem _ a b, lanewise_assignVS sem _ a s⟩")
    for c in ctor_names(cmp_, SYMBOL_NAMES, "comparison"):
        lemma("lane_compare_%s" % c,
              "{α : Type} {S : Nat} (sem : CmpOp → α → α → Option Bool) (a b : Vec α S) (s : α) :\n"
              "    LanewiseBin (Simd.compareVV sem .%s a b) (sem .%s) a b ∧ LanewiseBinVS (Simd.compareVS sem .%s a s) (sem .%s) a s ∧\n"
              "    LanewiseBinSV (Simd.compareSV sem .%s s b) (sem .%s) s b" % (c, c, c, c, c, c),
              "⟨lanewise_compareVV sem _ a b, lanewise_compareVS sem _ a s, lanewise_compareSV sem _ s b⟩")
    # (round 3) the scalar operand has another arithmetic type σ: the lanes see it in its own type
    for c in ctor_names(cmp_, SYMBOL_NAMES, "comparison"):
        lemma("lane_compare_mixed_%s" % c,
              "{α σ : Type} {S : Nat} (semL : CmpOp → α → Simd.Arg σ α → Option Bool) (semR : CmpOp → Simd.Arg σ α → α → Option Bool)\n"
              "    (toLane : σ → Option α) (truth : σ → Option Bool) (a : Vec α S) (s : σ) :\n"
              "    LanewiseBinVS (Simd.compareVSx semL toLane truth .%s a s) (fun x t => semL .%s x (.own t)) a s ∧\n"
              "    LanewiseBinSV (Simd.compareSVx semR toLane truth .%s s a) (fun t y => semR .%s (.own t) y) s a" % (c, c, c, c),
              "⟨lanewise_compareVSx semL toLane truth _ a s, lanewise_compareSVx semR toLane truth _ s a⟩")
    for c in ctor_names(bo, SYMBOL_NAMES, "boolean"):
        lemma("lane_logic_mixed_%s" % c,
              "{α σ : Type} {S : Nat} (semL : BoolOp → α → Simd.Arg σ α → Option Bool) (toLane : σ → Option α) (truth : σ → Option Bool)\n"
              "    (a : Vec α S) (s : σ) : LanewiseBinVS (Simd.logicVSx semL toLane truth .%s a s) (fun x t => semL .%s x (.own t)) a s" % (c, c),
              "lanewise_logicVSx semL toLane truth _ a s")
    for c in ctor_names(sh, SYMBOL_NAMES, "shift"):
        lemma("lane_shift_mixed_%s" % c,
              "{α σ : Type} {S : Nat} (sem : ShiftOp → α → Simd.Arg σ α → Option α) (toLane : σ → Option α) (truth : σ → Option Bool)\n"
              "    (a : Vec α S) (s : σ) : LanewiseBinVS (Simd.shiftVSx sem toLane truth .%s a s) (fun x t => sem .%s x (.own t)) a s" % (c, c),
              "lanewise_shiftVSx sem toLane truth _ a s")
    for c in ctor_names(bo, SYMBOL_NAMES, "boolean"):
        lemma("lane_logic_%s" % c,
              "{α : Type} {S : Nat} (sem : BoolOp → α → α → Option Bool) (a b : Vec α S) (s : α) :\n"
              "    LanewiseBin (Simd.logicVV sem .%s a b) (sem .%s) a b ∧ LanewiseBinVS (Simd.logicVS sem .%s a s) (sem .%s) a s ∧\n"
              "    LanewiseBinSV (Simd.logicSV sem .%s s b) (sem .%s) s b" % (c, c, c, c, c, c),
              "⟨lanewise_logicVV sem _ a b, lanewise_logicVS sem _ a s, lanewise_logicSV sem _ s b⟩")
    for n_ in mathsame:
        lemma("lane_math_%s" % n_,
              "{α : Type} {S : Nat} (sem : MathOp → α → Option α) (a : Vec α S) : LanewiseUn (Simd.math sem .f_%s a) (sem .f_%s) a" % (n_, n_),
              "lanewise_math sem _ a")
    for a_ in mathret:
        lemma("lane_math_%s" % a_[0],
              "{α β : Type} {S : Nat} (sem : MathRetOp → α → Option β) (a : Vec α S) : LanewiseUn (Simd.mathRet sem .f_%s a) (sem .f_%s) a" % (a_[0], a_[0]),
              "lanewise_mathRet sem _ a")
    for n_ in stdun:
        lemma("lane_std_%s" % n_,
              "{α β : Type} {S : Nat} (sem : StdUnOp → α → Option β) (a : Vec α S) : LanewiseUn (Simd.stdUn sem .f_%s a) (sem .f_%s) a" % (n_, n_),
              "lanewise_stdUn sem _ a")
    for n_ in stdbin:
        lemma("lane_std_%s" % n_,
              "{α : Type} {S : Nat} (sem : StdBinOp → α → α → Option α) (a b : Vec α S) : LanewiseBin (Simd.stdBin sem .f_%s a b) (sem .f_%s) a b" % (n_, n_),
              "lanewise_stdBin sem _ a b")
    L.append("")
    L.append("/-- names of the generated lemmas (one per operator row of loop.hh) -/")
    L.append("def generatedLemmaCount : Nat := %d" % len(names))
    L.append("end DV.C09.Lanes")
    translate.lemma_names = names
    return [("DuneVerif/Gen/C09.lean", "\n".join(g) + "\n"),
            ("DuneVerif/Gen/C09Lanes.lean", "\n".join(L) + "\n")]




# ------------------------------------------------------------------------------------------------
# (round 5) self-test of the tolerance: `python3 tools/translators/tr_c09.py --selftest [repo]` copies the anchored files to a temporary
# directory, applies each edit below and compares translate() with the output for the unchanged tree.  POS = behaviour-preserving
# respellings (must give the identical output), NEG = near misses that change behaviour (must fail or give other output).  ~2 s.
# ------------------------------------------------------------------------------------------------

_SELFTEST = []
DM, LP, IF, DF = ("dune/common/densematrix.hh", "dune/common/simd/loop.hh", "dune/common/simd/interface.hh", "dune/common/simd/defaults.hh")


def _st(kind, name, edits):
    _SELFTEST.append((kind, name, edits))


allTrue_old = """        bool out = true;
        for(std::size_t i=0; i<S; i++) {
          out &= Simd::allTrue(mask[i]);
        }
        return out;"""
_st('POS','o1_reduction_accumulator', [(LP, allTrue_old, """        bool everyLane = true;
        for(std::size_t i=0; i<S; ++i)
          everyLane = everyLane & Simd::allTrue(mask[i]);
        return everyLane;""")])
_st('POS','o2_det_return_expr', [(DM, """    det = Simd::cond(nonsingularLanes, det, field_type(0));
    return det;""", """    return Simd::cond(nonsingularLanes, det, field_type(0));""")])
_st('POS','o3_invert_continue_guard', [(DM, """          if(i!=pi)
            for(size_type j=0; j<rows(); ++j)
              swap(Simd::lane(l, (*this)[j][pi]),
                   Simd::lane(l, (*this)[j][ i]));""", """          if(i==pi)
            continue; // this lane did not exchange rows in step i
          for(size_type j=0; j<rows(); ++j)
            swap(Simd::lane(l, (*this)[j][pi]),
                 Simd::lane(l, (*this)[j][ i]));""")])
_st('POS','o4_isnan_index_loop', [(LP, """      Simd::Mask<LoopSIMD<T,S,A>> out;
      for(auto l : range(S))
        out[l] = Dune::isNaN(v[l]);
      return out;""", """      Simd::Mask<LoopSIMD<T,S,A>> nanLanes;
      for(std::size_t l = 0; l < S; ++l) {
        nanLanes[l] = Dune::isNaN(v[l]);
      }
      return nanLanes;""")])
_st('POS','o5_cond_guard_clause', [(IF, "      return mask ? ifTrue : ifFalse;", "      if(mask) {\n        return ifTrue;\n      }\n      return ifFalse;")])
# negatives
_st('NEG','n_reduce_shortcircuit', [(LP, allTrue_old, allTrue_old.replace("out &= Simd::allTrue(mask[i]);", "out = out && Simd::allTrue(mask[i]);"))])
_st('NEG','n_reduce_break', [(LP, allTrue_old, """        bool out = true;
        for(const M& entry : mask) {
          out &= Simd::allTrue(entry);
          if(!out) break;
        }
        return out;""")])
_st('NEG','n_reduce_first_only', [(LP, allTrue_old, """        bool out = true;
        for(const M& entry : mask) {
          out &= Simd::allTrue(mask[0]);
        }
        return out;""")])
lu_for = "    for (size_type i=0; i<A.rows(); i++)  // loop over all rows"
_st('NEG','n_lu_n_minus1', [(DM, lu_for, "    const size_type n = A.rows() - 1;\n    for (size_type i=0; i<n; i++)")])
_st('NEG','n_lu_int_n', [(DM, lu_for, "    const int n = A.rows();\n    for (size_type i=0; i<n; i++)")])
_st('NEG','n_lu_piv_n_minus1', [(DM, lu_for, "    const size_type last = A.rows() - 1;\n" + lu_for),
                               (DM, "        for (size_type k=i+1; k<A.rows(); k++)\n        {\n          auto abs", "        for (size_type k=i+1; k<last; k++)\n        {\n          auto abs")])
hmax_old = """          if(m < Simd::lane(l, v))
            m = Simd::lane(l, v);"""
_st('NEG','n_hmax_lane0', [(DF, hmax_old, """        {
          const Scalar<V> entry = Simd::lane(0, v);
          if(m < entry)
            m = entry;
        }""")])
_st('NEG','n_hmax_stale', [(DF, "        Scalar<V> m = Simd::lane(0, v);\n        for(std::size_t l = 1; l < Simd::lanes(v); ++l)\n" + hmax_old,
   "        Scalar<V> m = Simd::lane(0, v);\n        const Scalar<V> first = m;\n        for(std::size_t l = 1; l < Simd::lanes(v); ++l)\n          if(first < Simd::lane(l, v))\n            m = Simd::lane(l, v);")])
_st('NEG','n_cond_swapped', [(IF, "      return mask ? ifTrue : ifFalse;", "      if(mask)\n        return ifFalse;\n      else\n        return ifTrue;")])
_st('NEG','n_continue_wrong', [(DM, "          if(i!=pi)\n            for(size_type j=0; j<rows(); ++j)", "          if(i!=pi)\n            continue;\n          for(size_type j=0; j<rows(); ++j)")])
_st('NEG','n_det_mask_swapped', [(DM, "    det = Simd::cond(nonsingularLanes, det, field_type(0));\n    return det;", "    return Simd::cond(nonsingularLanes, field_type(0), det);")])
_st('NEG','n_implcast_short', [(DF, "        for(auto l : range(Simd::lanes(u)))", "        const std::size_t laneCount = Simd::lanes(u) - 1;\n        for(std::size_t l = 0; l < laneCount; ++l)")])
_st('NEG','n_isnan_from1', [(LP, "      for(auto l : range(S))\n        out[l] = Dune::isNaN(v[l]);", "      for(std::size_t l = 1; l < S; ++l)\n        out[l] = Dune::isNaN(v[l]);")])

_st('POS','o6_pivot_conds_reordered', [(DM, """          pivmax = Simd::cond(mask, abs, pivmax);
          imax   = Simd::cond(mask, simd_index_type(k), imax);""", """          imax   = Simd::cond(mask, simd_index_type(k), imax);
          pivmax = Simd::cond(mask, abs, pivmax);""")])
_st('NEG','n_pivot_conds_dependent', [(DM, """          pivmax = Simd::cond(mask, abs, pivmax);
          imax   = Simd::cond(mask, simd_index_type(k), imax);""", """          imax   = Simd::cond(mask, simd_index_type(k), imax);
          pivmax = Simd::cond(mask, abs, fvmeta::absreal(A[Simd::lane(0, imax)][i]));""")])
_st('POS','o7_mv_hoisted_cols', [(DM, """      for (size_type i=0; i<rows(); ++i)
      {
        yy[i] = y_field_type(0);
        for (size_type j=0; j<cols(); j++)
          yy[i] += (*this)[i][j] * xx[j];""", """      const size_type nRows = rows();
      const size_type nCols = cols();
      for (size_type i=0; i<nRows; ++i)
      {
        yy[i] = y_field_type(0);
        for (size_type j=0; j<nCols; j++)
          yy[i] += (*this)[i][j] * xx[j];""")])

# the mechanisms of the round-five refactorings harmless/C09_r1h1..h3, C02_r1h1
_st('POS', 'h1_lu_rows_hoisted', [(DM, lu_for, "    const size_type n = A.rows();\n    for (size_type i=0; i<n; ++i)"),
                                  (DM, "        for (size_type k=i+1; k<A.rows(); k++)\n        {\n          auto abs = fvmeta::absreal(A[k][i]);\n          auto mask = abs > pivmax;",
                                   "        for (size_type k=i+1; k<n; ++k)\n        {\n          auto abs = fvmeta::absreal(A[k][i]);\n          auto mask = pivmax < abs;"),
                                  (DM, "      else { // !throwEarly\n        if(!Simd::anyTrue(nonsingularLanes))\n          return;\n      }",
                                   "      else if(!Simd::anyTrue(nonsingularLanes))\n        return;")])
_st('POS', 'h2_reduce_range_for', [(LP, allTrue_old, """        bool out = true;
        for(const M& entry : mask) {
          out &= Simd::allTrue(entry);
        }
        return out;""")])
_st('POS', 'h3_implcast_lanecount', [(DF, "        for(auto l : range(Simd::lanes(u)))", "        const std::size_t laneCount = Simd::lanes(u);\n        for(std::size_t l = 0; l < laneCount; ++l)")])
_st('POS', 'h3_hmax_entry', [(DF, hmax_old, """        {
          const Scalar<V> entry = Simd::lane(l, v);
          if(m < entry)
            m = entry;
        }""")])
_st('POS', 'h3_cond_if_else', [(IF, "      return mask ? ifTrue : ifFalse;", "      if(mask)\n        return ifTrue;\n      else\n        return ifFalse;")])

# the hand-made changes of round four that were caught through the translator (design_notes/C09.md 12.4)
_st('NEG', 'r4_M1_return_reduction', [(DM, "        if(!Simd::anyTrue(nonsingularLanes))\n          return;", "        if(!Simd::allTrue(nonsingularLanes))\n          return;")])
_st('NEG', 'r4_M2_det_all_lanes_zero', [(DM, "    det = Simd::cond(nonsingularLanes, det, field_type(0));\n    return det;",
                                         "    if(!Simd::allTrue(nonsingularLanes))\n      det = field_type(0);\n    return det;")])
_st('NEG', 'r4_M4_mmhv_skip_zero', [(DM, "          yy[j] -= conjugateComplex((*this)[i][j])*xx[i];",
                                     "        {\n          if (Simd::allTrue((*this)[i][j] == field_type(0))) continue;\n          yy[j] -= conjugateComplex((*this)[i][j])*xx[i];\n        }")])
_st('NEG', 'r4_M5_pivot_any_lane', [(DM, "          pivmax = Simd::cond(mask, abs, pivmax);\n          imax   = Simd::cond(mask, simd_index_type(k), imax);",
                                     "          if (Simd::anyTrue(mask)) { pivmax = abs; imax = simd_index_type(k); }")])
_st('NEG', 'r4_M6_usmhv_lane0_alpha', [(DM, "            alpha*conjugateComplex((*this)[i][j])*xx[i];", "            field_type(Simd::lane(0, alpha))*conjugateComplex((*this)[i][j])*xx[i];")])


def _selftest(repo):
    import shutil, tempfile
    files = [DM, LP, IF, DF, "dune/common/simd/standard.hh", "dune/common/simd/DESIGN.md"]
    base = translate(repo)
    bad = 0
    for kind, name, edits in _SELFTEST:
        root = tempfile.mkdtemp(prefix="tr_c09_")
        try:
            for f in files:
                os.makedirs(os.path.dirname(os.path.join(root, f)), exist_ok=True)
                shutil.copy(os.path.join(repo, f), os.path.join(root, f))
            for f, old, new in edits:
                s = open(os.path.join(root, f)).read()
                if s.count(old) != 1:
                    raise TranslateError("selftest %s: anchor text not found (the source moved on; update the self-test)" % name)
                open(os.path.join(root, f), "w").write(s.replace(old, new))
            try:
                verdict = "same" if translate(root) == base else "differs"
            except TranslateError:
                verdict = "loud"
        finally:
            shutil.rmtree(root)
        ok = (verdict == "same") if kind == "POS" else (verdict != "same")
        bad += not ok
        print("%s %-28s %-8s %s" % (kind, name, verdict, "ok" if ok else "WRONG"))
    print("selftest: %d cases, %d wrong" % (len(_SELFTEST), bad))
    return bad


if __name__ == "__main__":
    import sys
    if len(sys.argv) > 1 and sys.argv[1] == "--selftest":
        sys.exit(1 if _selftest(sys.argv[2] if len(sys.argv) > 2 else "/repo") else 0)
    for path, content in translate(sys.argv[1] if len(sys.argv) > 1 else "/repo"):
        print("=====", path)
        print(content)
