"""Translator for C18 (path and string utilities).

Re-reads on every run, from the current source tree,
  * the size of the stack buffer of Dune::formatString (stringutility.hh) -> `bufferSize`,
  * the two functions of path.cc that are pure decision lists ("guarded returns"):
    `pathIndicatesDirectory` and `concatPaths`,
  * the example tables in the documentation of processPath, prettyPath and concatPaths (path.hh, the HTML
    `<tr><td> ... </td></tr>` rows of the doc comments) -> `docTableProcessPath/PrettyPath/ConcatPaths`; the theorems
    `doc_table_*` evaluate the model on every documented row (kernel `decide`), so the documentation, the model and
    - through the differential run - the code are compared on every run,
and emits them as Lean definitions into lean/DuneVerif/Gen/C18.lean.  The C18 model imports that file, so the
theorems about these functions (`indicatesDirectory_spec`, `concat_spec`, `concat_denote`, `concat_sanitized`,
`pretty_auto`, `relative_roundtrip`, `formatString_spec`, ...) are re-proved about what the source says now, and
the driver executes the regenerated definitions.

Grammar of a decision list: the body is a sequence of statements
      [else] if ( COND ) return EXPR ;          [else] return EXPR ;
  COND ::= ATOM { || ATOM }
  ATOM ::= ID == "lit" | "lit" == ID | ID.empty() | ID.size() == 0 | ID == std::string()
         | ID[0] == 'c' | ID.front() == 'c' | ID.back() == 'c'
         | hasPrefix(ID, "lit") | hasSuffix(ID, "lit")
  EXPR ::= true | false | TERM { + TERM }        TERM ::= ID | "lit" | 'c'
where ID is one of the function's parameters.

The loops of processPath / relativePath are NOT translated (their constants are tied by the exhaustive
differential run: e.g. `src += 4` instead of `src += 3` is behaviourally equivalent and must not alarm).

Fail-soft policy: a harmless refactoring that leaves this grammar must not raise an alarm, so for each of the three
items that cannot be parsed the translator falls back to the built-in transcription (the text the hand-written
round-one model had) and records that in `Gen.translated` / `status()`; tools/checks/c18.py hands the number of
fallbacks to the harness, which reports it in the evidence (`translator_fallbacks`).  In that case the item is
tied by the exhaustive differential run only, exactly as before round two."""
import os
import re


class TranslateError(Exception):
    pass


# ------------------------------------------------------------------------------------------------------------
def strip_comments(src):
    out, i, n = [], 0, len(src)
    while i < n:
        c = src[i]
        if c == '"' or c == "'":
            j = i + 1
            while j < n and src[j] != c:
                j += 2 if src[j] == "\\" else 1
            out.append(src[i:j + 1])
            i = j + 1
        elif src.startswith("//", i):
            j = src.find("\n", i)
            i = n if j < 0 else j
        elif src.startswith("/*", i):
            j = src.find("*/", i + 2)
            i = n if j < 0 else j + 2
            out.append(" ")
        else:
            out.append(c)
            i += 1
    return "".join(out)


def function_body(src, name, nparams):
    """(parameter names, body text) of the definition `... name(const std::string& a, ...) { body }`"""
    for m in re.finditer(r"\b%s\s*\(([^()]*)\)\s*\{" % re.escape(name), src):
        params = [p.strip() for p in m.group(1).split(",") if p.strip()]
        if len(params) != nparams:
            continue
        names = []
        for p in params:
            mm = re.fullmatch(r"(?:const\s+)?std::string(?:\s+const)?\s*&?\s*([A-Za-z_]\w*)", p)
            if not mm:
                raise TranslateError("%s: parameter %r is not a string" % (name, p))
            names.append(mm.group(1))
        depth, i = 1, m.end()
        in_str = None
        while i < len(src) and depth:
            c = src[i]
            if in_str:
                if c == "\\":
                    i += 1
                elif c == in_str:
                    in_str = None
            elif c in "\"'":
                in_str = c
            elif c == "{":
                depth += 1
            elif c == "}":
                depth -= 1
            i += 1
        if depth:
            raise TranslateError("%s: unbalanced braces" % name)
        return names, src[m.end():i - 1]
    raise TranslateError("definition of %s with %d string parameters not found" % (name, nparams))


ESC = {"n": "\n", "t": "\t", "\\": "\\", "'": "'", '"': '"', "0": "\0"}


def c_unescape(s):
    out, i = [], 0
    while i < len(s):
        if s[i] == "\\":
            if i + 1 >= len(s) or s[i + 1] not in ESC:
                raise TranslateError("escape sequence outside the grammar in %r" % s)
            out.append(ESC[s[i + 1]])
            i += 2
        else:
            out.append(s[i])
            i += 1
    return "".join(out)


def lean_char(c):
    o = ord(c)
    if c == "'" or c == "\\":
        return "'\\%s'" % c
    if 32 <= o < 127:
        return "'%s'" % c
    return "(Char.ofNat %d)" % o


def lean_str(s):
    return "[" + ", ".join(lean_char(c) for c in s) + "]"


STR = r'"((?:[^"\\]|\\.)*)"'
CHR = r"'((?:[^'\\]|\\.))'"


def split_top(text, sep):
    """split at `sep` outside literals and parentheses"""
    parts, depth, i, last = [], 0, 0, 0
    while i < len(text):
        c = text[i]
        if c in "\"'":
            j = i + 1
            while j < len(text) and text[j] != c:
                j += 2 if text[j] == "\\" else 1
            i = j + 1
            continue
        if c == "(":
            depth += 1
        elif c == ")":
            depth -= 1
        elif depth == 0 and text.startswith(sep, i):
            parts.append(text[last:i])
            i += len(sep)
            last = i
            continue
        i += 1
    parts.append(text[last:])
    return parts


def atom(a, ids):
    a = a.strip()
    while a.startswith("(") and a.endswith(")"):
        depth, whole = 0, True
        for k, ch in enumerate(a):
            if ch == "(":
                depth += 1
            elif ch == ")":
                depth -= 1
                if depth == 0 and k != len(a) - 1:
                    whole = False
                    break
        if not whole:
            break
        a = a[1:-1].strip()
    idp = r"(%s)" % "|".join(map(re.escape, ids))
    m = re.fullmatch(idp + r"\s*==\s*" + STR, a)
    if m:
        return "%s = %s" % (m.group(1), lean_str(c_unescape(m.group(2))))
    m = re.fullmatch(STR + r"\s*==\s*" + idp, a)
    if m:
        return "%s = %s" % (m.group(2), lean_str(c_unescape(m.group(1))))
    m = re.fullmatch(idp + r"\s*\.\s*empty\s*\(\s*\)", a) or re.fullmatch(idp + r"\s*\.\s*size\s*\(\s*\)\s*==\s*0", a) \
        or re.fullmatch(idp + r"\s*==\s*std::string\s*\(\s*\)", a)
    if m:
        return "%s = []" % m.group(1)
    m = re.fullmatch(idp + r"\s*\[\s*0\s*\]\s*==\s*" + CHR, a) or re.fullmatch(idp + r"\s*\.\s*front\s*\(\s*\)\s*==\s*" + CHR, a)
    if m:
        ch = c_unescape(m.group(2))
        if ch == "\0":
            raise TranslateError("comparison of x[0] with NUL is outside the grammar")
        return "%s.head? = some %s" % (m.group(1), lean_char(ch))
    m = re.fullmatch(idp + r"\s*\.\s*back\s*\(\s*\)\s*==\s*" + CHR, a)
    if m:
        return "%s.getLast? = some %s" % (m.group(1), lean_char(c_unescape(m.group(2))))
    m = re.fullmatch(r"(?:Dune::)?(hasPrefix|hasSuffix)\s*\(\s*" + idp + r"\s*,\s*" + STR + r"\s*\)", a)
    if m:
        lit = c_unescape(m.group(3))
        if "\0" in lit:
            raise TranslateError("NUL inside a C string literal")
        return "%s %s %s = true" % (m.group(1), m.group(2), lean_str(lit))
    raise TranslateError("condition outside the grammar: %r" % a)


def cond(c, ids):
    parts = split_top(c, "||")
    atoms = [atom(p, ids) for p in parts]
    return atoms[0] if len(atoms) == 1 else " ∨ ".join("(%s)" % x for x in atoms)


def expr(e, ids, boolean):
    e = e.strip()
    if boolean:
        if e in ("true", "false"):
            return e
        raise TranslateError("boolean result outside the grammar: %r" % e)
    terms = []
    for t in split_top(e, "+"):
        t = t.strip()
        if t in ids:
            terms.append(t)
            continue
        m = re.fullmatch(STR, t)
        if m:
            terms.append(lean_str(c_unescape(m.group(1))))
            continue
        m = re.fullmatch(CHR, t)
        if m:
            terms.append(lean_str(c_unescape(m.group(1))))
            continue
        raise TranslateError("string expression outside the grammar: %r" % t)
    return " ++ ".join(terms)


def decision_list(body, ids, boolean):
    """-> list of (condition | None, result); the last entry has condition None"""
    stmts = [s.strip() for s in split_top(body, ";")]
    if stmts and stmts[-1] == "":
        stmts.pop()
    rules = []
    for k, s in enumerate(stmts):
        s = re.sub(r"\s+", " ", s)
        s = re.sub(r"^else\b\s*", "", s)
        if rules and rules[-1][0] is None:
            raise TranslateError("statement after the unconditional return: %r" % s)
        m = re.match(r"^if\s*\(", s)
        if m:
            # find the matching parenthesis of the condition
            depth, i = 1, m.end()
            while i < len(s) and depth:
                if s[i] in "\"'":
                    q = s[i]
                    i += 1
                    while i < len(s) and s[i] != q:
                        i += 2 if s[i] == "\\" else 1
                elif s[i] == "(":
                    depth += 1
                elif s[i] == ")":
                    depth -= 1
                i += 1
            c, rest = s[m.end():i - 1], s[i:].strip()
            mm = re.fullmatch(r"return\b\s*(.*)", rest)
            if not mm:
                raise TranslateError("guarded statement is not a return: %r" % s)
            rules.append((cond(c, ids), expr(mm.group(1), ids, boolean)))
            continue
        mm = re.fullmatch(r"return\b\s*(.*)", s)
        if mm:
            rules.append((None, expr(mm.group(1), ids, boolean)))
            continue
        raise TranslateError("statement outside the grammar: %r" % s)
    if not rules or rules[-1][0] is not None:
        raise TranslateError("decision list does not end in an unconditional return")
    return rules


def emit_def(name, ids, rettype, rules):
    lines = ["def %s (%s : Str) : %s :=" % (name, " ".join(ids), rettype)]
    for k, (c, r) in enumerate(rules):
        if c is None:
            lines.append("  %s%s" % ("else " if k else "", r))
        else:
            lines.append("  %sif %s then %s" % ("else " if k else "", c, r))
    return "\n".join(lines)


def buffer_size(src):
    """capacity of the `char <name>[CAP];` stack buffer inside formatString"""
    m = re.search(r"\bformatString\s*\(", src)
    if not m:
        raise TranslateError("formatString not found")
    tail = src[m.start():]
    mb = re.search(r"\bchar\s+([A-Za-z_]\w*)\s*\[\s*([A-Za-z_]\w*|\d+)\s*\]\s*;", tail)
    if not mb:
        raise TranslateError("stack buffer declaration of formatString not found")
    cap = mb.group(2)
    if not cap.isdigit():
        mc = re.search(r"\b%s\s*=\s*(\d+)\s*;" % re.escape(cap), tail[:mb.start()])
        if not mc:
            mc = re.search(r"\b%s\s*=\s*(\d+)\s*;" % re.escape(cap), src)
        if not mc:
            raise TranslateError("value of the buffer capacity %s not found" % cap)
        cap = mc.group(1)
    v = int(cap)
    if not (1 <= v <= 1000000):
        raise TranslateError("implausible buffer capacity %d" % v)
    return v


def doc_rows(hdr, decl_regex, ncols):
    """rows of the HTML table in the doc comment in front of the declaration matching decl_regex"""
    m = re.search(decl_regex, hdr)
    if not m:
        raise TranslateError("declaration %r not found in path.hh" % decl_regex)
    end = hdr.rfind("*/", 0, m.start())
    start = hdr.rfind("/**", 0, end)
    if end < 0 or start < 0 or hdr[end + 2:m.start()].strip():
        raise TranslateError("no doc comment directly in front of %r" % decl_regex)
    doc = hdr[start:end]
    rows = []
    for r in re.finditer(r"<tr>(.*?)</tr>", doc, re.S):
        cells = re.findall(r"<td>(.*?)</td>", r.group(1), re.S)
        if not cells:
            continue            # header row (<th>)
        if len(cells) != ncols:
            raise TranslateError("table row with %d instead of %d cells" % (len(cells), ncols))
        rows.append([c.strip() for c in cells])
    if not rows:
        raise TranslateError("no table rows in the documentation of %r" % decl_regex)
    return rows


def cell_str(c, anything=None):
    m = re.fullmatch(STR, c)
    if m:
        return c_unescape(m.group(1))
    if c == "anything" and anything is not None:
        return anything
    raise TranslateError("table cell %r is not a string literal" % c)


def doc_tables(hdr):
    proc = [(cell_str(a), cell_str(b)) for a, b in doc_rows(hdr, r"std::string\s+processPath\s*\(", 2)]
    pretty = []
    for a, d, b in doc_rows(hdr, r"std::string\s+prettyPath\s*\(\s*const\s+std::string\s*&\s*\w+\s*,\s*bool\b", 3):
        if d not in ("true", "false", "anything"):
            raise TranslateError("isDirectory cell %r" % d)
        for dv in (["false", "true"] if d == "anything" else [d]):
            pretty.append((cell_str(a), dv, cell_str(b)))
    concat = [(cell_str(a, "anything"), cell_str(b), cell_str(c)) for a, b, c in doc_rows(hdr, r"std::string\s+concatPaths\s*\(", 3)]
    return proc, pretty, concat


DEFAULT_TABLES = (
    [("", ""), (".", ""), ("./", ""), ("a/..", ""), ("..", "../"), ("../a", "../a/"), ("a", "a/"), ("a//", "a/"), ("a///b", "a/b/"),
     ("/", "/"), ("/.", "/"), ("/..", "/"), ("/a/..", "/"), ("/a", "/a/"), ("/a/", "/a/"), ("/../a/", "/a/")],
    [("", "false", "."), ("", "true", "."), (".", "false", "."), (".", "true", "."), ("./", "false", "."), ("./", "true", "."),
     ("a/..", "false", "."), ("a/..", "true", "."), ("..", "false", ".."), ("..", "true", ".."), ("../a", "true", "../a/"),
     ("../a", "false", "../a"), ("a", "true", "a/"), ("a", "false", "a"), ("a//", "true", "a/"), ("a//", "false", "a"),
     ("a///b", "true", "a/b/"), ("a///b", "false", "a/b"), ("/", "false", "/"), ("/", "true", "/"), ("/.", "false", "/"),
     ("/.", "true", "/"), ("/..", "false", "/"), ("/..", "true", "/"), ("/a/..", "false", "/"), ("/a/..", "true", "/"),
     ("/a", "true", "/a/"), ("/a", "false", "/a"), ("/a/", "true", "/a/"), ("/a/", "false", "/a"), ("/../a/", "true", "/a/"),
     ("/../a/", "false", "/a")],
    [("anything", "/abs/path", "/abs/path"), ("a", "b", "a/b"), ("/a", "b", "/a/b"), ("a/", "b", "a/b"), ("a", "b/", "a/b/"),
     ("..", "b", "../b"), ("a", "..", "a/.."), (".", "b", "./b"), ("a", ".", "a/."), ("", "b", "b"), ("a", "", "a"), ("", "", "")])


# the built-in transcription (= what the translator produces on the pinned tree)
DEFAULT_BUFFER = 1000
DEFAULT_INDICATES = (["p"], [("p = []", "true"), ("p = ['.']", "true"), ("p = ['.', '.']", "true"),
                            ("hasSuffix p ['/'] = true", "true"), ("hasSuffix p ['/', '.'] = true", "true"),
                            ("hasSuffix p ['/', '.', '.'] = true", "true"), (None, "false")])
DEFAULT_CONCAT = (["base", "p"], [("p = []", "base"), ("p.head? = some '/'", "p"), ("base = []", "p"),
                                  ("hasSuffix base ['/'] = true", "base ++ p"), (None, "base ++ ['/'] ++ p")])


ITEMS = ("bufferSize", "pathIndicatesDirectory", "concatPaths", "docTables")


def analyse(repo):
    """-> dict(bufferSize, indicates, concat, status) ; status: item -> None (translated) | error text (fallback)"""
    status = {}
    try:
        su = strip_comments(open(os.path.join(repo, "dune/common/stringutility.hh")).read())
        cap = buffer_size(su)
        status["bufferSize"] = None
    except (TranslateError, OSError) as ex:
        cap, status["bufferSize"] = DEFAULT_BUFFER, str(ex)
    try:
        pc = strip_comments(open(os.path.join(repo, "dune/common/path.cc")).read())
    except OSError as ex:
        pc = ""
    try:
        ids, body = function_body(pc, "pathIndicatesDirectory", 1)
        ind = (ids, decision_list(body, ids, True))
        status["pathIndicatesDirectory"] = None
    except TranslateError as ex:
        ind, status["pathIndicatesDirectory"] = DEFAULT_INDICATES, str(ex)
    try:
        ids, body = function_body(pc, "concatPaths", 2)
        con = (ids, decision_list(body, ids, False))
        status["concatPaths"] = None
    except TranslateError as ex:
        con, status["concatPaths"] = DEFAULT_CONCAT, str(ex)
    try:
        tables = doc_tables(open(os.path.join(repo, "dune/common/path.hh")).read())
        status["docTables"] = None
    except (TranslateError, OSError) as ex:
        tables, status["docTables"] = DEFAULT_TABLES, str(ex)
    return dict(bufferSize=cap, indicates=ind, concat=con, tables=tables, status=status)


def status(repo):
    return analyse(repo)["status"]


def translate(repo):
    a = analyse(repo)
    st = a["status"]
    out = ["-- GENERATED by tools/translators/tr_c18.py from dune/common/stringutility.hh and dune/common/path.cc -- do not edit",
           "import DuneVerif.Model.C18.Str",
           "namespace DV.C18",
           "",
           "/-- `static const int bufferSize` / `char buffer[bufferSize]` of Dune::formatString -/",
           "def bufferSize : Nat := %d" % a["bufferSize"],
           "",
           "/-- `Dune::pathIndicatesDirectory`, the decision list of path.cc -/",
           emit_def("pathIndicatesDirectory", a["indicates"][0], "Bool", a["indicates"][1]),
           "",
           "/-- `Dune::concatPaths`, the decision list of path.cc -/",
           emit_def("concatPaths", a["concat"][0], "Str", a["concat"][1]),
           "",
           "/-- the example table in the documentation of processPath (path.hh): p, result -/",
           "def docTableProcessPath : List (Str × Str) := [\n  %s]" % ",\n  ".join(
               "(%s, %s)" % (lean_str(x), lean_str(y)) for x, y in a["tables"][0]),
           "",
           "/-- the example table in the documentation of prettyPath (path.hh): p, isDirectory, result ('anything' rows",
           "    expanded to both values) -/",
           "def docTablePrettyPath : List (Str × Bool × Str) := [\n  %s]" % ",\n  ".join(
               "(%s, %s, %s)" % (lean_str(x), d, lean_str(y)) for x, d, y in a["tables"][1]),
           "",
           "/-- the example table in the documentation of concatPaths (path.hh): base, p, result ('anything' taken as the",
           "    literal text) -/",
           "def docTableConcatPaths : List (Str × Str × Str) := [\n  %s]" % ",\n  ".join(
               "(%s, %s, %s)" % (lean_str(x), lean_str(y), lean_str(z)) for x, y, z in a["tables"][2]),
           "",
           "/-- which items were translated from the source (`false`: the source left the translator's grammar and the",
           "    built-in transcription was emitted instead; that item is then tied by the differential run only) -/",
           "def Gen.translated : List (String × Bool) := [%s]" % ", ".join(
               '("%s", %s)' % (k, "true" if st[k] is None else "false") for k in ITEMS),
           ]
    for k in ITEMS:
        if st[k] is not None:
            out.append("-- fallback for %s: %s" % (k, re.sub(r"\s+", " ", st[k])[:200]))
    out += ["", "end DV.C18"]
    return [("DuneVerif/Gen/C18.lean", "\n".join(out) + "\n")]
